"""
C20 -- configuration validation enforces documented option domains and fills defaults.

ENUM over hand-transcribed option tables (mcv/refs/c20_tables.py) and a reference model of the
documented cross-option rules and of the canonical answers form (mcv/refs/c20_model.py):

  * every single-option deviation from the minimal valid configuration of all 32 public classes
  * every unknown key, every omitted required option, every documented default
  * bounded grids over every cross-option rule (violated and satisfied)
  * every documented answers format
  * positional (non-dictionary) configurations, dictionary-beats-keywords (also an EMPTY dictionary), registered defaults
  * registered defaults along the class chain (intermediate levels, precedence, stacking, isolation, call histories)
  * ordered pairs of constructions of the math graders (state left behind by an earlier, possibly failed, construction)
  * the author's own configuration objects: unchanged by a construction, not aliased by obj.config, usable a second time
  * author-defined classes built on the library's graders wherever a grader is expected
  * (thorough) every pair of options with the full pools

Each case constructs the REAL class in keyword form and in dictionary form and judges:
accepted <=> all values in their documented domain and no cross-option rule violated; a rejection must be a
ConfigError or a voluptuous Error; an accepted object exposes every documented option, omitted ones with the
documented default, supplied ones as documented, answers in canonical form; both forms are equal; for graders
Cls(obj.config) == obj.
"""
import copy
import itertools
from ..core import Family, Result, viol, HarnessError
from ..refs import c20_model as M
from ..refs import c20_tables as T
from ..refs.c20_tables import V, I, O, L, SAME, FREE, ANSWERS, NODEF, REQUIRED, OMIT, Check

PROPERTY = 'C20'
RULE = ('cases are (class, option, value-label) tuples enumerated from hand-transcribed tables of documented option '
        'domains (in-domain pool + out-of-domain pool per option) and full products of small grids for every '
        'cross-option rule; a case is non-trivial when it deviates from the minimal valid configuration')
EXPLANATION = ('states = distinct configurations handed to a constructor; transitions = executions of the real '
               'constructors (keyword form, dictionary form, re-construction from obj.config, default-equivalence '
               'constructions); every execution runs the real validation code')
ASSUMPTIONS = [
    'option domains, defaults and cross-option rules are transcribed by hand from the class docstrings and /repo/docs; '
    'where two documents disagree (SumGrader.samples, GeometricCredit.factor, LinearComparer *_msg) the default is not asserted',
    'booleans are never offered where a number is documented',
    'combinations the documentation does not decide are OPEN: only agreement of keyword and dictionary form is asserted '
    '(ListGrader with one answer, SingleListGrader answer lists of different length with length_error=False, '
    'duplicate variable names, sample_from entries for undeclared variables, number of groups vs number of answers)',
    'the wording of error messages and the exception subclass are free: any ConfigError or voluptuous Error counts as rejection',
    'scipy is absent: IntegralGrader, OrthogonalMatrices and UnitaryMatrices are only constructed, never used',
    'object equality: the library == first; structural comparison (lists != tuples, True != 1) for stored values',
    'registered defaults: "higher level classes" in plugins/defaults_sample.py is read as "more derived classes" (its own '
    'example registers debug on StringGrader); registering an option on a level that does not define it is not exercised',
    'an empty tuple of expected answers, an empty or (IntervalGrader) multi-character delimiter, the tolerance "nan%", '
    'IntervalGrader({}, **keywords) and registered defaults that a constructor reads before they are applied '
    '(MatrixGrader entry_partial_credit, IntervalGrader subgrader) fail on the unchanged library: family pending_findings, skipped',
]


def guarded(check):
    """a failure to construct a documented-valid component of the configuration is a violation, not a harness error"""
    def wrapper(self, case):
        try:
            return check(self, case)
        except T.ComponentFailure as f:
            return Result('component-fails', True,
                          viol('component-construction-fails:%s' % type(f.exc).__name__,
                               'the documented-valid component %s could not be constructed: %s: %s'
                               % (f.label, type(f.exc).__name__, str(f.exc)[:200]), 'constructs', type(f.exc).__name__))
    wrapper.__name__ = check.__name__
    return wrapper


def excs():
    from mitxgraders.exceptions import ConfigError
    from voluptuous import Error
    return ConfigError, Error


def construct(cls, cfg, form, kwargs=None):
    """-> ('ok', obj) | ('reject', exc) | ('wrong', exc)"""
    ConfigError, VError = excs()
    try:
        if form == 'kwargs':
            obj = cls(**cfg)
        elif form == 'dict':
            obj = cls(cfg)
        elif form == 'positional':
            obj = cls(cfg)
        elif form == 'both':
            obj = cls(cfg, **kwargs)
        else:
            raise HarnessError('unknown form %r' % form)
        return ('ok', obj)
    except HarnessError:
        raise
    except (ConfigError, VError) as e:
        return ('reject', e)
    except Exception as e:      # noqa: the harness wants to see everything that escapes
        return ('wrong', e)


def lib_eq(a, b):
    """the library's own equality, falling back to structural equality when == itself fails (numpy arrays)"""
    try:
        r = (a == b)
        if isinstance(r, bool):
            return r
    except Exception:       # noqa
        pass
    return M.deep_eq(a, b)


def ename(e):
    return type(e).__name__


def check_stored(spec, cfg, name, stored, expect, supplied=None):
    """None or a description of the mismatch"""
    if expect == FREE:
        return None
    if expect == SAME:
        expect = supplied
    if spec.adjust is not None:
        expect = spec.adjust(cfg, name, expect)
    if isinstance(expect, Check):
        try:
            ok = expect.fn(stored, cfg)
        except Exception as e:      # noqa
            ok = False
        return None if ok else 'expected %s, stored %s' % (expect.text, M.short(stored))
    return M.first_diff(stored, expect, "config[%r]" % name)


def containers(x, acc=None, depth=0):
    """{id: object} of every list / dictionary reachable through lists, tuples and dictionaries (not through library objects)"""
    acc = {} if acc is None else acc
    if depth > 12:
        return acc
    if isinstance(x, (list, dict)):
        if id(x) in acc:
            return acc
        acc[id(x)] = x
    if isinstance(x, dict):
        for v in x.values():
            containers(v, acc, depth + 1)
    elif isinstance(x, (list, tuple)):
        for v in x:
            containers(v, acc, depth + 1)
    return acc


def judge(spec, chosen, detail=False, author=False):
    """
    chosen: list of (option name, V).  Builds the configuration from the spec's minimal valid one,
    runs the real constructor in both forms and compares with the table/model.

    author=True additionally treats the configuration as the AUTHOR'S OWN objects (graders.md: "Passing the
    configuration as a dictionary can be useful if you are using the same configuration for multiple problems"):
    a construction (accepted or rejected, either form) must leave them as they were, the object's configuration must
    not share a list or dictionary with them, and a second construction from the very same dictionary gives an equal object.
    """
    def build():
        cfg = spec.base_cfg()
        for name, v in chosen:
            if v.value is OMIT:
                cfg.pop(name, None)
            else:
                cfg[name] = v.make()
        return cfg

    cname = spec.name
    outs = [(n, v) for n, v in chosen if not v.dom]
    calls = 0
    if outs:
        expected = 'reject'
        why = 'out-of-domain value for %s' % ', '.join(n for n, _ in outs)
        rule = None
    else:
        rule = spec.rules(build())
        if rule is None:
            expected, why = 'accept', 'every value in its documented domain, no cross-option rule violated'
        elif rule == M.OPEN:
            expected, why = 'open', 'not decided by the documentation'
        else:
            expected, why = 'reject', 'cross-option rule: %s' % rule

    res = {}
    handed = {}
    for form in ('kwargs', 'dict'):
        handed[form] = build()
        before = M.stable(handed[form]) if author else None
        res[form] = construct(spec.cls, handed[form], form)
        calls += 1
        if author and res[form][0] != 'wrong':
            after = M.stable(handed[form])
            if after != before:
                return Result('author-config-changed', True,
                              viol('author-config-changed:%s' % cname,
                                   '%s(%s form) changed the configuration objects it was given (%s)'
                                   % (cname, form, 'accepted' if res[form][0] == 'ok' else 'rejected'),
                                   before[:400], after[:400]), calls)

    def site():
        """(site, value class) blamed for a wrong exception: prefer values without an ordering (complex, ...)"""
        if outs:
            pref = [(n, v) for n, v in outs if v.vclass in ('complex', 'unordered')] or outs
            n, v = pref[0]
            o = spec.by_name.get(n)
            s = o.kind if (o is not None and o.kind != 'plain') else '%s.%s' % (cname, n)
            return s, v.vclass
        return cname, 'in-domain'

    # -- an exception that is neither a ConfigError nor a voluptuous Error
    for form in ('kwargs', 'dict'):
        if res[form][0] == 'wrong':
            e = res[form][1]
            s, vc = site()
            return Result('raises:' + ename(e), True,
                          viol('wrong-error:%s:%s:%s' % (ename(e), s, vc),
                               '%s(%s form) raised %s instead of a ConfigError / voluptuous Error: %s'
                               % (cname, form, ename(e), str(e)[:200]),
                               'accepted' if expected == 'accept' else 'ConfigError or voluptuous Error',
                               ename(e)), calls)

    st = (res['kwargs'][0], res['dict'][0])
    if st[0] != st[1]:
        return Result('forms-differ', True,
                      viol('kwargs-dict-verdict-differs:%s' % cname,
                           'keyword form is %sed but dictionary form is %sed' % (st[0] == 'ok' and 'accept' or 'reject',
                                                                                st[1] == 'ok' and 'accept' or 'reject'),
                           'same verdict', list(st)), calls)
    accepted = st[0] == 'ok'
    if expected == 'reject':
        if accepted:
            if outs:
                n, v = outs[0]
                sig = 'accepted-out-of-domain:%s.%s:%s' % (cname, n, v.vclass)
            else:
                sig = 'rule-not-enforced:%s:%s' % (cname, rule)
            return Result('ACCEPTED', True, viol(sig, '%s constructed although %s' % (cname, why),
                                                 'ConfigError or voluptuous Error',
                                                 M.short(res['kwargs'][1].config, 300)), calls)
        tag = ('rule=' + rule) if rule else ('out=' + outs[0][1].vclass)
        return Result('reject:%s:%s' % (ename(res['kwargs'][1]), tag), True, None, calls)
    if expected == 'accept' and not accepted:
        e = res['kwargs'][1]
        names = '+'.join(n for n, _ in chosen) or 'base'
        sig = 'rejected-in-domain:%s.%s' % (cname, names if len(chosen) <= 1 else 'combination')
        return Result('REJECTED', True, viol(sig, '%s raised %s although %s: %s' % (cname, ename(e), why, str(e)[:300]),
                                             'constructs', ename(e)), calls)
    if not accepted:
        return Result('open-reject:' + ename(res['kwargs'][1]), True, None, calls)

    # -- accepted: inspect the objects
    okw, odi = res['kwargs'][1], res['dict'][1]
    cfg = build()
    conf = getattr(okw, 'config', None)
    if not isinstance(conf, dict):
        return Result('no-config', True, viol('no-config-dict:%s' % cname, 'object has no configuration dictionary',
                                              'dict', M.short(conf)), calls)
    if not lib_eq(okw, odi) or not M.deep_eq(okw.config, odi.config):
        return Result('forms-unequal', True,
                      viol('kwargs-dict-differ:%s' % cname, 'keyword and dictionary forms give different objects: %s'
                           % M.first_diff(okw.config, odi.config), 'equal', None), calls)
    # supplied options
    for name, v in chosen:
        if v.value is OMIT:
            continue
        if name not in conf:
            return Result('missing', True, viol('missing-option:%s.%s' % (cname, name),
                                                'supplied option missing from obj.config', name, sorted(conf)), calls)
        if v.expect == ANSWERS:
            try:
                want = spec.answers_model(cfg).canonical(cfg[name])
            except M.ModelReject as e:
                raise HarnessError('table says %s.%s=%s is in-domain but the answers model rejects it: %s'
                                   % (cname, name, v.label, e))
            bad = M.first_diff(conf[name], want, "config['answers']")
            if bad:
                return Result('answers-form', True,
                              viol('answers-not-canonical:%s' % cname,
                                   'answers are not stored in the documented canonical form: %s' % bad,
                                   M.short(want, 400), M.short(conf[name], 400)), calls)
            continue
        bad = check_stored(spec, cfg, name, conf[name], v.expect, cfg[name])
        if bad:
            return Result('stored', True, viol('stored-value:%s.%s' % (cname, name),
                                               'supplied %s=%s but %s' % (name, v.label, bad),
                                               None, M.short(conf[name], 300)), calls)
    # omitted options: present, with the documented default
    for o in spec.opts:
        if o.name in cfg:
            continue
        if o.name not in conf:
            if o.present:
                return Result('missing', True, viol('missing-option:%s.%s' % (cname, o.name),
                                                    'documented option absent from obj.config', o.name, sorted(conf)),
                              calls)
            continue
        if o.default in (NODEF, REQUIRED) and not isinstance(o.default_cfg, Check):
            continue
        exp = o.default_cfg
        bad = check_stored(spec, cfg, o.name, conf[o.name], exp, T.fresh(o.default) if exp == SAME else None)
        if bad:
            return Result('default', True, viol('default:%s.%s' % (cname, o.name),
                                                'omitted option does not carry its documented default: %s' % bad,
                                                T.label_of(o.default), M.short(conf[o.name], 300)), calls)
    # answers always in canonical outer form
    if 'answers' in conf and spec.kind == 'grader' and spec.answers_model is not None:
        a = conf['answers']
        if not isinstance(a, tuple):
            return Result('answers-form', True, viol('answers-not-a-tuple:%s' % cname, 'config answers is not a tuple',
                                                     'tuple', M.short(a)), calls)
    if author:
        for form, obj in (('dict', odi), ('kwargs', okw)):
            mine = containers(handed[form])
            shared = [o for i, o in containers(obj.config).items() if i in mine]
            if shared:
                return Result('config-aliases-author-object', True,
                              viol('config-aliases-author-object:%s' % cname,
                                   '%s(%s form).config holds the very list/dictionary object the author passed in: %s'
                                   % (cname, form, M.short(shared[0], 200)), 'a copy', M.short(shared[0], 200)), calls)
        # the same dictionary used for a second problem
        r = construct(spec.cls, handed['dict'], 'dict')
        calls += 1
        if r[0] != 'ok' or not lib_eq(r[1], odi) or not M.deep_eq(r[1].config, odi.config):
            return Result('second-use-differs', True,
                          viol('config-dict-second-use:%s' % cname,
                               'the same configuration dictionary handed to %s a second time gave %s'
                               % (cname, ename(r[1]) if r[0] != 'ok' else 'a different object: %s'
                                  % M.first_diff(r[1].config, odi.config)), 'an equal object', r[0]), calls)
    # re-construction
    if spec.reconstruct:
        r = construct(spec.cls, dict(conf), 'dict')
        calls += 1
        if r[0] != 'ok':
            tag = (spec.cause(cfg) if spec.cause else None) or '%s:%s' % (cname, ename(r[1]))
            return Result('reconstruct-raises', True,
                          viol('reconstruct-raises:%s' % tag,
                               '%s(obj.config) raised %s: %s' % (cname, ename(r[1]), str(r[1])[:300]),
                               'an equal grader', ename(r[1])), calls)
        if not lib_eq(r[1], okw) or not M.deep_eq(r[1].config, conf):
            return Result('reconstruct-differs', True,
                          viol('reconstruct-differs:%s' % cname, '%s(obj.config) != obj: %s'
                               % (cname, M.first_diff(r[1].config, conf)), 'equal', None), calls)
        # an equal grader also knows the same constants and permits the same functions
        for attr in ('constants', 'permitted_functions'):
            if hasattr(okw, attr) and set(getattr(okw, attr)) != set(getattr(r[1], attr, ())):
                tag = (spec.cause(cfg) if spec.cause else None) or cname
                diff = sorted(set(getattr(okw, attr)) ^ set(getattr(r[1], attr, ())))
                return Result('reconstruct-differs', True,
                              viol('reconstruct-differs:%s' % tag,
                                   '%s(obj.config) == obj but its %s differ by %s' % (cname, attr, diff),
                                   sorted(getattr(okw, attr))[:12], diff), calls)
    out = 'accept' if expected == 'accept' else 'open-accept'
    if detail == 'answers' and isinstance(conf.get('answers'), tuple):
        a = conf['answers']
        oks = sorted(set(str(x['ok']) for x in a if isinstance(x, dict) and 'ok' in x))
        out += ':%d-answers:ok=%s' % (len(a), '/'.join(oks) or '-')
    elif detail == 'options':
        out += ':%d-options' % len(conf)
    return Result(out, True, None, calls)


# ----------------------------------------------------------------------------- families over the tables

class TableFamily(Family):
    timeout = 20.0
    specs_used = None       # None = all

    def setup(self, tier):
        self.specs = T.specs()

    def spec_names(self):
        return self.specs_used or T.SPEC_NAMES

    def lookup(self, sname, oname, label):
        spec = T.specs()[sname]
        opt = spec.by_name[oname]
        return spec, opt, opt.by_label[label]

    def describe(self, case):
        return {'class': case[0], 'options': [{'option': case[i], 'value': case[i + 1]} for i in range(1, len(case) - 1, 2)]}


class BaseConfig(TableFamily):
    name = 'minimal_config'
    rule = ('the minimal valid configuration of each of the 32 public classes (only required options): constructs, every '
            'documented option present with its documented default, keyword form == dictionary form, Cls(obj.config) == obj')

    def cases(self, tier):
        for s in T.SPEC_NAMES:
            yield [s]

    def describe(self, case):
        return {'class': case[0], 'config': {k: T.label_of(v) for k, v in T.specs()[case[0]].base.items()}}

    @guarded
    def check(self, case):
        return judge(T.specs()[case[0]], [], detail='options', author=True)


class SingleOption(TableFamily):
    name = 'single_option'
    rule = ('every (class, option, value) with the value from the option\'s in-domain or out-of-domain pool (wrong type, '
            'out of range, wrong length, wrong container, bad literal, complex, None, required option omitted), all other '
            'options at the minimal configuration')

    def cases(self, tier):
        sp = T.specs()
        for s in T.SPEC_NAMES:
            for o in sp[s].opts:
                for v in o.values():
                    yield [s, o.name, v.label]

    @guarded
    def check(self, case):
        spec, opt, v = self.lookup(*case)
        return judge(spec, [(opt.name, v)], author=True)


class DocumentedDefault(TableFamily):
    name = 'documented_default'
    rule = ('for every option with a documented default: supplying the documented default explicitly gives an object '
            'equal to the one with the option omitted')

    def cases(self, tier):
        sp = T.specs()
        for s in T.SPEC_NAMES:
            for o in sp[s].opts:
                if o.default not in (NODEF, REQUIRED) and o.name not in sp[s].base:
                    yield [s, o.name]

    def describe(self, case):
        o = T.specs()[case[0]].by_name[case[1]]
        return {'class': case[0], 'option': case[1], 'documented default': T.label_of(o.default)}

    @guarded
    def check(self, case):
        spec = T.specs()[case[0]]
        o = spec.by_name[case[1]]
        a = construct(spec.cls, spec.base_cfg(), 'kwargs')
        cfg = spec.base_cfg()
        cfg[o.name] = T.fresh(o.default)
        b = construct(spec.cls, cfg, 'kwargs')
        if a[0] != 'ok':
            return Result('base-fails', True, viol('rejected-in-domain:%s.base' % spec.name,
                                                   'minimal configuration rejected: %s' % a[1]), 2)
        if b[0] != 'ok':
            return Result('default-rejected', True,
                          viol('documented-default-rejected:%s.%s' % (spec.name, o.name),
                               'the documented default %s is not accepted as a value: %s: %s'
                               % (T.label_of(o.default), ename(b[1]), str(b[1])[:200]), 'constructs', ename(b[1])), 2)
        if not lib_eq(a[1], b[1]) or not M.deep_eq(a[1].config, b[1].config):
            return Result('default-differs', True,
                          viol('default:%s.%s' % (spec.name, o.name),
                               'omitting the option is not the same as supplying its documented default %s: %s'
                               % (T.label_of(o.default), M.first_diff(a[1].config, b[1].config)),
                               T.label_of(o.default), M.short(a[1].config.get(o.name))), 2)
        return Result('same:' + type(a[1].config.get(o.name)).__name__, True, None, 2)


UNKNOWN_KEYS = ['foo', 'answer', 'Debug', 'config_', '', 5]


class UnknownKey(TableFamily):
    name = 'unknown_key'
    rule = ('every class x unknown option name (a new name, a near miss, a capitalised variant, the empty string, a '
            'non-string key [dictionary form only]) added to the minimal configuration: must be rejected')

    def cases(self, tier):
        for s in T.SPEC_NAMES:
            for i in range(len(UNKNOWN_KEYS)):
                yield [s, i]
            yield [s, 'first-option-capitalised']

    def describe(self, case):
        return {'class': case[0], 'unknown key': self.key(case)}

    def key(self, case):
        spec = T.specs()[case[0]]
        if case[1] == 'first-option-capitalised':
            return spec.opts[0].name.upper() if spec.opts else 'OPTION'
        return UNKNOWN_KEYS[case[1]]

    @guarded
    def check(self, case):
        spec = T.specs()[case[0]]
        key = self.key(case)
        calls = 0
        forms = ['dict'] + (['kwargs'] if isinstance(key, str) else [])
        for form in forms:
            cfg = spec.base_cfg()
            cfg[key] = 1
            r = construct(spec.cls, cfg, form)
            calls += 1
            if r[0] == 'ok':
                return Result('ACCEPTED', True, viol('unknown-key-accepted:%s' % spec.name,
                                                     '%s accepted the unknown option %r (%s form)' % (spec.name, key, form),
                                                     'ConfigError or voluptuous Error', M.short(r[1].config, 300)), calls)
            if r[0] == 'wrong':
                return Result('raises:' + ename(r[1]), True,
                              viol('wrong-error:%s:%s:unknown-key' % (ename(r[1]), spec.name),
                                   'unknown option %r raised %s: %s' % (key, ename(r[1]), str(r[1])[:200])), calls)
        named = 'names-the-key' if repr(key) in str(r[1]) else 'generic-message'
        return Result('reject:%s:%s' % (ename(r[1]), named), True, None, calls)


class OptionPairs(TableFamily):
    name = 'option_pairs'
    tiers = ('thorough',)
    rule = ('every class x every unordered pair of documented options x every pair of values from the full in/out pools; '
            'verdict from the table (both in domain) and the cross-option rule model')
    timeout = 30.0

    def cases(self, tier):
        if tier != 'thorough':
            return
        sp = T.specs()
        for s in T.SPEC_NAMES:
            opts = sp[s].opts
            for a, b in itertools.combinations(range(len(opts)), 2):
                for va in opts[a].values():
                    for vb in opts[b].values():
                        yield [s, opts[a].name, va.label, opts[b].name, vb.label]

    @guarded
    def check(self, case):
        spec, oa, va = self.lookup(case[0], case[1], case[2])
        _, ob, vb = self.lookup(case[0], case[3], case[4])
        return judge(spec, [(oa.name, va), (ob.name, vb)])


# ----------------------------------------------------------------------------- grids for the cross-option rules

class Grid(Family):
    """full product of small per-option pools for one class; verdict from the cross-option rule model"""
    timeout = 20.0

    def __init__(self, name, specname, dims_fn, rule, tiers=('quick', 'thorough'), author=None):
        self.name = name
        # the author's-own-objects assertions (see judge) run on the grids that are about structured values
        self.author = (name.startswith('answers_') or name in ('interval_rules', 'singlelist_answers_rules')) \
            if author is None else author
        self.specname = specname
        self.dims_fn = dims_fn
        self.rule = rule
        self.tiers = tiers
        self._dims = None

    def setup(self, tier):
        self.tier = tier

    def dims(self):
        if self._dims is None:
            self._dims = self.dims_fn()
            self._index = [{v.label: v for v in vals} for _, vals in self._dims]
            for (n, vals), ix in zip(self._dims, self._index):
                if len(ix) != len(vals):
                    raise HarnessError('duplicate labels in grid %s dimension %s' % (self.name, n))
        return self._dims

    def cases(self, tier):
        if tier not in self.tiers:
            return
        dims = self.dims()
        for combo in itertools.product(*[[v.label for v in vals] for _, vals in dims]):
            yield list(combo)

    def describe(self, case):
        return {'class': self.specname, 'config': {n: lab for (n, _), lab in zip(self.dims(), case)}}

    @guarded
    def check(self, case):
        dims = self.dims()
        chosen = [(n, self._index[i][lab]) for i, ((n, _), lab) in enumerate(zip(dims, case))]
        return judge(T.specs()[self.specname], chosen, detail='answers' if self.name.startswith('answers_') else False,
                     author=self.author or getattr(self, 'tier', 'quick') == 'thorough')


def vals(*values, **kw):
    expect = kw.get('expect', FREE)
    return [V(x, True, expect) for x in values]


def math_dims(cls, numerical=False):
    def fn():
        d = [
            ('whitelist', vals([], ['sin'], [None], ['nofunc'], expect=SAME)),
            ('blacklist', vals([], ['cos'], ['nofunc'], ['det'], expect=SAME)),
            ('user_constants', vals({}, {'c': 2}, {'e': 2}, {'pi': None})),
            ('user_functions', [V({}, True, SAME), V({'f': T.f1}, True, SAME, label="{'f': f1}"),
                                V({'sin': T.f1}, True, SAME, label="{'sin': f1}"),
                                # a default function of the matrix table only: an override there, a new name elsewhere
                                V({'det': T.f1}, True, SAME, label="{'det': f1}")]),
            ('suppress_warnings', vals(False, True, expect=SAME)),
        ]
        if not numerical:
            d += [('variables', vals([], ['x'], ['pi'], ['x', 'c'], ['infty'], expect=SAME)),
                  ('numbered_vars', vals([], ['e'], expect=SAME))]
        if cls == 'FormulaGrader+allow_inf':
            d.append(('allow_inf', vals(True, expect=SAME)))
        return d
    return fn


def allow_inf_dims():
    return [('variables', vals([], ['x'], ['infty'], expect=SAME)), ('numbered_vars', vals([], ['infty'], expect=SAME)),
            ('user_constants', vals({}, {'infty': 5}, {'infty': None})),
            ('allow_inf', vals(False, True, expect=SAME)), ('suppress_warnings', vals(False, True, expect=SAME))]


MATH_RULE = ('full product of whitelist x blacklist x user_constants x user_functions x suppress_warnings x variables x '
             'numbered_vars (x allow_inf): whitelist+blacklist, unknown function names, overriding default '
             'constants/functions with and without suppress_warnings, removing a default constant with None, '
             'variable/constant collisions')


def listgrader_dims():
    import mitxgraders as m
    sg = m.StringGrader
    subs = [
        V(T.SG, True, FREE),
        V(L(lambda: [sg(), sg()], '[SG, SG]'), True, FREE),
        V(L(lambda: [sg(), sg(), sg()], '[SG, SG, SG]'), True, FREE),
        V(L(lambda: m.ListGrader(subgraders=[sg(), sg()], ordered=True), 'LG([SG, SG], ordered)'), True, FREE),
        V(L(lambda: m.ListGrader(subgraders=sg()), 'LG(SG)'), True, FREE),
        V(L(lambda: [m.ListGrader(subgraders=sg()), sg()], '[LG(SG), SG]'), True, FREE),
        V(L(lambda: [sg(), m.ListGrader(subgraders=sg())], '[SG, LG(SG)]'), True, FREE),
        V(T.SLG_comma, True, FREE),
        # single-box list graders are not ListGraders: they cannot take a group of several inputs
        V(L(lambda: [m.SingleListGrader(subgrader=sg()), sg()], '[SLG(SG), SG]'), True, FREE),
        V(L(lambda: [sg(), m.SingleListGrader(subgrader=sg())], '[SG, SLG(SG)]'), True, FREE),
        V(L(lambda: [m.IntervalGrader(), sg()], '[IntervalGrader, SG]'), True, FREE),
        # an author's own class built on ListGrader is a ListGrader (both places where the grouping rules ask)
        V(L(lambda: T.AuthorListGrader(subgraders=sg()), 'AuthorLG(SG)'), True, FREE),
        V(L(lambda: [T.AuthorListGrader(subgraders=sg()), sg()], '[AuthorLG(SG), SG]'), True, FREE),
    ]
    answers = [V(a, True, ANSWERS) for a in (
        [], ['a', 'b'], ['a', 'b', 'c'], (['a', 'b'], ['c', 'd']), (['a', 'b'], ['c']),
        [['a', 'b'], ['c', 'd']], [['a', 'b'], 'c'], ['a', ['b', 'c']], [['a', 'b'], ['c', 'd'], ['e', 'f']],
        [['a', 'b', 'c'], 'd'])]
    grouping = vals([], [1, 1], [1, 2], [1, 1, 2], [1, 1, 2, 2], [1, 2, 1, 2], [1, 3], [2, 2], [1, 1, 1, 2],
                    [1, 1, 2, 2, 3, 3], [2, 1], expect=SAME)
    return [('subgraders', subs), ('answers', answers), ('ordered', vals(False, True, expect=SAME)), ('grouping', grouping)]


def delimiter_dims():
    import mitxgraders as m
    ds = [',', ';', '|']
    subs = [V(T.SG, True, FREE)]
    for d2 in ds:
        subs.append(V(L(lambda d2=d2: m.SingleListGrader(subgrader=m.StringGrader(), delimiter=d2), 'SLG(%r)' % d2),
                      True, FREE))
    for d2 in ds:
        for d3 in ds:
            if d2 != d3:
                subs.append(V(L(lambda d2=d2, d3=d3: m.SingleListGrader(
                    subgrader=m.SingleListGrader(subgrader=m.StringGrader(), delimiter=d3), delimiter=d2),
                    'SLG(%r, SLG(%r))' % (d2, d3)), True, FREE))
    # an IntervalGrader is a SingleListGrader too (its entries are separated by its own delimiter)
    for d2 in ds:
        subs.append(V(L(lambda d2=d2: m.IntervalGrader(delimiter=d2), 'IntervalGrader(%r)' % d2), True, FREE))
    for d2 in ds:
        for d3 in ds:
            if d2 != d3:
                subs.append(V(L(lambda d2=d2, d3=d3: m.SingleListGrader(subgrader=m.IntervalGrader(delimiter=d3), delimiter=d2),
                                'SLG(%r, IntervalGrader(%r))' % (d2, d3)), True, FREE))
    # ... and so is an author's own class built on SingleListGrader, at either depth
    for d2 in ds:
        subs.append(V(L(lambda d2=d2: T.AuthorSingleListGrader(subgrader=m.StringGrader(), delimiter=d2),
                        'AuthorSLG(%r)' % d2), True, FREE))
    for d2 in ds:
        for d3 in ds:
            if d2 != d3:
                subs.append(V(L(lambda d2=d2, d3=d3: m.SingleListGrader(
                    subgrader=T.AuthorSingleListGrader(subgrader=m.StringGrader(), delimiter=d3), delimiter=d2),
                    'SLG(%r, AuthorSLG(%r))' % (d2, d3)), True, FREE))
    return [('delimiter', vals(*ds, expect=SAME)), ('subgrader', subs)]


def singlelist_answer_dims():
    answers = [V(a, True, ANSWERS) for a in (
        ['a', 'b'], ['a', ''], 'a,,b', ['a', ' '], (['a', 'b'], ['c']), (['a', 'b'], ['c', 'd']), 'a, b',
        [('a', ''), 'b'], {'expect': (['a', 'b'], ['c'])}, [{'expect': ' ', 'msg': 'm'}, 'b'], 'a,b,', ',')]
    return [('answers', answers), ('missing_error', vals(True, False, expect=SAME)),
            ('length_error', vals(False, True, expect=SAME)),
            ('subgrader', [V(T.SG, True, FREE), V(T.FG, True, FREE)])]


def interval_dims():
    answers = [V(a, True, ANSWERS) for a in (
        '[1,2]', '(1,2)', '<1,2>', '[1:2]', ['[', '1', '2', ')'], ['{', '1', '2', '}'], '[1,2', '[1,2,3]', '[1,]',
        ['[', '1', '2'], ['[(', '1', '2', ']'], ' [1, 2] ', '[1]', [('[', '('), '1', '2', (']', '}')],
        ['[', '1', '2', ']', ']'], '(1,2(', ')1,2)', ['[', '1', '2', '['], [']', '1', '2', ']'])]
    return [('answers', answers), ('opening_brackets', vals('[(', '<', '[({', expect=SAME)),
            ('closing_brackets', vals('])', '>', '])}', expect=SAME)), ('delimiter', vals(',', ':', expect=SAME))]


def positions_dims(body, var):
    def fn():
        keys = ['lower', 'upper', body, var]
        choices = ['-', None, 1, 2, 3, 4]
        out = []
        for combo in itertools.product(choices, repeat=4):
            d = {k: c for k, c in zip(keys, combo) if c != '-'}
            want = {k: (None if c == '-' else c) for k, c in zip(keys, combo)}
            out.append(V(d, True, want, label=','.join('%s' % ('N' if c is None else c) for c in combo)))
        return [('input_positions', out)]
    return fn


def square_dims():
    return [('symmetry', vals(*T.SYMMETRIES, expect=SAME)), ('complex', vals(False, True, expect=SAME)),
            ('traceless', vals(False, True, expect=SAME)), ('determinant', vals(None, 0, 1, expect=SAME)),
            ('dimension', vals(2, 3, 4, 5, expect=SAME))]


def specify_domain_dims():
    return [('input_shapes', vals([1], [3, 3], [1, 2, 3], ['square'])), ('min_length', vals(None, 1, 2, expect=SAME))]


# ----------------------------------------------------------------------------- answers formats

def atoms(kind):
    """documented single-answer forms of an ItemGrader of the given kind"""
    if kind == 'string':
        expects = ['a', ('a', 'b')]
        plain = ['a']
    elif kind == 'formula':
        cd = {'comparer': T.cmp3, 'comparer_params': ['x', '2']}
        expects = ['x', ('x', 'y'), cd, (cd, 'x')]
        plain = ['x', cd]
    elif kind == 'singlelist':
        expects = [['a', 'b'], 'a,b', (['a', 'b'], ['c', 'd']), [('a', 'b'), {'expect': 'c', 'msg': 'm'}], (['a', 'b'], 'c,d')]
        plain = [['a', 'b'], 'a,b', [('a', 'b'), {'expect': 'c', 'msg': 'm', 'grade_decimal': 0.5}]]
    elif kind == 'interval':
        expects = ['[1,2]', ['[', '1', '2', ')'], ('[1,2]', '(1,2)'),
                   [('[', {'expect': '(', 'grade_decimal': 0.5}), '1', {'expect': '2', 'msg': 'two'}, ']']]
        plain = ['[1,2)', ['(', '1', '2', ']']]
    out = []
    for p in plain:
        out.append(('plain', p))
    for e in expects:
        for gd in ('-', 0, 0.5, 1, 1.0):
            for ok in ('-', True, False, 'partial', 'computed'):
                for msg in ('-', 'hi'):
                    d = {'expect': e}
                    if gd != '-':
                        d['grade_decimal'] = gd
                    if ok != '-':
                        d['ok'] = ok
                    if msg != '-':
                        d['msg'] = msg
                    out.append(('dict', d))
    return out


def answers_dims(kind, extra=None):
    def fn():
        at = atoms(kind)
        vs = []
        for i, (tag, a) in enumerate(at):
            vs.append(V(a, True, ANSWERS, label='%d:%s' % (i, M.short(a, 60))))
        # tuples of answers: every plain/dict atom paired with two fixed partners, and a triple
        partners = [at[0][1], at[len(at) // 2][1]]
        n = len(vs)
        for i, (tag, a) in enumerate(at):
            if i % 7 == 0:
                for j, p in enumerate(partners):
                    vs.append(V((a, p), True, ANSWERS, label='%d:tuple%d:%s' % (n + 2 * i + j, j, M.short(a, 40))))
        vs.append(V((at[0][1],), True, ANSWERS, label='1-tuple'))
        vs.append(V((at[0][1], at[1][1], at[-1][1]), True, ANSWERS, label='3-tuple'))
        vs.append(V((), True, ANSWERS, label='empty-tuple'))
        return [('answers', vs)] + (extra() if extra else [])
    return fn


def listgrader_answer_dims():
    s_atoms = ['a', {'expect': 'a'}, ('a', 'b'), {'expect': ('a', 'b'), 'grade_decimal': 0.5, 'msg': 'm'},
               {'expect': 'a', 'ok': 'partial'}, ({'expect': 'a', 'grade_decimal': 0}, 'b')]
    vs = []
    for x in s_atoms:
        for y in s_atoms:
            vs.append(V([x, y], True, ANSWERS))
    vs.append(V(([s_atoms[0], s_atoms[1]], [s_atoms[2], s_atoms[3]]), True, ANSWERS))
    vs.append(V(([s_atoms[0], s_atoms[1]],), True, ANSWERS))
    vs.append(V([s_atoms[0], s_atoms[1], s_atoms[3]], True, ANSWERS))
    seen = set()
    out = []
    for v in vs:
        if v.label in seen:
            v.label = '%d:%s' % (len(out), v.label)
        seen.add(v.label)
        out.append(v)
    return [('answers', out)]


def listgrader_mixed_dims():
    import mitxgraders as m
    sg = m.StringGrader
    fg = lambda: m.FormulaGrader(variables=['x', 'y'])
    mg = lambda: m.MatrixGrader(variables=['x', 'y'], entry_partial_credit='proportional')
    subs = [
        V(L(lambda: [sg(), fg()], '[SG, FG]'), True, FREE),
        V(L(lambda: [fg(), sg()], '[FG, SG]'), True, FREE),
        V(L(lambda: [fg(), m.NumericalGrader()], '[FG, NG]'), True, FREE),
        V(L(lambda: [sg(), mg()], '[SG, MG(entry_partial_credit)]'), True, FREE),
        V(L(lambda: [m.SingleListGrader(subgrader=fg()), sg()], '[SLG(FG), SG]'), True, FREE),
        V(L(lambda: [sg(), m.IntervalGrader()], '[SG, IntervalGrader]'), True, FREE),
        V(L(fg, 'FG'), True, FREE),
        V(L(mg, 'MG(entry_partial_credit)'), True, FREE),
        V(L(lambda: m.SingleListGrader(subgrader=fg()), 'SLG(FG)'), True, FREE),
        V(L(lambda: m.IntervalGrader(), 'IntervalGrader'), True, FREE),
    ]
    cd = {'comparer': T.cmp3, 'comparer_params': ['x', 'y']}
    answers = [V(a, True, ANSWERS) for a in (
        ['cat', 'x+1'], ['x+1', 'cat'],
        [{'expect': 'cat', 'msg': 'm'}, ('x', {'expect': '2*x', 'grade_decimal': 0.5})],
        [('x', 'y'), {'expect': cd}], [cd, 'x'],
        [['a', 'b'], 'c'], ['c', '[1,2)'], ['[1,2]', '(3,4)'],
        (['cat', 'x'], ['dog', 'y']), (['cat', 'x'], ['dog', {'expect': 'y', 'grade_decimal': 0}]),
    )]
    return [('subgraders', subs), ('answers', answers), ('ordered', vals(True, False, expect=SAME))]


ANS_RULE = ('every documented answers format: a single expect value, a dictionary with every combination of '
            'grade_decimal in {-,0,0.5,1,1.0} x ok in {-,True,False,partial,computed} x msg in {-,hi} around every expect form '
            '(string, tuple-valued, comparer dictionary, list, delimiter string, 4-entry interval list), tuples of those; '
            'config answers must equal the canonical tuple-of-dictionaries form computed by the reference normaliser')


# ----------------------------------------------------------------------------- positional configurations

def positional_cases():
    import numpy as np
    import mitxgraders as m
    arr = L(lambda: m.MathArray([[1, 0], [0, 1]]), 'MathArray(identity)')
    ri = lambda a, b: Check(lambda s, c: s == {'start': a, 'stop': b}, "{'start': %r, 'stop': %r}" % (a, b))
    cases = []

    def add(cls, value, dom, expect=FREE, vclass=None, label=None, kind=None):
        v = V(value, dom, expect, vclass, label)
        cases.append((cls, v, kind))
    for cls in ('RealInterval', 'IntegerRange'):
        add(cls, [2, 4], True, ri(2, 4))
        add(cls, [-3, 0], True, ri(-3, 0))
        add(cls, {'start': 2, 'stop': 4}, True, ri(2, 4))
        add(cls, {'start': 2}, True, ri(2, 5))
        add(cls, [1], False, vclass='wrong-length')
        add(cls, [1, 2, 3], False, vclass='wrong-length')
        add(cls, (1, 2), False, vclass='wrong-container')
        add(cls, 5, False, vclass='wrong-container')
        add(cls, 'ab', False)
        add(cls, [1, 'a'], False, vclass='wrong-element-type')
        add(cls, [T.COMPLEX, 2], False, vclass='complex', kind='interval-endpoint')
    add('RealInterval', [0.5, 2.5], True, ri(0.5, 2.5))
    add('IntegerRange', [0.5, 2], False, vclass='float-for-int')
    tup = lambda *x: Check(lambda s, c: M.deep_eq(s, tuple(x)), repr(tuple(x)))
    add('DiscreteSet', 3.142, True, tup(3.142))
    add('DiscreteSet', 0, True, tup(0))
    add('DiscreteSet', (1, 3, 5, 7, 9), True, tup(1, 3, 5, 7, 9))
    add('DiscreteSet', (2,), True, tup(2))
    add('DiscreteSet', (1, 2.5, 1j), True, tup(1, 2.5, 1j))
    add('DiscreteSet', arr, True, Check(lambda s, c: isinstance(s, tuple) and len(s) == 1 and M.deep_eq(s[0], arr()), '(array,)'))
    add('DiscreteSet', L(lambda: (1, arr()), '(1, MathArray)'), True,
        Check(lambda s, c: isinstance(s, tuple) and len(s) == 2 and s[0] == 1 and M.deep_eq(s[1], arr()), '(1, array)'))
    add('DiscreteSet', 'abc', False)
    add('DiscreteSet', (), False, vclass='wrong-length')
    add('DiscreteSet', [1, 2], False, vclass='wrong-container')
    add('DiscreteSet', ('a',), False, vclass='wrong-element-type')
    add('DiscreteSet', (1, 'a'), False, vclass='wrong-element-type')
    add('DiscreteSet', {}, False, vclass='wrong-container')
    add('DiscreteSet', (1, None), False, vclass='none')
    lst = lambda *x: Check(lambda s, c: M.deep_eq(s, list(x)), repr(list(x)))
    add('SpecificFunctions', T.f1, True, lst(T.f1), label='f1')
    add('SpecificFunctions', [T.f1, T.f2], True, lst(T.f1, T.f2), label='[f1, f2]')
    add('SpecificFunctions', [np.cos, np.sin], True, lst(np.cos, np.sin), label='[np.cos, np.sin]')
    add('SpecificFunctions', np.tan, True, lst(np.tan), label='np.tan')
    add('SpecificFunctions', 5, False)
    add('SpecificFunctions', [], False, vclass='wrong-length')
    add('SpecificFunctions', [5], False, vclass='wrong-element-type')
    add('SpecificFunctions', 'sin', False)
    add('SpecificFunctions', [T.f1, 'sin'], False, vclass='wrong-element-type', label="[f1, 'sin']")
    add('SpecificFunctions', (T.f1, T.f2), False, vclass='wrong-container', label='(f1, f2)')
    return cases


class Positional(Family):
    name = 'positional_config'
    rule = ('non-dictionary configurations: RealInterval/IntegerRange from [start, stop], DiscreteSet from a value or a tuple, '
            'SpecificFunctions from a function or a list; in-domain and out-of-domain (wrong length, wrong container, '
            'wrong element type, complex)')
    timeout = 10.0

    def setup(self, tier):
        self.table = positional_cases()

    def cases(self, tier):
        for i, (cls, v, kind) in enumerate(positional_cases()):
            yield [i, cls, v.label]

    def describe(self, case):
        return {'class': case[1], 'config': case[2]}

    @guarded
    def check(self, case):
        import mitxgraders as m
        cls, v, kind = self.table[case[0]]
        if cls != case[1] or v.label != case[2]:
            raise HarnessError('positional table changed under the case %r' % (case,))
        r = construct(getattr(m, cls), v.make(), 'positional')
        if r[0] == 'wrong':
            return Result('raises:' + ename(r[1]), True,
                          viol('wrong-error:%s:%s:%s' % (ename(r[1]), kind or cls, v.vclass),
                               '%s(%s) raised %s: %s' % (cls, v.label, ename(r[1]), str(r[1])[:200]),
                               'accepted' if v.dom else 'ConfigError or voluptuous Error', ename(r[1])))
        if v.dom and r[0] != 'ok':
            return Result('REJECTED', True, viol('rejected-in-domain:%s.positional' % cls,
                                                 '%s(%s) rejected: %s' % (cls, v.label, str(r[1])[:200]), 'constructs',
                                                 ename(r[1])))
        if not v.dom:
            if r[0] == 'ok':
                return Result('ACCEPTED', True, viol('accepted-out-of-domain:%s.positional:%s' % (cls, v.vclass),
                                                     '%s(%s) accepted' % (cls, v.label), 'rejected',
                                                     M.short(r[1].config)))
            return Result('reject:' + ename(r[1]), True)
        if isinstance(v.expect, Check) and not v.expect.fn(r[1].config, None):
            return Result('stored', True, viol('stored-value:%s.positional' % cls,
                                               'config should be %s' % v.expect.text, v.expect.text, M.short(r[1].config)))
        # a second construction from the stored configuration is the same set
        r2 = construct(getattr(m, cls), r[1].config, 'positional')
        if r2[0] != 'ok' or not M.deep_eq(r2[1].config, r[1].config):
            return Result('reconstruct', True, viol('reconstruct-differs:%s' % cls, 're-construction from .config differs',
                                                    M.short(r[1].config), M.short(getattr(r2[1], 'config', r2[1]))), 2)
        return Result('accept', True, None, 2)


# ----------------------------------------------------------------------------- dictionary beats keywords

class DictBeatsKwargs(TableFamily):
    name = 'dict_and_kwargs'
    rule = ('graders.md: "if a configuration dictionary is supplied, any keyword arguments are ignored": for every class and '
            'option, Cls({option: in-domain value}, **kw) with kw = another in-domain value / an out-of-domain value / an '
            'unknown key must equal Cls({option: value}); the same with an EMPTY dictionary: Cls({}, option=value), '
            'Cls({}, option=out-of-domain value) and Cls({}, foo=1) must behave exactly like Cls({}) (same verdict, equal '
            'object, same default comparer)')

    # PENDING-FINDING: IntervalGrader.__init__ selects "config if config else kwargs": IntervalGrader({}, delimiter=';')
    # uses the keywords although a (falsy) configuration dictionary was supplied; every other class ignores them.
    # Remove the class from this set to enable the cases.
    PENDING_EMPTY_DICT = set()      # (IntervalGrader used to be excluded: genuine defect, repaired)

    def cases(self, tier):
        sp = T.specs()
        for s in T.SPEC_NAMES:
            for o in sp[s].opts:
                if not o.ins:
                    continue
                for mode in ('other-in', 'out', 'unknown'):
                    yield [s, o.name, mode]
        for s in T.SPEC_NAMES:
            if s in self.PENDING_EMPTY_DICT:        # PENDING-FINDING (see above)
                continue
            yield [s, '-', 'empty+unknown']
            for o in sp[s].opts:
                if o.ins:
                    yield [s, o.name, 'empty+in']
                if [v for v in o.outs if v.value is not OMIT]:
                    yield [s, o.name, 'empty+out']

    def describe(self, case):
        return {'class': case[0], 'option': case[1], 'keywords': case[2]}

    @guarded
    def check(self, case):
        spec = T.specs()[case[0]]
        mode = case[2]
        if mode.startswith('empty+'):
            return self.check_empty(spec, case[1], mode)
        o = spec.by_name[case[1]]
        vd = o.ins[-1]
        if mode == 'other-in':
            kw = {o.name: o.ins[0].make()}
        elif mode == 'out':
            outs = [v for v in o.outs if v.value is not OMIT]
            if not outs:
                return Result('n/a', False, None, 0)
            kw = {o.name: outs[0].make()}
        else:
            kw = {'foo': 1}

        def cfg():
            c = spec.base_cfg()
            c[o.name] = vd.make()
            return c
        if spec.rules(cfg()) is not None:
            return Result('n/a', False, None, 0)
        a = construct(spec.cls, cfg(), 'dict')
        b = construct(spec.cls, cfg(), 'both', kw)
        if a[0] != 'ok':
            return Result('n/a-rejected', False, None, 2)       # judged by single_option
        if b[0] != 'ok':
            return Result('kwargs-not-ignored', True,
                          viol('kwargs-not-ignored:%s' % spec.name,
                               'with a configuration dictionary, keyword %s changed the verdict: %s: %s'
                               % (sorted(kw), ename(b[1]), str(b[1])[:200]), 'keywords ignored', ename(b[1])), 2)
        if not lib_eq(a[1], b[1]) or not M.deep_eq(a[1].config, b[1].config):
            return Result('kwargs-not-ignored', True,
                          viol('kwargs-not-ignored:%s' % spec.name, 'keywords changed the configuration: %s'
                               % M.first_diff(b[1].config, a[1].config), 'keywords ignored', None), 2)
        return Result('ignored', True, None, 2)


    def check_empty(self, spec, oname, mode):
        if mode == 'empty+unknown':
            kw = {'foo': 1}
        else:
            o = spec.by_name[oname]
            if mode == 'empty+in':
                # a value that is not the documented default, so that a used keyword shows in the configuration
                dflt = T.fresh(o.default) if o.default not in (NODEF, REQUIRED) else None
                cand = [v for v in o.ins if not M.deep_eq(v.value, dflt)] or o.ins
                kw = {o.name: cand[-1].make()}
            else:
                kw = {o.name: [v for v in o.outs if v.value is not OMIT][0].make()}
        a = construct(spec.cls, {}, 'dict')
        b = construct(spec.cls, {}, 'both', kw)
        if 'wrong' in (a[0], b[0]):
            e = a[1] if a[0] == 'wrong' else b[1]
            return Result('raises:' + ename(e), True,
                          viol('wrong-error:%s:%s:empty-dict' % (ename(e), spec.name),
                               '%s({}%s) raised %s: %s' % (spec.name, '' if a[0] == 'wrong' else ', **%s' % sorted(kw),
                                                            ename(e), str(e)[:200])), 2)
        if a[0] != b[0]:
            return Result('kwargs-not-ignored', True,
                          viol('kwargs-not-ignored:%s:empty-dict' % spec.name,
                               '%s({}) is %sed but %s({}, **%s) is %sed: the keywords were not ignored'
                               % (spec.name, 'accept' if a[0] == 'ok' else 'reject', spec.name, M.short(kw, 80),
                                  'accept' if b[0] == 'ok' else 'reject'), a[0], b[0]), 2)
        if a[0] != 'ok':
            return Result('both-rejected:' + ename(b[1]), True, None, 2)
        if not lib_eq(a[1], b[1]) or not M.deep_eq(a[1].config, b[1].config):
            return Result('kwargs-not-ignored', True,
                          viol('kwargs-not-ignored:%s:empty-dict' % spec.name,
                               'with an empty configuration dictionary the keywords %s changed the configuration: %s'
                               % (M.short(kw, 80), M.first_diff(b[1].config, a[1].config)), 'keywords ignored', None), 2)
        ca, cb = getattr(a[1], 'default_comparer', None), getattr(b[1], 'default_comparer', None)
        if not M.deep_eq(ca, cb):
            return Result('kwargs-not-ignored', True,
                          viol('kwargs-not-ignored:%s:empty-dict:default-comparer' % spec.name,
                               'with an empty configuration dictionary the keywords %s changed the default comparer'
                               % M.short(kw, 80), M.short(ca), M.short(cb)), 2)
        return Result('ignored:empty-dict', True, None, 2)


# ----------------------------------------------------------------------------- registered defaults

GRADERS = ['StringGrader', 'FormulaGrader', 'NumericalGrader', 'MatrixGrader', 'SingleListGrader', 'ListGrader',
           'IntervalGrader', 'IntegralGrader', 'SumGrader']
COMMON = ['debug', 'suppress_warnings', 'attempt_based_credit_msg']


def plain_ins(o):
    return [v for v in o.ins if v.expect == SAME and not isinstance(v.value, T.Lazy) and not callable(v.value)]


class RegisteredDefaults(TableFamily):
    name = 'registered_defaults'
    rule = ('plugins.md: Cls.register_defaults({option: value}) makes value the default of that grading class: for every '
            'grader class and every plainly-valued option, (registered on the class | common options registered on '
            'AbstractGrader): omitted -> registered value, explicit -> explicit value, after clear_registered_defaults -> '
            'documented default; an out-of-domain registered default is rejected at construction')

    def cases(self, tier):
        sp = T.specs()
        for s in GRADERS:
            for o in sp[s].opts:
                if len(plain_ins(o)) < 2 or o.name in sp[s].base:
                    continue
                yield [s, o.name, 'self']
                if o.name in COMMON:
                    yield [s, o.name, 'AbstractGrader']

    def describe(self, case):
        return {'class': case[0], 'option': case[1], 'registered on': case[2]}

    @guarded
    def check(self, case):
        from mitxgraders.baseclasses import AbstractGrader
        spec = T.specs()[case[0]]
        o = spec.by_name[case[1]]
        ins = plain_ins(o)
        dflt = T.fresh(o.default) if o.default not in (NODEF, REQUIRED) else None
        reg = [v for v in ins if not M.deep_eq(v.value, dflt)][-1]
        other = [v for v in ins if v is not reg][0]
        target = spec.cls if case[2] == 'self' else AbstractGrader
        saved = target.default_values
        calls = 0
        outs = [v for v in o.outs if v.value is not OMIT]
        # configurations (which may contain subgraders) are built before any default is registered
        cfg_a, cfg_b, cfg_c, cfg_d = spec.base_cfg(), spec.base_cfg(), spec.base_cfg(), spec.base_cfg()
        cfg_b[o.name] = other.make()
        c = None
        try:
            target.default_values = None
            target.register_defaults({o.name: reg.make()})
            a = construct(spec.cls, cfg_a, 'kwargs')
            b = construct(spec.cls, cfg_b, 'dict')
            calls += 2
            if outs:
                target.default_values = None
                target.register_defaults({o.name: outs[0].make()})
                c = construct(spec.cls, cfg_c, 'kwargs')
                calls += 1
            target.clear_registered_defaults()
            d = construct(spec.cls, cfg_d, 'kwargs')
            calls += 1
        finally:
            target.default_values = saved
        who = '%s.register_defaults({%r: %s})' % (target.__name__, o.name, reg.label)
        for tag, r, want in (('omitted', a, reg), ('explicit', b, other)):
            if r[0] != 'ok':
                return Result('registered-rejected', True,
                              viol('registered-default:%s.%s:%s-raises' % (spec.name, o.name, tag),
                                   'after %s construction (%s) raised %s: %s' % (who, tag, ename(r[1]), str(r[1])[:200])), calls)
            bad = check_stored(spec, {}, o.name, r[1].config.get(o.name), want.expect, want.make())
            if bad:
                return Result('registered-ignored', True,
                              viol('registered-default:%s.%s:%s' % (spec.name, o.name, tag),
                                   'after %s, option %s: %s' % (who, tag, bad), want.label,
                                   M.short(r[1].config.get(o.name))), calls)
        if c is not None and c[0] != 'reject':
            return Result('registered-out-accepted', True,
                          viol('registered-default:%s.%s:out-of-domain-%s' % (spec.name, o.name,
                                                                               'accepted' if c[0] == 'ok' else 'wrong-error'),
                               'an out-of-domain registered default %s gave %s' % (outs[0].label, c[0]),
                               'ConfigError or voluptuous Error', c[0]), calls)
        if d[0] != 'ok':
            return Result('cleared-rejected', True, viol('registered-default:%s.%s:cleared-raises' % (spec.name, o.name),
                                                         'after clear_registered_defaults construction raised %s' % d[1]), calls)
        if o.default not in (NODEF, REQUIRED):
            exp = o.default_cfg
            bad = check_stored(spec, spec.base_cfg(), o.name, d[1].config.get(o.name), exp,
                               T.fresh(o.default) if exp == SAME else None)
            if bad:
                return Result('cleared-differs', True,
                              viol('registered-default:%s.%s:not-cleared' % (spec.name, o.name),
                                   'after clear_registered_defaults the documented default is not restored: %s' % bad), calls)
        return Result('registered-on-%s:%s' % (case[2], type(a[1].config.get(o.name)).__name__), True, None, calls)


# ----------------------------------------------------------------------------- registered defaults along the class chain

# the grading classes of plugins/defaults_sample.py and their documented inheritance (most derived first)
CHAINS = {
    'StringGrader': ['StringGrader', 'ItemGrader', 'AbstractGrader'],
    'FormulaGrader': ['FormulaGrader', 'ItemGrader', 'AbstractGrader'],
    'NumericalGrader': ['NumericalGrader', 'FormulaGrader', 'ItemGrader', 'AbstractGrader'],
    'MatrixGrader': ['MatrixGrader', 'FormulaGrader', 'ItemGrader', 'AbstractGrader'],
    'SingleListGrader': ['SingleListGrader', 'ItemGrader', 'AbstractGrader'],
    'IntervalGrader': ['IntervalGrader', 'SingleListGrader', 'ItemGrader', 'AbstractGrader'],
    'ListGrader': ['ListGrader', 'AbstractGrader'],
    'IntegralGrader': ['IntegralGrader', 'AbstractGrader'],
    'SumGrader': ['SumGrader', 'AbstractGrader'],
}
ITEM_LEVEL = COMMON + ['wrong_msg']


def level_class(name):
    import mitxgraders as m
    from mitxgraders.baseclasses import AbstractGrader, ItemGrader
    return {'AbstractGrader': AbstractGrader, 'ItemGrader': ItemGrader}.get(name) or getattr(m, name)


def level_has(level, oname):
    """may the option be registered at this level (the level, or a class above it, defines the option)?"""
    if level == 'AbstractGrader':
        return oname in COMMON
    if level == 'ItemGrader':
        return oname in ITEM_LEVEL
    return oname in T.specs()[level].by_name


def chain_options(sname):
    """common options, wrong_msg, and the first three plainly-valued options of the class's own"""
    spec = T.specs()[sname]
    out, own = [], 0
    for o in spec.opts:
        if len(plain_ins(o)) < 2 or o.name in spec.base or o.default in (NODEF, REQUIRED):
            continue
        if o.name in ITEM_LEVEL:
            out.append(o.name)
        elif own < 3:
            out.append(o.name)
            own += 1
    return out


class RegisteredDefaultsChain(TableFamily):
    name = 'registered_defaults_chain'
    timeout = 30.0
    rule = ('plugins.md / plugins/defaults_sample.py: defaults registered on a class apply to that class and the classes '
            'built on it, "precedence is given to the registered defaults of higher level classes", "if register_defaults '
            'is called twice on the same class, the options stack on top of each other, overwriting earlier options". For '
            'every grader class x option (common, wrong_msg, 3 of its own) x every level of its class chain where the '
            'option may be registered (and every pair of levels): omitted -> value of the most derived registering level; '
            'explicit -> explicit (also as the FIRST construction after registering, and after a construction that raised); '
            'the registered dictionaries are not changed by constructions; classes outside the chain below the level and '
            'the classes above it keep the documented default; clearing one level uncovers the next; two calls stack')

    def cases(self, tier):
        isolated = set()
        for s in GRADERS:
            chain = CHAINS[s]
            for oname in chain_options(s):
                levels = [l for l in chain if level_has(l, oname)]
                for l in levels:
                    if l not in (s, 'AbstractGrader'):      # those two are the cases of registered_defaults
                        yield [s, oname, 'one-level', l, '-']
                    yield [s, oname, 'history', l, '-']
                    yield [s, oname, 'stack', l, '-']
                    if (l, oname) not in isolated:          # does not depend on the class the level was reached from
                        isolated.add((l, oname))
                        yield [s, oname, 'isolation', l, '-']
                for i, lo in enumerate(levels):
                    for hi in levels[i + 1:]:
                        yield [s, oname, 'two-levels', lo, hi]

    def describe(self, case):
        return {'class': case[0], 'option': case[1], 'scenario': case[2], 'registered on': case[3], 'and on': case[4]}

    def values(self, spec, o):
        """three distinct in-domain plain values if there are that many: (r1, r2, other), none the documented default if possible"""
        ins = plain_ins(o)
        dflt = T.fresh(o.default)
        non = [v for v in ins if not M.deep_eq(v.value, dflt)]
        pool = non + [v for v in ins if v not in non]
        r1 = pool[0]
        r2 = pool[1] if len(pool) > 1 else pool[0]
        other = [v for v in ins if v is not r1][-1]
        return r1, r2, other

    def stored_bad(self, spec, o, r, want, dflt=False):
        """None or text: the outcome r of a construction must be an object whose option o holds `want` (a V) / the documented default"""
        if r[0] != 'ok':
            return 'construction raised %s: %s' % (ename(r[1]), str(r[1])[:160])
        conf = r[1].config
        if dflt:
            exp = o.default_cfg
            return check_stored(spec, spec.base_cfg(), o.name, conf.get(o.name), exp,
                                T.fresh(o.default) if exp == SAME else None)
        return check_stored(spec, {}, o.name, conf.get(o.name), want.expect, want.make())

    @guarded
    def check(self, case):
        sname, oname, scen, lo, hi = case
        spec = T.specs()[sname]
        o = spec.by_name[oname]
        r1, r2, other = self.values(spec, o)
        chain = [level_class(l) for l in CHAINS[sname]]
        everyone = set(chain)
        for c in CHAINS.values():
            everyone.update(level_class(l) for l in c)
        saved = {c: c.default_values for c in everyone}
        calls = [0]

        def make(cls_spec=spec, **over):
            cfg = cls_spec.base_cfg()
            for k, v in over.items():
                cfg[k] = v.make()
            calls[0] += 1
            return construct(cls_spec.cls, cfg, 'kwargs' if calls[0] % 2 else 'dict')

        def fail(tag, text, expected=None, observed=None):
            return Result('FAIL:' + tag, True,
                          viol('registered-chain:%s:%s.%s' % (tag, sname, oname),
                               '%s [%s on %s%s]: %s' % (sname, scen, lo, '' if hi == '-' else ' and ' + hi, text),
                               expected, observed), calls[0])
        L_lo = level_class(lo)
        try:
            for c in everyone:
                c.default_values = None
            if scen == 'one-level':
                L_lo.register_defaults({oname: r1.make()})
                bad = self.stored_bad(spec, o, make(), r1)
                if bad:
                    return fail('omitted', 'omitted option should take the value registered on %s: %s' % (lo, bad), r1.label)
                bad = self.stored_bad(spec, o, make(**{oname: other}), other)
                if bad:
                    return fail('explicit', 'explicit value should win: %s' % bad, other.label)
                L_lo.clear_registered_defaults()
                bad = self.stored_bad(spec, o, make(), None, dflt=True)
                if bad:
                    return fail('cleared', 'after clear_registered_defaults: %s' % bad, T.label_of(o.default))
                return Result('inherited-from-%s' % ('ItemGrader' if lo == 'ItemGrader' else 'parent-class'), True, None, calls[0])

            if scen == 'history':
                reg = {oname: r1.make()}
                L_lo.register_defaults(reg)
                snap = M.stable(L_lo.default_values)
                outs = [v for v in o.outs if v.value is not OMIT]
                steps = [('explicit-first', {oname: other}, other), ('omitted-after-explicit', {}, r1)]
                if outs:
                    steps += [('out-of-domain', {oname: outs[0]}, 'reject'), ('omitted-after-raise', {}, r1)]
                steps += [('explicit-again', {oname: r2}, r2), ('omitted-last', {}, r1)]
                for tag, over, want in steps:
                    r = make(**over)
                    if want == 'reject':
                        if r[0] != 'reject':
                            return fail(tag, 'an out-of-domain explicit value gave %s' % r[0], 'reject', r[0])
                    else:
                        bad = self.stored_bad(spec, o, r, want)
                        if bad:
                            return fail(tag, bad, want.label)
                    if M.stable(L_lo.default_values) != snap or M.stable(reg) != snap:
                        return fail('registered-dictionary-changed',
                                    'after the step %s the dictionary registered on %s is %s' % (tag, lo, M.stable(L_lo.default_values)[:200]),
                                    snap[:200], M.stable(L_lo.default_values)[:200])
                return Result('history-independent', True, None, calls[0])

            if scen == 'stack':
                second = 'debug' if oname != 'debug' else 'attempt_based_credit_msg'
                so = spec.by_name[second]
                sv = [v for v in plain_ins(so) if not M.deep_eq(v.value, so.default)][0]
                first, then = {oname: r1.make()}, {second: sv.make()}
                snap = (M.stable(first), M.stable(then))
                L_lo.register_defaults(first)
                L_lo.register_defaults(then)
                if (M.stable(first), M.stable(then)) != snap:
                    return fail('author-dictionary-changed', 'register_defaults changed a dictionary it was given: %s, %s'
                                % (M.stable(first), M.stable(then)), snap[0])
                r = make()
                bad = self.stored_bad(spec, o, r, r1) or self.stored_bad(spec, so, r, sv)
                if bad:
                    return fail('stack', 'two register_defaults calls for two options should both apply: %s' % bad)
                L_lo.register_defaults({oname: r2.make()})
                r = make()
                bad = self.stored_bad(spec, o, r, r2) or self.stored_bad(spec, so, r, sv)
                if bad:
                    return fail('stack-overwrite', 'a later register_defaults call should overwrite the earlier value and '
                                                    'keep the other option: %s' % bad, r2.label)
                return Result('stacked', True, None, calls[0])

            if scen == 'isolation':
                L_lo.register_defaults({oname: r1.make()})
                # classes above the level, and graders that are not built on it, keep the documented default
                for other_name in GRADERS:
                    if lo in CHAINS[other_name]:
                        continue
                    ospec = T.specs()[other_name]
                    r = make(ospec)
                    if r[0] != 'ok':
                        return fail('leak', 'a default registered on %s made %s() raise %s: %s'
                                    % (lo, other_name, ename(r[1]), str(r[1])[:160]), 'unaffected', ename(r[1]))
                    oo = ospec.by_name.get(oname)
                    if oo is not None and oo.default not in (NODEF, REQUIRED) and oname not in ospec.base:
                        bad = self.stored_bad(ospec, oo, r, None, dflt=True)
                        if bad:
                            return fail('leak', 'a default registered on %s leaked into %s: %s' % (lo, other_name, bad),
                                        T.label_of(oo.default))
                for c in everyone:
                    if c is not L_lo and c.default_values is not None:
                        return fail('leak', 'registering on %s set default_values of %s' % (lo, c.__name__), None,
                                    M.short(c.default_values))
                return Result('isolated', True, None, calls[0])

            if scen == 'two-levels':
                L_hi = level_class(hi)
                # general level first / derived level first: the order of registration must not matter
                for order in ((L_hi, r2, L_lo, r1), (L_lo, r1, L_hi, r2)):
                    for c in everyone:
                        c.default_values = None
                    order[0].register_defaults({oname: order[1].make()})
                    order[2].register_defaults({oname: order[3].make()})
                    bad = self.stored_bad(spec, o, make(), r1)
                    if bad:
                        return fail('precedence', 'registered %s on %s and %s on %s: the more derived class should win: %s'
                                    % (r1.label, lo, r2.label, hi, bad), r1.label)
                    bad = self.stored_bad(spec, o, make(**{oname: other}), other)
                    if bad:
                        return fail('explicit', 'explicit value should win over both levels: %s' % bad, other.label)
                L_lo.clear_registered_defaults()
                bad = self.stored_bad(spec, o, make(), r2)
                if bad:
                    return fail('uncovered', 'after clearing %s the value registered on %s should apply: %s' % (lo, hi, bad), r2.label)
                L_hi.clear_registered_defaults()
                bad = self.stored_bad(spec, o, make(), None, dflt=True)
                if bad:
                    return fail('cleared', 'after clearing both levels: %s' % bad, T.label_of(o.default))
                return Result('derived-level-wins', True, None, calls[0])
            raise HarnessError('unknown scenario %r' % scen)
        finally:
            for c, v in saved.items():
                c.default_values = v


# ----------------------------------------------------------------------------- construction histories

def history_configs():
    f1 = T.f1
    integ = {'answers': {'lower': 'a', 'upper': 'b', 'integrand': 'x*t^2', 'integration_variable': 't'}}
    summ = {'answers': {'lower': 'a', 'upper': 'b', 'summand': 'x*t^2', 'summation_variable': 't'}}
    H = [
        ('FormulaGrader', 'variables=[x]', {'variables': ['x']}),
        ('FormulaGrader', 'allow_inf', {'variables': ['x'], 'allow_inf': True}),
        ('FormulaGrader', 'pi removed', {'user_constants': {'pi': None}}),
        ('FormulaGrader', 'variables=[pi]', {'variables': ['pi']}),
        ('FormulaGrader', 'pi removed, variables=[pi]', {'user_constants': {'pi': None}, 'variables': ['pi']}),
        ('FormulaGrader', 'variables=[infty]', {'variables': ['infty']}),
        ('FormulaGrader', 'variables=[infty], allow_inf', {'variables': ['infty'], 'allow_inf': True}),
        ('FormulaGrader', 'sin overridden, suppressed', {'user_functions': {'sin': f1}, 'suppress_warnings': True}),
        ('FormulaGrader', 'sin overridden', {'user_functions': {'sin': f1}}),
        ('FormulaGrader', 'user function f', {'user_functions': {'f': f1}}),
        ('FormulaGrader', 'user function det', {'user_functions': {'det': f1}}),
        ('FormulaGrader', 'blacklist=[f]', {'blacklist': ['f']}),
        ('FormulaGrader', 'blacklist=[det]', {'blacklist': ['det']}),
        ('FormulaGrader', 'whitelist=[sin]', {'whitelist': ['sin'], 'user_functions': {'f': f1}}),
        ('FormulaGrader', 'whitelist=[None]', {'whitelist': [None]}),
        ('FormulaGrader', 'constant c', {'user_constants': {'c': 2}}),
        ('FormulaGrader', 'variables=[c]', {'variables': ['c']}),
        ('FormulaGrader', 'e overridden, suppressed', {'user_constants': {'e': 2}, 'suppress_warnings': True}),
        ('FormulaGrader', 'metric_suffixes', {'metric_suffixes': True}),
        ('NumericalGrader', 'plain', {}),
        ('NumericalGrader', 'e removed', {'user_constants': {'e': None}}),
        ('NumericalGrader', 'user function f', {'user_functions': {'f': f1}}),
        ('NumericalGrader', 'allow_inf', {'allow_inf': True}),
        ('MatrixGrader', "answers='x'", {'variables': ['x'], 'answers': 'x'}),
        ('MatrixGrader', "entry_partial_credit, answers='x'",
         {'variables': ['x'], 'answers': 'x', 'entry_partial_credit': 'proportional'}),
        ('MatrixGrader', 'identity_dim=2', {'identity_dim': 2}),
        ('MatrixGrader', 'det overridden', {'user_functions': {'det': f1}}),
        ('MatrixGrader', 'blacklist=[det]', {'blacklist': ['det']}),
        ('MatrixGrader', 'variables=[I]', {'variables': ['I']}),
        ('IntegralGrader', 'plain', dict(integ)),
        ('IntegralGrader', 'variables=[infty]', dict(integ, variables=['infty'])),
        ('IntegralGrader', 'infty removed, variables=[infty]', dict(integ, variables=['infty'], user_constants={'infty': None})),
        ('SumGrader', 'plain', dict(summ)),
        ('SumGrader', 'pi removed', dict(summ, user_constants={'pi': None})),
    ]
    return H


MATH_CLASSES = ('FormulaGrader', 'NumericalGrader', 'MatrixGrader', 'IntegralGrader', 'SumGrader')
TABLE_ATTRS = ('default_variables', 'default_functions', 'default_suffixes')


def snapshot_tables():
    """the library's class-level / module-level tables of default names as they are when this module is imported
    (the runner imports it before anything is constructed)"""
    import mitxgraders as m
    from mitxgraders.helpers import calc
    snap = {'cls': [], 'mod': []}
    for cname in MATH_CLASSES:
        cls = getattr(m, cname)
        for attr in TABLE_ATTRS:
            obj = getattr(cls, attr)
            snap['cls'].append((cls, attr, attr in cls.__dict__, obj, dict(obj)))
    for name in ('DEFAULT_VARIABLES', 'DEFAULT_FUNCTIONS', 'DEFAULT_SUFFIXES', 'METRIC_SUFFIXES'):
        obj = getattr(calc, name)
        snap['mod'].append((obj, dict(obj)))
    return snap


def restore_tables(snap):
    """every case starts from (and leaves behind) the tables as they were at import: a case is judged on what ITS
    two constructions do, and is reproducible alone"""
    for cls, attr, own, obj, content in snap['cls']:
        if own:
            if cls.__dict__.get(attr) is not obj:
                setattr(cls, attr, obj)
        elif attr in cls.__dict__:
            delattr(cls, attr)
        if obj != content or list(obj) != list(content):
            obj.clear()
            obj.update(content)
    for obj, content in snap['mod']:
        if obj != content:
            obj.clear()
            obj.update(content)


TABLES_AT_IMPORT = snapshot_tables()


class ConstructionHistory(Family):
    name = 'construction_history'
    timeout = 20.0
    rule = ('every ordered pair (A, B) of 34 configurations of the five math grader classes (default constants removed / '
            'overridden / used as variable names, allow_inf, user functions over default names of either function table, '
            'black/whitelists, metric suffixes, identity_dim, entry_partial_credit; 10 of them invalid): A is constructed '
            '(it may raise, possibly after it has begun to set the instance up), then B. B must get the verdict of the '
            'cross-option rule model and, when accepted, exactly the documented constants, functions, permitted '
            'functions, suffixes and default comparer (closed form from functions_and_constants.md), and the same '
            'configuration as the first construction of B in this process; the class-level tables of all five classes '
            'must still be the documented ones. (Each case first puts the library\'s tables of default names back to '
            'their state at import, so that it is judged on its own two constructions and reproduces alone.)')

    def setup(self, tier):
        self.H = history_configs()
        self.ref = {}

    def cases(self, tier):
        n = len(history_configs())
        for a in range(n):
            for b in range(n):
                yield [a, b]

    def describe(self, case):
        H = history_configs()
        return {'first': '%s(%s)' % H[case[0]][:2], 'then': '%s(%s)' % H[case[1]][:2]}

    @staticmethod
    def build(entry):
        import mitxgraders as m
        cname, _, cfg = entry
        return construct(getattr(m, cname), copy.deepcopy(cfg), 'kwargs')

    @staticmethod
    def expected(entry):
        """(verdict rule, constants, functions, permitted, has metric suffixes, comparer class name)"""
        cname, _, cfg = entry
        matrix = cname == 'MatrixGrader'
        infty = cname in ('IntegralGrader', 'SumGrader')
        rule = M.math_rules(cfg, has_infty=infty, matrix=matrix)
        funcs = set(M.MATRIX_FUNCS if matrix else M.FORMULA_FUNCS)
        consts = set(M.DEFAULT_CONSTS)
        if infty or cfg.get('allow_inf'):
            consts.add('infty')
        uc = cfg.get('user_constants', {})
        consts -= set(k for k, v in uc.items() if v is None)
        consts |= set(k for k, v in uc.items() if v is not None)
        if cfg.get('identity_dim'):
            consts.add('I')
        uf = set(cfg.get('user_functions', {}))
        wl, bl = cfg.get('whitelist', []), cfg.get('blacklist', [])
        if wl == [None]:
            permitted = set(uf)
        elif wl:
            permitted = set(wl) | uf
        else:
            permitted = (funcs | uf) - set(bl)
        comparer = 'MatrixEntryComparer' if 'entry_partial_credit' in cfg else 'EqualityComparer'
        return rule, consts, funcs | uf, permitted, bool(cfg.get('metric_suffixes')), comparer

    @staticmethod
    def tables_bad():
        import mitxgraders as m
        for cname in ('FormulaGrader', 'NumericalGrader', 'MatrixGrader', 'IntegralGrader', 'SumGrader'):
            cls = getattr(m, cname)
            consts = set(M.DEFAULT_CONSTS) | ({'infty'} if cname in ('IntegralGrader', 'SumGrader') else set())
            funcs = M.MATRIX_FUNCS if cname == 'MatrixGrader' else M.FORMULA_FUNCS
            if set(cls.default_variables) != consts:
                return '%s.default_variables is %s' % (cname, sorted(cls.default_variables))
            if set(cls.default_functions) != set(funcs):
                return '%s.default_functions differs by %s' % (cname, sorted(set(cls.default_functions) ^ set(funcs)))
            if set(cls.default_suffixes) != {'%'}:
                return '%s.default_suffixes is %s' % (cname, sorted(cls.default_suffixes))
        return None

    def judge_b(self, entry, r):
        """None or (tag, text, expected, observed)"""
        rule, consts, funcs, permitted, metric, comparer = self.expected(entry)
        if r[0] == 'wrong':
            return ('wrong-error', 'raised %s: %s' % (ename(r[1]), str(r[1])[:200]), 'ConfigError / accepted', ename(r[1]))
        if rule is None and r[0] != 'ok':
            return ('rejected', 'a valid configuration was rejected: %s' % str(r[1])[:200], 'constructs', ename(r[1]))
        if rule not in (None, M.OPEN) and r[0] == 'ok':
            return ('accepted', 'accepted although %s' % rule, 'ConfigError', 'constructed')
        if r[0] != 'ok':
            return None
        g = r[1]
        for name, want, got in (('constants', consts, set(g.constants)), ('functions', funcs, set(g.functions) | set(g.random_funcs)),
                                ('permitted functions', permitted, set(g.permitted_functions))):
            if want != got:
                return (name.replace(' ', '-'), 'its %s differ from the documented ones by %s' % (name, sorted(want ^ got)),
                        sorted(want)[:20], sorted(got)[:20])
        if ('k' in g.suffixes) != metric or '%' not in g.suffixes:
            return ('suffixes', 'its suffixes are %s' % sorted(g.suffixes), 'metric suffixes: %s' % metric, sorted(g.suffixes))
        if hasattr(g, 'default_comparer'):
            got = type(g.default_comparer).__name__
            used = set(type(e['comparer']).__name__ for a in g.config.get('answers', ()) for e in a['expect'])
            if got != comparer or (used and used != {comparer}):
                return ('default-comparer', 'its default comparer is a %s, its answers use %s' % (got, sorted(used)),
                        comparer, got)
        return None

    def check(self, case):
        ia, ib = case
        A, B = self.H[ia], self.H[ib]
        calls = 0
        restore_tables(TABLES_AT_IMPORT)
        try:
            return self.run(ia, ib, A, B)
        finally:
            restore_tables(TABLES_AT_IMPORT)

    def run(self, ia, ib, A, B):
        calls = 0
        if ib not in self.ref:
            r0 = self.build(B)
            calls += 1
            self.ref[ib] = (r0[0], M.stable(r0[1].config) if r0[0] == 'ok' else ename(r0[1]))
        ra = self.build(A)
        rb = self.build(B)
        calls += 2
        what = '%s(%s) and then %s(%s)' % (A[0], A[1], B[0], B[1])
        bad = self.judge_b(B, rb)
        if bad:
            return Result('second-wrong:' + bad[0], True,
                          viol('history:%s:%s' % (bad[0], B[0]), '%s: the second %s' % (what, bad[1]), bad[2], bad[3]), calls)
        bad = self.tables_bad()
        if bad:
            return Result('class-tables-changed', True,
                          viol('history:class-level-table-changed', 'after %s: %s' % (what, bad)), calls)
        now = (rb[0], M.stable(rb[1].config) if rb[0] == 'ok' else ename(rb[1]))
        if now != self.ref[ib]:
            return Result('differs-from-first', True,
                          viol('history:differs-from-first-construction:%s' % B[0],
                               '%s: the second differs from the first construction of the same configuration in this process'
                               % what, self.ref[ib][1][:300], now[1][:300]), calls)
        return Result('%s-then-%s' % ('ok' if ra[0] == 'ok' else 'raise', 'ok' if rb[0] == 'ok' else 'raise'), True, None, calls)


# ----------------------------------------------------------------------------- cases waiting for a decision

class PendingFindings(Family):
    """
    Reproductions of the genuine defects this check found (all repaired in /repo, see KNOWN_FINDINGS.json); they stay
    as regression cases.
    """
    name = 'former_findings'
    timeout = 20.0
    rule = ('reproductions of repaired defects: a registered '
            'entry_partial_credit does not select the MatrixEntryComparer; a registered IntervalGrader subgrader is '
            'ignored; tolerance "nan%" accepted; an empty delimiter accepted and then a ValueError for string answers; '
            'IntervalGrader delimiter of two characters accepted; an empty tuple of expected answers accepted')
    UNDECIDED = {'empty-expect-tuple'}       # not documented either way: observation only, not enumerated
    LABELS = ['registered-entry_partial_credit', 'registered-interval-subgrader', 'empty-dict-kwargs-IntervalGrader',
              'tolerance-nan-percent', 'empty-delimiter', 'empty-delimiter-string-answers',
              'interval-delimiter-two-characters', 'empty-expect-tuple']

    def cases(self, tier):
        for lab in self.LABELS:
            if lab in self.UNDECIDED:
                continue
            yield [lab]

    def check(self, case):
        import mitxgraders as m
        lab = case[0]

        def v(text, expected=None, observed=None):
            return Result('FAIL', True, viol('pending:' + lab, text, expected, observed), 1)

        def rejected(r, what):
            if r[0] == 'reject':
                return Result('reject', True, None, 1)
            return v('%s gave %s%s' % (what, r[0], '' if r[0] == 'ok' else ' %s: %s' % (ename(r[1]), r[1])),
                     'ConfigError or voluptuous Error', r[0])
        if lab == 'registered-entry_partial_credit':
            # plugins/defaults_sample.py: "we make all MatrixGrader problems award partial credit by default"
            saved = m.MatrixGrader.default_values
            try:
                m.MatrixGrader.default_values = None
                m.MatrixGrader.register_defaults({'entry_partial_credit': 'proportional'})
                r = construct(m.MatrixGrader, {'variables': ['x'], 'answers': 'x'}, 'kwargs')
            finally:
                m.MatrixGrader.default_values = saved
            if r[0] != 'ok':
                return v('construction raised %s' % r[1])
            used = type(r[1].config['answers'][0]['expect'][0]['comparer']).__name__
            if r[1].config.get('entry_partial_credit') != 'proportional' or used != 'MatrixEntryComparer':
                return v('config has entry_partial_credit=%r but the answer is compared with a %s'
                         % (r[1].config.get('entry_partial_credit'), used), 'MatrixEntryComparer', used)
            return Result('ok', True, None, 1)
        if lab == 'registered-interval-subgrader':
            saved = m.IntervalGrader.default_values
            try:
                m.IntervalGrader.default_values = None
                m.IntervalGrader.register_defaults({'subgrader': m.FormulaGrader(variables=['a'])})
                r = construct(m.IntervalGrader, {}, 'kwargs')
            finally:
                m.IntervalGrader.default_values = saved
            if r[0] != 'ok' or type(r[1].config['subgrader']).__name__ != 'FormulaGrader':
                return v('the registered default subgrader is not used: %s'
                         % (M.short(r[1].config['subgrader']) if r[0] == 'ok' else r[1]), 'FormulaGrader')
            return Result('ok', True, None, 1)
        if lab == 'empty-dict-kwargs-IntervalGrader':
            a, b = construct(m.IntervalGrader, {}, 'dict'), construct(m.IntervalGrader, {}, 'both', {'delimiter': ';'})
            if a[0] != 'ok' or b[0] != 'ok' or not M.deep_eq(a[1].config, b[1].config):
                return v("IntervalGrader({}, delimiter=';') does not ignore the keyword", ',', M.short(b[1].config.get('delimiter')) if b[0] == 'ok' else b[0])
            return Result('ok', True, None, 2)
        if lab == 'tolerance-nan-percent':
            return rejected(construct(m.FormulaGrader, {'tolerance': 'nan%'}, 'kwargs'), "FormulaGrader(tolerance='nan%')")
        if lab == 'empty-delimiter':
            return rejected(construct(m.SingleListGrader, {'subgrader': m.StringGrader(), 'delimiter': ''}, 'kwargs'),
                            "SingleListGrader(delimiter='')")
        if lab == 'empty-delimiter-string-answers':
            return rejected(construct(m.SingleListGrader, {'subgrader': m.StringGrader(), 'delimiter': '', 'answers': 'ab'},
                                      'kwargs'), "SingleListGrader(delimiter='', answers='ab')")
        if lab == 'interval-delimiter-two-characters':
            return rejected(construct(m.IntervalGrader, {'delimiter': '::'}, 'kwargs'), "IntervalGrader(delimiter='::')")
        if lab == 'empty-expect-tuple':
            return rejected(construct(m.StringGrader, {'answers': {'expect': ()}}, 'kwargs'), "StringGrader(answers={'expect': ()})")
        raise HarnessError('unknown pending case %r' % (case,))


# ----------------------------------------------------------------------------- the list of families

class SharedAuthorObjects(Family):
    """the author's own (mutable) configuration objects handed to several constructions"""
    name = 'shared_author_objects'
    timeout = 30.0
    ANSWERS = [
        lambda: ['1', '2'],
        lambda: [('1', '3'), '2'],
        lambda: (['1', '2'], ['2', '3']),
        lambda: [{'expect': '1', 'grade_decimal': 0.5}, '2'],
        lambda: [{'expect': ('1', '4'), 'msg': 'm'}, ('2', {'expect': '3', 'grade_decimal': 0.5})],
    ]
    SUBS = ['StringGrader', 'FormulaGrader', 'NumericalGrader', 'StringGrader(case_sensitive=False)']
    rule = ('one answers object (5 shapes: lists, tuples of lists, lists holding dictionaries and tuples) handed to TWO '
            'constructions in a row, ListGrader or SingleListGrader (as list of answers), with every ordered pair of 4 item '
            'subgraders: the second construction must succeed and equal the grader built from a fresh copy of the same '
            'literal, the author\'s object must be unchanged, and changing it afterwards must not change either grader')

    def cases(self, tier):
        for cls in ('ListGrader', 'SingleListGrader'):
            for a in range(len(self.ANSWERS)):
                for s1 in range(len(self.SUBS)):
                    for s2 in range(len(self.SUBS)):
                        yield (cls, a, s1, s2)

    def describe(self, case):
        cls, a, s1, s2 = case
        return {'class': cls, 'answers': repr(self.ANSWERS[a]()), 'first subgrader': self.SUBS[s1], 'second subgrader': self.SUBS[s2]}

    def build(self, cls, answers, sub):
        import mitxgraders as m
        subg = {'StringGrader': lambda: m.StringGrader(), 'FormulaGrader': lambda: m.FormulaGrader(),
                'NumericalGrader': lambda: m.NumericalGrader(),
                'StringGrader(case_sensitive=False)': lambda: m.StringGrader(case_sensitive=False)}[sub]()
        if cls == 'ListGrader':
            return m.ListGrader(answers=answers, subgraders=subg)
        return m.SingleListGrader(answers=answers, subgrader=subg)

    def check(self, case):
        import copy
        cls, a, s1, s2 = case
        literal = self.ANSWERS[a]
        try:
            ref1 = self.build(cls, literal(), self.SUBS[s1])
            ref2 = self.build(cls, literal(), self.SUBS[s2])
        except Exception as e:
            return Result('reference-rejected', False, None, 2)      # not a valid configuration for this pair
        shared = literal()
        before = repr(shared)
        try:
            g1 = self.build(cls, shared, self.SUBS[s1])
        except Exception as e:
            return Result('raised', True, viol('shared:first-construction-raised', '%r' % e), 3)
        if repr(shared) != before:
            return Result('mutated', True, viol('shared:author-object-changed-by-construction',
                                                'answers object is %s after construction, was %s' % (repr(shared), before),
                                                before, repr(shared)), 3)
        try:
            g2 = self.build(cls, shared, self.SUBS[s2])
        except Exception as e:
            return Result('second-rejected', True,
                          viol('shared:second-construction-rejected',
                               'a valid configuration was rejected when its answers object had been used for another grader '
                               'before: %s: %s' % (type(e).__name__, e), 'constructed', repr(e)), 4)
        if g1 != ref1 or g2 != ref2 or repr(shared) != before:
            return Result('differs', True,
                          viol('shared:grader-differs-from-fresh-literal',
                               'graders built from a shared answers object differ from those built from fresh literals',
                               repr(ref2.config['answers'])[:300], repr(g2.config['answers'])[:300]), 4)
        # the author goes on editing their own object: the graders keep what they were built with
        snap1, snap2 = copy.deepcopy(g1.config['answers']), copy.deepcopy(g2.config['answers'])
        try:
            self.scribble(shared)
        except Exception:
            pass
        if g1.config['answers'] != snap1 or g2.config['answers'] != snap2:
            return Result('aliased', True,
                          viol('shared:grader-config-aliases-author-object',
                               'editing the author\'s answers object after construction changed a grader\'s configuration',
                               repr(snap2)[:300], repr(g2.config['answers'])[:300]), 4)
        return Result('independent', True, None, 4)

    @staticmethod
    def scribble(obj):
        if isinstance(obj, list):
            for x in obj:
                SharedAuthorObjects.scribble(x)
            obj.append('SCRIBBLE')
        elif isinstance(obj, tuple):
            for x in obj:
                SharedAuthorObjects.scribble(x)
        elif isinstance(obj, dict):
            for x in list(obj.values()):
                SharedAuthorObjects.scribble(x)
            obj['msg'] = 'SCRIBBLE'


def families(tier):
    th = ('thorough',)
    fams = [
        BaseConfig(), SingleOption(), DocumentedDefault(), UnknownKey(),
        Grid('math_rules_FormulaGrader', 'FormulaGrader', math_dims('FormulaGrader'), MATH_RULE),
        Grid('math_rules_FormulaGrader_allow_inf', 'FormulaGrader', math_dims('FormulaGrader+allow_inf'),
             MATH_RULE + '; with allow_inf=True (infty becomes a default constant)', tiers=th),
        Grid('allow_inf_infty', 'FormulaGrader', allow_inf_dims,
             'variables x numbered_vars x user_constants naming infty x allow_inf x suppress_warnings: infty is a default '
             'constant exactly when allow_inf is set'),
        Grid('math_rules_IntegralGrader', 'IntegralGrader', math_dims('IntegralGrader'), MATH_RULE, tiers=th),
        Grid('math_rules_MatrixGrader', 'MatrixGrader', math_dims('MatrixGrader'), MATH_RULE),
        Grid('math_rules_SumGrader', 'SumGrader', math_dims('SumGrader'), MATH_RULE, tiers=th),
        Grid('math_rules_NumericalGrader', 'NumericalGrader', math_dims('NumericalGrader', numerical=True), MATH_RULE),
        Grid('listgrader_rules', 'ListGrader', listgrader_dims,
             'full product of 8 subgrader arrangements (single, lists of 2/3, nested ListGraders, SingleListGrader) x 10 '
             'answers shapes x ordered x 11 groupings: unordered only with a single subgrader, subgrader/answer count, equal '
             'answer-list lengths, grouping contiguous from 1, groups need ListGrader subgraders, equal group sizes when unordered'),
        Grid('nested_delimiters', 'SingleListGrader', delimiter_dims,
             'outer delimiter in {, ; |} x every valid chain of nested SingleListGraders of depth 0..2 over the same '
             'delimiters: rejected iff the outer delimiter re-occurs in the chain'),
        Grid('singlelist_answers_rules', 'SingleListGrader', singlelist_answer_dims,
             '12 answers with/without empty entries and with lists of different length x missing_error x length_error x '
             '2 subgraders: empty entries rejected iff missing_error; different lengths rejected if length_error (else open)'),
        Grid('interval_rules', 'IntervalGrader', interval_dims,
             '19 answers (string and 4-entry list forms, malformed ones, 5 entries, opening bracket used as closing and vice versa) x 3 opening_brackets x 3 closing_brackets x 2 '
             'delimiters: accepted iff exactly 4 non-empty entries result and both brackets are single allowed characters'),
        Grid('input_positions_IntegralGrader', 'IntegralGrader', positions_dims('integrand', 'integration_variable'),
             'all 6^4 input_positions dictionaries (each key absent/None/1/2/3/4): accepted iff the used positions are '
             'distinct and are exactly 1..n'),
        Grid('input_positions_SumGrader', 'SumGrader', positions_dims('summand', 'summation_variable'),
             'all 6^4 input_positions dictionaries (each key absent/None/1/2/3/4): accepted iff the used positions are '
             'distinct and are exactly 1..n', tiers=th),
        Grid('square_matrices_288', 'SquareMatrices', square_dims,
             'all 6 symmetries x complex x traceless x determinant in {None,0,1} x dimension in {2,3,4,5} = 288: rejected '
             'exactly for the combinations the SquareMatrices docstring lists as impossible/unsupported; complex forced '
             'for (anti)hermitian'),
        Grid('specify_domain_min_length', 'specify_domain', specify_domain_dims,
             '4 input_shapes lists x min_length in {None,1,2}: min_length requires exactly one shape'),
        Grid('answers_StringGrader', 'StringGrader', answers_dims('string'), ANS_RULE),
        Grid('answers_FormulaGrader', 'FormulaGrader', answers_dims('formula'), ANS_RULE),
        Grid('answers_MatrixGrader', 'MatrixGrader', answers_dims(
            'formula', lambda: [('entry_partial_credit', [V(OMIT, True, FREE, label='-'), V('proportional', True, SAME)]
                                 + ([V(0.5, True, SAME)] if tier == 'thorough' else []))]),
             ANS_RULE + '; x entry_partial_credit in {-, proportional, 0.5} (the default comparer becomes a MatrixEntryComparer)'),
        Grid('answers_NumericalGrader', 'NumericalGrader', answers_dims('formula'), ANS_RULE, tiers=th),
        Grid('answers_SingleListGrader', 'SingleListGrader', answers_dims(
            'singlelist', lambda: [('subgrader', [V(T.SG, True, FREE), V(T.SLG_semi, True, FREE)])]),
             ANS_RULE + '; x subgrader in {StringGrader, nested SingleListGrader(;)}'),
        Grid('answers_IntervalGrader', 'IntervalGrader', answers_dims('interval'), ANS_RULE),
        Grid('answers_ListGrader', 'ListGrader', listgrader_answer_dims,
             'ListGrader answers: every pair of 6 StringGrader answer forms as a 2-list, a tuple of lists, a 3-list: stored '
             'as a tuple of lists of canonical subgrader answers'),
        Grid('answers_ListGrader_mixed', 'ListGrader', listgrader_mixed_dims,
             'ListGrader with subgraders of DIFFERENT kinds: 10 arrangements (lists pairing StringGrader, FormulaGrader, '
             'NumericalGrader, MatrixGrader with entry_partial_credit, SingleListGrader of FormulaGraders, IntervalGrader; '
             'and single non-string subgraders) x 10 answers lists (strings, dictionaries, tuples of alternatives, comparer '
             'dictionaries, inner lists, interval strings, tuples of lists) x ordered: every entry must be validated and '
             'normalised by the subgrader OF ITS OWN POSITION (its expect form, its default comparer), rejected when that '
             'subgrader does not admit it'),
        Positional(), DictBeatsKwargs(), RegisteredDefaults(), RegisteredDefaultsChain(), ConstructionHistory(), OptionPairs(), SharedAuthorObjects(), PendingFindings(),
    ]
    if tier != 'thorough':
        fams = [f for f in fams if tier in getattr(f, 'tiers', ('quick', 'thorough'))]
    return fams
