"""
C02 -- grading failures surface only as library errors with student-safe messages.

ENUM: every token string up to a length bound, every hostile expression up to depth 2, deep
nestings, list/interval/sum shapes and non-text objects are submitted twice: to a grader built
with debug=True (the documented way to see the untranslated failure: the front door re-raises
whatever happened) and to an identically configured grader with debug off (the option is NOT
passed: documented default) under the same RNG schedule.  A reference model of the front door
predicts the debug-off outcome from the raw one.

The twin comparison cannot see a mistake that is made identically with and without debug (an
anticipated problem that lost its specific class inside the library, a wrapper grader that
swallows or re-labels it).  Those are covered by tables with an INDEPENDENT expectation: the
documented error class per anticipated mistake -- alone, after all other mistakes, typed into
the same box inside every other grader class / nesting, placed in inputs of thousands of terms,
and generated from closed arithmetic facts (division by an expression that is exactly zero,
arithmetic beyond the largest float); documented refusals of the list / string / sum / interval
graders and of FormulaGrader's restriction options with author-configured multi-line messages;
author-written grading code that raises (closed formula for what the student must see); non-text
objects at every box position.
"""
import itertools
import collections
from ..core import Family, Result, viol, HarnessError
from .. import chooser

from voluptuous import Required

from mitxgraders import (StringGrader, FormulaGrader, NumericalGrader, MatrixGrader, SingleListGrader, ListGrader,
                         IntervalGrader, SumGrader, MathArray, RealMatrices, DiscreteSet, between_comparer)
from mitxgraders.baseclasses import ItemGrader
from mitxgraders.exceptions import MITxError, StudentFacingError, ConfigError, InvalidInput, MissingInput, InputTypeError
from mitxgraders.helpers.calc.exceptions import CalcError, UndefinedVariable, MathArrayShapeError
import mitxgraders.helpers.calc.expressions as X

PROPERTY = 'C02'
RULE = ('all token strings up to a length bound x 3 math graders; all f(leaf), f(leaf,leaf), leaf op leaf and one more level over '
        'hostile leaves; nesting depths; list / interval / sum shapes; non-text objects x every grader class and every box position; '
        'tables of anticipated mistakes / documented refusals with the documented error class (alone, after each other, through every '
        'wrapper grader, at length, generated zero-division and overflow forms); failing author code x exception classes x student texts; '
        'a case is non-trivial when the raw (debug=True) outcome is an exception or the table demands an error')
EXPLANATION = ('states = distinct (grader, input) cases; transitions = real grader calls (debug twin + debug-off grader)')
ASSUMPTIONS = ['the debug=True twin shows the raw outcome (documented behaviour of debug mode)',
               'reference model of the front door: raw result -> result; raw library error -> same class, message with line breaks as <br/>; '
               'any other raw exception -> StudentFacingError "Invalid Input: Could not check input(s) ..." naming the submission',
               'numerically huge loop bounds are outside the alphabet; a case that needs > 10 s is reported as non-termination',
               'expected error classes of the tables come from the documentation (docs/, changelog) and from arithmetic facts, not from '
               'running the library; an exactly-zero denominator means division by zero, a modulus beyond 1.8e308 means overflow',
               'author code = the documented extension points (ItemGrader subclass implementing check_response, comparer function); only '
               'exceptions inheriting from MITxError may show their message (changelog, version 1.1)']


def run_pair(gd, gn, inp):
    def body_d(ch):
        try:
            return ('ok', gd(None, inp))
        except BaseException as e:
            if isinstance(e, (KeyboardInterrupt, SystemExit)) or type(e).__name__ == 'Watchdog':
                raise
            return ('err', e)

    def body_n(ch):
        try:
            return ('ok', gn(None, inp))
        except BaseException as e:
            if isinstance(e, (KeyboardInterrupt, SystemExit)) or type(e).__name__ == 'Watchdog':
                raise
            return ('err', e)
    _, raw = chooser.run_with(body_d)
    _, got = chooser.run_with(body_n)
    return raw, got


def generic_message(inp):
    if isinstance(inp, list):
        return "Invalid Input: Could not check inputs '%s'" % "', '".join(inp)
    return "Invalid Input: Could not check input '%s'" % inp


def judge(raw, got, inp, tag, text_input=True):
    """returns (outcome, nontrivial, violation)"""
    where = 'input %r' % (inp,)
    if not text_input:
        if got[0] == 'ok':
            return 'nontext-graded', True, viol(tag + ':non-text-input-graded', '%s was graded: %r' % (where, got[1]), 'ConfigError', got[1])
        e = got[1]
        if not isinstance(e, ConfigError):
            return 'nontext-wrong-error', True, viol(tag + ':non-text-input-not-a-ConfigError:' + type(e).__name__,
                                                     '%s raised %s: %s' % (where, type(e).__name__, e), 'ConfigError', repr(e))
        return 'nontext:ConfigError', True, None
    if got[0] == 'ok':
        if raw[0] == 'err' and isinstance(raw[1], MITxError):
            return 'result', True, viol(tag + ':error-with-debug-but-result-without', '%s: debug twin raised %r, debug-off returned %r'
                                        % (where, raw[1], got[1]), repr(raw[1]), got[1])
        return 'result', raw[0] == 'err', None
    e = got[1]
    name = type(e).__name__
    if not isinstance(e, MITxError):
        return 'escaped:' + name, True, viol(tag + ':foreign-exception-escapes:' + name,
                                             '%s: %s escaped the grader: %s' % (where, name, str(e)[:200]), 'a library error', repr(e)[:300])
    msg = str(e)
    if '\n' in msg.replace('<br/>\n', ''):
        return 'newline', True, viol(tag + ':raw-line-break-in-message', '%s: message of %s contains a raw line break: %r' % (where, name, msg[:200]))
    if raw[0] == 'ok':
        return 'raised-without-debug-only', True, viol(tag + ':result-with-debug-but-error-without',
                                                       '%s: debug twin returned a result, debug-off raised %s: %s' % (where, name, msg[:200]))
    r = raw[1]
    if isinstance(r, MITxError):
        exp_msg = str(r).replace('\n', '<br/>')
        if type(e) is not type(r):
            return 'class-changed', True, viol(tag + ':error-class-changed:%s->%s' % (type(r).__name__, name),
                                               '%s: anticipated error %s surfaced as %s' % (where, type(r).__name__, name),
                                               type(r).__name__, name)
        if msg != exp_msg:
            return 'message-changed', True, viol(tag + ':error-message-changed', '%s: message %r, expected %r' % (where, msg[:200], exp_msg[:200]),
                                                 exp_msg[:300], msg[:300])
        return 'kept:' + name, True, None
    # unanticipated internal failure
    if type(e) is not StudentFacingError:
        return 'internal-wrong-class', True, viol(tag + ':internal-failure-not-generic:%s->%s' % (type(r).__name__, name),
                                                  '%s: internal %s surfaced as %s: %s' % (where, type(r).__name__, name, msg[:200]),
                                                  'StudentFacingError', name)
    if msg != generic_message(inp):
        return 'internal-wrong-message', True, viol(tag + ':generic-message-wrong', '%s: message %r, expected %r' % (where, msg[:200], generic_message(inp)),
                                                    generic_message(inp), msg[:300])
    return 'generic<-' + type(r).__name__, True, None


def fresh_parser_every(fam, n=20000):
    fam._n = getattr(fam, '_n', 0) + 1
    if fam._n % n == 0:
        X.PARSER = X.MathParser()


def dbg(debug):
    """the debug twin passes debug=True; the debug-off grader does NOT pass the option at all (documented default: off)"""
    return {'debug': True} if debug else {}


def formula_scope():
    return dict(variables=['x', 'n'], user_functions={'f': lambda t: t * t - 3}, sample_from={'x': [2, 3], 'n': DiscreteSet((7,))},
                user_constants={'m': 6}, samples=2)


def matrix_scope():
    A = MathArray([[1.0, 2.0], [3.0, 5.0]])
    return dict(variables=['x', 'A'], sample_from={'A': DiscreteSet(A)}, max_array_dim=2, user_functions={'f': lambda t: t * t - 3},
                samples=2)


def math_graders(debug):
    return {
        'Formula': FormulaGrader(answers='x+1', **dict(formula_scope(), **dbg(debug))),
        'Numerical': NumericalGrader(answers='2.5', **dbg(debug)),
        'Matrix': MatrixGrader(answers='[1,2]', **dict(matrix_scope(), **dbg(debug))),
    }


TOKENS = ['2', '3.5', 'x', 'f', '+', '-', '*', '/', '^', '||', '(', ')', '[', ']', ',']
FOREIGN = ['²', '１', ';', '\t', "'", '_', '{', '}', '%', '.', 'e', '—', ' ', '!', '=', '"', '\\', '\n', 'ı', '∞', '<br/>', '<b>', '&lt;']


class TokenStrings(Family):
    timeout = 10.0
    timeout_sig = 'non-termination'

    def __init__(self, name, tokens, maxlen, note=''):
        self.name = name
        self.tokens = tokens
        self.maxlen = maxlen
        self.rule = ('every concatenation of 1..%s tokens from %r submitted to Formula, Numerical and Matrix graders (debug twin + debug-off)%s'
                     % (maxlen, tokens, note))

    def setup(self, tier):
        self.gd = math_graders(True)
        self.gn = math_graders(False)

    def cases(self, tier):
        n = self.maxlen[tier]
        idx = range(len(self.tokens))
        for L in range(1, n + 1):
            for tup in itertools.product(idx, repeat=L):
                yield tup

    def describe(self, case):
        return ''.join(self.tokens[i] for i in case)

    def check(self, case):
        s = ''.join(self.tokens[i] for i in case)
        fresh_parser_every(self)
        calls = 0
        nontriv = False
        outcome = None
        for k in ('Formula', 'Numerical', 'Matrix'):
            raw, got = run_pair(self.gd[k], self.gn[k], s)
            calls += 2
            o, nt, v = judge(raw, got, s, k)
            nontriv = nontriv or nt
            if v:
                return Result(o, True, v, calls)
            outcome = outcome or o
        return Result(outcome, nontriv, None, calls)


LEAVES = ['0', '1', '-1', '0.5', '1e308', '1e-308', 'i', '[1,2]', '[1,2,3]', '[[1,2],[3,4]]', '[[1,2,3],[4,5,6]]', 'x', 'A']
OPS = ['+', '-', '*', '/', '^', '||']


def function_names():
    from mitxgraders.helpers.calc import mathfuncs as MF
    names = sorted(set(MF.DEFAULT_FUNCTIONS) | set(MF.ARRAY_ONLY_FUNCTIONS))
    return [n for n in names if n not in ('fact', 'factorial')]


class Hostile(Family):
    name = 'hostile_expressions'
    timeout = 10.0
    timeout_sig = 'non-termination'
    rule = ('leaves %r; depth 1: every f(leaf), f(leaf,leaf) for every default function (both tables, except factorial) and every '
            'leaf op leaf; depth 2 over the depth-1 expressions that are not plain arity errors (thorough: all; quick: every 23rd): op(depth1, leaf), op(leaf, depth1), f(depth1); submitted to the '
            'Matrix grader (array-aware) and the Formula grader' % (LEAVES,))

    def setup(self, tier):
        self.gd = math_graders(True)
        self.gn = math_graders(False)
        self.funcs = function_names()

    @staticmethod
    def top_level_args(s):
        depth = 0
        n = 1
        for ch in s[s.index('(') + 1:-1] if '(' in s else '':
            if ch in '([':
                depth += 1
            elif ch in ')]':
                depth -= 1
            elif ch == ',' and depth == 0:
                n += 1
        return n

    def depth1(self):
        funcs = function_names()
        for f in funcs:
            for a in LEAVES:
                yield '%s(%s)' % (f, a)
        for f in funcs:
            for a in LEAVES:
                for b in LEAVES:
                    yield '%s(%s,%s)' % (f, a, b)
        for o in OPS:
            for a in LEAVES:
                for b in LEAVES:
                    yield '%s%s%s' % (a, o, b)

    def cases(self, tier):
        d1 = list(self.depth1())
        for s in d1:
            yield s
        funcs = function_names()
        k = 0
        multi = ('arctan2', 'kronecker', 'min', 'max', 'cross')
        d1small = [s for s in d1 if s.count(',') == s.count('[,') or s.split('(')[0] in multi or s[0] in '0123456789-i[xA']
        d1small = [s for s in d1small if not (s.split('(')[0] in funcs and s.split('(')[0] not in multi and self.top_level_args(s) > 1)]
        step = 1 if tier == 'thorough' else 23
        for s in d1small:
            for o in OPS:
                for a in LEAVES[:9] + ['A']:
                    k += 1
                    if k % step == 0:
                        yield '(%s)%s%s' % (s, o, a)
                    k += 1
                    if k % step == 0:
                        yield '%s%s(%s)' % (a, o, s)
        for s in d1small:
            for f in funcs:
                k += 1
                if k % step == 0:
                    yield '%s(%s)' % (f, s)

    def check(self, case):
        s = case
        fresh_parser_every(self, 5000)
        calls = 0
        nontriv = False
        outcome = None
        for k in ('Matrix', 'Formula'):
            raw, got = run_pair(self.gd[k], self.gn[k], s)
            calls += 2
            o, nt, v = judge(raw, got, s, k + ':hostile')
            nontriv = nontriv or nt
            if v:
                return Result(o, True, v, calls)
            outcome = outcome or o
        return Result(outcome, nontriv, None, calls)


class Nesting(Family):
    name = 'nesting_depth'
    timeout = 60.0
    timeout_sig = 'non-termination'
    rule = 'k opening brackets, 1, k closing brackets for k in {10, 70, 200, 1200} with ( and [ and f(, plus unbalanced variants; 3 graders'

    def setup(self, tier):
        self.gd = math_graders(True)
        self.gn = math_graders(False)

    def cases(self, tier):
        for k in (10, 70, 200, 1200):
            for form in range(7):
                yield (k, form)

    def text(self, k, form):
        if form == 0:
            return '(' * k + '1' + ')' * k
        if form == 1:
            return '[' * k + '1' + ']' * k
        if form == 2:
            return 'f(' * k + '1' + ')' * k
        if form == 3:
            return '(' * k + '1' + ')' * (k - 1)
        if form == 4:
            return '[' * k
        if form == 5:
            return '-' * 1 + '(' * k + 'x' + ')' * k + '^2' * 3
        return '2' + '^2' * k

    def describe(self, case):
        return {'k': case[0], 'form': self.text(3, case[1]) + '  (shown for k=3)'}

    def check(self, case):
        k, form = case
        s = self.text(k, form)
        X.PARSER = X.MathParser()
        calls = 0
        outcome = None
        for g in ('Formula', 'Numerical', 'Matrix'):
            raw, got = run_pair(self.gd[g], self.gn[g], s)
            calls += 2
            o, nt, v = judge(raw, got, s, g + ':nesting')
            if v:
                v['msg'] = v['msg'][:400]
                return Result(o, True, v, calls)
            outcome = outcome or o
        return Result(outcome, True, None, calls)


ITEMS = ['1', 'x', '', ' ', '1+', '(', 'a,b', ';', '[', ']', '1,2']


def list_graders(debug):
    d = dbg(debug)
    sub = lambda: FormulaGrader(variables=['x'], **d)
    # subgraders of SingleList/Interval graders do not share the parent's debug log (a debug=True subgrader there fails
    # with AttributeError in debug mode only, which would hide the raw outcome): only the outer grader is the debug twin
    isub = lambda: FormulaGrader(variables=['x'])
    return {
        'SingleList': (SingleListGrader(answers=['1', 'x'], subgrader=isub(), **d), 'single'),
        'SingleListSemi': (SingleListGrader(answers=['1', 'x'], subgrader=isub(), delimiter=';', length_error=True, **d), 'single'),
        'SingleListNested': (SingleListGrader(answers=[['1', 'x'], ['x', '1']], subgrader=SingleListGrader(subgrader=isub()),
                                              delimiter=';', **d), 'single'),
        'Interval': (IntervalGrader(answers='[1,2)', **d), 'single'),
        'IntervalFormula': (IntervalGrader(answers='[x,2*x]', subgrader=isub(), **d), 'single'),
        'String': (StringGrader(answers='1', **d), 'single'),
        'List2': (ListGrader(answers=['1', 'x'], subgraders=sub(), **d), 'list2'),
        'List2Ordered': (ListGrader(answers=['1', 'sibling_1+x'], subgraders=sub(), ordered=True, **d), 'list2'),
        'List3Siblings': (ListGrader(answers=['sibling_2+sibling_3', 'x', 'y'], subgraders=FormulaGrader(variables=['x', 'y'], **d),
                                     ordered=True, **d), 'list3'),
        'ListGrouped': (ListGrader(answers=[['1', 'x'], ['x', '1']], subgraders=ListGrader(subgraders=sub(), **d),
                                   grouping=[1, 1, 2, 2], **d), 'list4'),
        'Sum': (SumGrader(answers=dict(lower='1', upper='3', summand='x', summation_variable='x'), **d), 'list4'),
        'Sum1': (SumGrader(answers=dict(lower='1', upper='3', summand='n', summation_variable='n'), input_positions={'summand': 1},
                           **d), 'single'),
        # other nestings of the same boxes: one grader PER box (text grader first, formula grader later), single-box lists
        # inside a multi-box list, several alternative answer lists without partial credit
        'ListMixed': (ListGrader(answers=['1', 'x'], subgraders=[StringGrader(**d), sub()], ordered=True, **d), 'list2'),
        'ListOfSingleLists': (ListGrader(answers=[['1', 'x'], ['x', '1']], subgraders=SingleListGrader(subgrader=isub()), **d), 'list2'),
        'ListAlternatives': (ListGrader(answers=(['1', 'x'], ['x', '2'], ['x', 'x']), subgraders=sub(), partial_credit=False, **d),
                             'list2'),
    }


class ListShapes(Family):
    name = 'list_interval_sum_shapes'
    timeout = 8.0
    timeout_sig = 'non-termination'
    rule = ('SingleListGrader (two delimiters, nested), IntervalGrader, StringGrader, ListGrader (flat, ordered with siblings, grouped, '
            'one grader per box with a text grader first, single-box lists inside a list, alternative answer lists without partial '
            'credit) and SumGrader: single-input graders get every delimiter-joined tuple of <=3 items from %r with , and ; and bracket characters; '
            'list graders get every tuple of the right length [4 boxes: over the first 6 items]' % (ITEMS,))

    def setup(self, tier):
        self.gd = list_graders(True)
        self.gn = list_graders(False)

    def cases(self, tier):
        names = list(list_graders(False).keys())
        kinds = {k: v[1] for k, v in list_graders(False).items()}
        for gname in names:
            kind = kinds[gname]
            if kind == 'single':
                for L in (1, 2, 3):
                    for tup in itertools.product(range(len(ITEMS)), repeat=L):
                        for d in (',', ';'):
                            if L == 1 and d == ';':
                                continue
                            yield (gname, d.join(ITEMS[i] for i in tup))
                for s in ('[1,2)', '(1,2]', '[1,2', '1,2)', '[1;2)', '[[1,2))', '[,]', '[1,,2)', '{1,2}', '[1,2)x', ' [ 1 , 2 ) ', '[x,2*x]',
                          '[1/0,2]', '[1,infty)', '[infty,1]', '(-infty,infty)'):
                    yield (gname, s)
            elif kind == 'list2':
                for tup in itertools.product(range(len(ITEMS)), repeat=2):
                    yield (gname, [ITEMS[i] for i in tup])
            elif kind == 'list3':
                items3 = ['x', 'y', 'x+y', 'q', '1', '', 'sibling_1', 'sibling_3', '1+', '(', ' ', '1/0']
                for tup in itertools.product(range(len(items3)), repeat=3):
                    yield (gname, [items3[i] for i in tup])
            else:
                items = ITEMS[:6] + ['3', 'n']
                rng = range(len(items)) if tier == 'thorough' else range(6)
                for tup in itertools.product(rng, repeat=4):
                    yield (gname, [items[i] for i in tup])

    def check(self, case):
        gname, inp = case
        fresh_parser_every(self, 5000)
        raw, got = run_pair(self.gd[gname][0], self.gn[gname][0], inp)
        o, nt, v = judge(raw, got, inp, gname)
        return Result(o, nt, v, 2)


ANTICIPATED = [
    # (grader key, input, documented problem, acceptable specific error classes)
    ('Formula', 'x+', 'malformed formula', ('UnableToParse',)),
    ('Formula', '(x', 'unbalanced bracket', ('UnbalancedBrackets',)),
    ('Formula', 'x)', 'unbalanced bracket', ('UnbalancedBrackets',)),
    ('Formula', '[x)', 'mismatched bracket', ('UnbalancedBrackets',)),
    ('Formula', 'y+1', 'unknown variable', ('UndefinedVariable',)),
    ('Formula', 'X+1', 'wrong case variable', ('UndefinedVariable',)),
    ('Formula', 'g(x)', 'unknown function', ('UndefinedFunction',)),
    ('Formula', 'Sin(x)', 'wrong case function', ('UndefinedFunction',)),
    ('Formula', '2q', 'unknown suffix', ('UndefinedFunction',)),
    ('Formula', '1/0', 'division by zero', ('CalcZeroDivisionError',)),
    ('Formula', 'x/(x-x)', 'division by zero', ('CalcZeroDivisionError',)),
    ('Formula', '0^-1', 'division by zero', ('CalcZeroDivisionError',)),
    ('Formula', '10^400', 'overflow', ('CalcOverflowError',)),
    ('Formula', '2^2^2^2^2', 'overflow', ('CalcOverflowError',)),
    ('Formula', 'exp(1000)', 'overflow in function', ('CalcOverflowError',)),
    # towers built only from INTEGER-valued variables / constants (n is drawn from an integer set, m = 6)
    ('Formula', 'n^n^n', 'overflow in an integer-valued power tower', ('CalcOverflowError',)),
    ('Formula', 'm^m^m', 'overflow in an integer-valued power tower', ('CalcOverflowError',)),
    ('Formula', 'n^n^n^n', 'overflow in an integer-valued power tower', ('CalcOverflowError',)),
    ('Formula', 'm^n^m^n', 'overflow in an integer-valued power tower', ('CalcOverflowError',)),
    ('Formula', 'n^m^n^m^n', 'overflow in an integer-valued power tower', ('CalcOverflowError',)),
    ('Formula', 'sin(1,2)', 'wrong number of arguments', ('ArgumentError',)),
    ('Formula', 'arctan2(1)', 'wrong number of arguments', ('ArgumentError',)),
    ('Formula', 'f(1,2)', 'wrong number of arguments (user function)', ('ArgumentError',)),
    ('Formula', 'min(1)', 'too few arguments', ('ArgumentError',)),
    ('Formula', 'ln(0)', 'function outside its domain', ('FunctionEvalError', 'CalcZeroDivisionError', 'CalcOverflowError')),
    ('Formula', 'cot(0)', 'pole', ('CalcZeroDivisionError', 'FunctionEvalError')),
    ('Formula', '[1,2]', 'vector where forbidden', ('UnableToParse',)),
    ('Matrix', '[1,2]+[1,2,3]', 'adding different shapes', ('MathArrayShapeError',)),
    ('Matrix', '[1,2]+1', 'adding a scalar to a vector', ('MathArrayError', 'MathArrayShapeError')),
    ('Matrix', '[[1,2],[3,4]]*[1,2,3]', 'incompatible product', ('MathArrayShapeError',)),
    ('Matrix', '[1,2]/[1,2]', 'division by a vector', ('MathArrayError', 'MathArrayShapeError')),
    ('Matrix', '[1,2]^2', 'power of a vector', ('MathArrayShapeError', 'MathArrayError')),
    ('Matrix', 'A^0.5', 'non-integer power of a matrix', ('MathArrayError',)),
    ('Matrix', 'A^i', 'complex power of a matrix', ('MathArrayError',)),
    ('Matrix', 'A^(1+i)', 'complex power of a matrix', ('MathArrayError',)),
    ('Matrix', '[[1,2],[2,4]]^-1', 'inverse of a singular matrix', ('MathArrayError',)),
    ('Matrix', '2^A', 'matrix exponent', ('MathArrayError', 'MathArrayShapeError')),
    ('Matrix', 'sin([1,2])', 'vector into a scalar function', ('ArgumentShapeError',)),
    ('Matrix', 'det([1,2])', 'vector into det', ('ArgumentShapeError',)),
    ('Matrix', 'cross([1,2],[3,4])', 'cross product of 2-vectors', ('ArgumentShapeError',)),
    ('Matrix', 'det(2)', 'scalar into det', ('ArgumentShapeError',)),
    ('Matrix', 'trace(det(A))', 'scalar into trace', ('ArgumentShapeError',)),
    ('Matrix', 'det(2*i)', 'complex scalar into det', ('ArgumentShapeError',)),
    ('Matrix', 'cross(1,[1,2,3])', 'scalar into cross', ('ArgumentShapeError',)),
    ('Matrix', '[1,[2,3]]', 'ragged array', ('UnableToParse',)),
    ('Matrix', '[1,2]*[1,2]*[1,2]', 'triple vector product', ('CalcError',)),
    ('Matrix', '[[[1,2],[3,4]],[[5,6],[7,8]]]', 'tensor where forbidden', ('UnableToParse',)),
    ('Matrix', '[1,2,3]', 'answer of the wrong shape', ('InputTypeError',)),
    ('Matrix', '5', 'scalar for a vector answer', ('InputTypeError',)),
    ('Numerical', 'x', 'variable in a numerical answer', ('UndefinedVariable',)),
    ('Numerical', '2.5+', 'malformed number', ('UnableToParse',)),
]


class Anticipated(Family):
    name = 'anticipated_problems'
    timeout = 15.0
    timeout_sig = 'non-termination'
    rule = ('a table of %d documented, anticipated student mistakes (malformed / unbalanced formulas, unknown names, division by zero, '
            'overflow, wrong arity, function domain, shape-illegal array arithmetic incl. non-integer and COMPLEX matrix powers, wrong '
            'answer shape) submitted with debug off, alone and after all the others: each must surface as its specific documented '
            'error class with a message free of raw line breaks -- not as the generic "Could not check input" error' % len(ANTICIPATED))
    tag = 'anticipated'

    def table(self):
        return ANTICIPATED

    def build(self):
        return math_graders(False)

    def setup(self, tier):
        self.gn = self.build()
        self.rows = self.table()

    def cases(self, tier):
        return iter(range(len(self.table())))

    def describe(self, case):
        row = self.table()[case]
        k, inp, what, classes = row[:4]
        return {'grader': k, 'input': inp, 'problem': what, 'expected_error': list(classes)}

    def check(self, case):
        # once on its own, once after every other anticipated mistake has been made (on the same graders): what one
        # student's mistake leaves behind must not change how the next one is reported
        res = self.check_one(case, ())
        if res.violation is None:
            res2 = self.check_one(case, [j for j in range(len(self.rows)) if j != case])
            if res2.violation is not None:
                res2.violation['sig'] = 'after-other-mistakes:' + res2.violation['sig']
                res2.violation['msg'] = 'after all other anticipated mistakes were submitted first: ' + res2.violation['msg']
                return res2
        return res

    def check_one(self, case, prelude):
        row = self.rows[case]
        k, inp, what, classes = row[:4]
        exact = row[4] if len(row) > 4 else None
        g = self.gn[k]
        for j in prelude:
            kj, inpj = self.rows[j][0], self.rows[j][1]

            def pre(ch, kj=kj, inpj=inpj):
                try:
                    self.gn[kj](None, inpj)
                except Exception:
                    pass
            try:
                chooser.run_with(pre)
            except Exception:
                pass

        def body(ch):
            try:
                return ('ok', g(None, inp))
            except Exception as e:
                return ('err', e)
        _, got = chooser.run_with(body)
        if got[0] == 'ok':
            return Result('graded', True, viol(self.tag + ':graded-instead-of-error:' + what.replace(' ', '-'),
                                               '%s grader, input %r (%s): expected %s, but it was graded: %r' % (k, inp, what, '/'.join(classes), got[1]),
                                               list(classes), got[1]))
        e = got[1]
        names = [c.__name__ for c in type(e).__mro__]
        if not any(c in names for c in classes):
            return Result('wrong-class:' + type(e).__name__, True,
                          viol(self.tag + ':specific-error-lost:' + what.replace(' ', '-'),
                               '%s grader, input %r (%s): expected %s, got %s: %s' % (k, inp, what, '/'.join(classes), type(e).__name__, str(e)[:200]),
                               list(classes), '%s: %s' % (type(e).__name__, str(e)[:200])))
        if '\n' in str(e).replace('<br/>\n', ''):
            return Result('newline', True, viol(self.tag + ':raw-line-break', 'message of %s has a raw line break' % type(e).__name__))
        if str(e).startswith('Invalid Input: Could not check input'):
            return Result('generic', True, viol(self.tag + ':generic-message-for-a-specific-problem:' + what.replace(' ', '-'),
                                                '%s grader, input %r (%s): the generic message was shown: %s' % (k, inp, what, str(e)[:200])))
        if exact is not None and str(e) != exact:
            return Result('message-changed', True,
                          viol(self.tag + ':configured-message-changed:' + what.replace(' ', '-'),
                               '%s grader, input %r (%s): message %r, the author configured %r' % (k, inp, what, str(e)[:200], exact), exact,
                               str(e)[:300]))
        return Result('kept:' + type(e).__name__, True)


# ---------------------------------------------------------------------------------------------------------------
# Anticipated mistakes reached through OTHER grader classes and nestings.  The differential (debug twin) oracle cannot
# see a wrapper that swallows or re-labels a student's mistake, because both twins do the same; here the expected class
# comes from the table above, whatever grader the formula box sits in.

def wrapper_graders():
    F = lambda: FormulaGrader(**formula_scope())
    M = lambda: MatrixGrader(**matrix_scope())
    sum_scope = dict(formula_scope())
    sum_scope.pop('samples')
    return collections.OrderedDict([
        # name -> (grader, table key of the rows it takes, [functions text -> student input])
        ('SingleList;/first', (SingleListGrader(answers=['1', 'x'], subgrader=F(), delimiter=';'), 'Formula', [lambda s: s + ';1'])),
        ('SingleList;/later', (SingleListGrader(answers=['1', 'x'], subgrader=F(), delimiter=';'), 'Formula', [lambda s: '1;' + s])),
        ('SingleList;/ordered', (SingleListGrader(answers=['1', 'x'], subgrader=F(), delimiter=';', ordered=True, length_error=True),
                                 'Formula', [lambda s: s + ';1', lambda s: '1;' + s])),
        ('SingleList;/extra-item', (SingleListGrader(answers=['1', 'x'], subgrader=F(), delimiter=';'), 'Formula',
                                    [lambda s: '1;x;' + s])),
        ('SingleListNested', (SingleListGrader(answers=[['1', 'x'], ['x', '1']], subgrader=SingleListGrader(subgrader=F(), delimiter=';'),
                                               delimiter='|'), 'Formula', [lambda s: s + ';1|1;1', lambda s: '1;1|1;' + s])),
        ('List', (ListGrader(answers=['1', 'x'], subgraders=F()), 'Formula', [lambda s: [s, '1'], lambda s: ['1', s]])),
        ('ListOrdered', (ListGrader(answers=['1', 'x'], subgraders=F(), ordered=True), 'Formula', [lambda s: [s, '1'], lambda s: ['1', s]])),
        ('ListPerBox', (ListGrader(answers=['cat', 'x'], subgraders=[StringGrader(), F()], ordered=True), 'Formula',
                        [lambda s: ['cat', s], lambda s: ['dog', s]])),
        ('ListAlternatives', (ListGrader(answers=(['1', 'x'], ['x', '2']), subgraders=F(), partial_credit=False), 'Formula',
                              [lambda s: [s, '1'], lambda s: ['1', s]])),
        ('ListGrouped', (ListGrader(answers=[['1', 'x'], ['x', '1']], subgraders=ListGrader(subgraders=F()), grouping=[1, 1, 2, 2]),
                         'Formula', [lambda s: [s, '1', '1', '1'], lambda s: ['1', '1', '1', s]])),
        ('ListOfSingleLists', (ListGrader(answers=[['1', 'x'], ['x', '1']], subgraders=SingleListGrader(subgrader=F(), delimiter=';')),
                               'Formula', [lambda s: [s + ';1', '1;1'], lambda s: ['1;1', '1;' + s]])),
        ('Interval;', (IntervalGrader(answers='[1;2]', delimiter=';', subgrader=F()), 'Formula',
                       [lambda s: '[' + s + ';2]', lambda s: '(1;' + s + ')'])),
        ('Sum/lower', (SumGrader(answers=dict(lower='1', upper='3', summand='k', summation_variable='k'), **sum_scope), 'Sum',
                       [lambda s: [s, '3', 'k', 'k']])),
        ('Sum/upper', (SumGrader(answers=dict(lower='1', upper='3', summand='k', summation_variable='k'), **sum_scope), 'Sum',
                       [lambda s: ['1', s, 'k', 'k']])),
        ('Sum/summand', (SumGrader(answers=dict(lower='1', upper='3', summand='k', summation_variable='k'), **sum_scope), 'Sum',
                         [lambda s: ['1', '3', s, 'k']])),
        ('Sum/only-summand', (SumGrader(answers=dict(lower='1', upper='3', summand='k', summation_variable='k'),
                                        input_positions={'summand': 1}, **sum_scope), 'Sum', [lambda s: s, lambda s: [s]])),
        ('SingleList;/Matrix', (SingleListGrader(answers=['[1,2]', '[1,2]'], subgrader=M(), delimiter=';'), 'Matrix',
                                [lambda s: s + ';[1,2]', lambda s: '[1,2];' + s])),
        ('List/Matrix', (ListGrader(answers=['[1,2]', '[1,2]'], subgraders=M()), 'Matrix', [lambda s: [s, '[1,2]'], lambda s: ['[1,2]', s]])),
        ('ListPerBox/Matrix', (ListGrader(answers=['1', '[1,2]'], subgraders=[F(), M()], ordered=True), 'Matrix', [lambda s: ['1', s]])),
    ])


def wrapped_rows():
    """(wrapper name, index of the input builder, row of ANTICIPATED) in a fixed order"""
    rows = []
    for name, (_, key, builders) in wrapper_graders().items():
        for j, row in enumerate(ANTICIPATED):
            if key == 'Sum':
                # a sum's fields are formula boxes of the same scope; a vector is not forbidden there (the summand may be one)
                if row[0] != 'Formula' or row[2] == 'vector where forbidden':
                    continue
            elif row[0] != key:
                continue
            for b in range(len(builders)):
                rows.append((name, b, j))
    return rows


def long_rows(tier='quick'):
    """anticipated mistakes at the end of / inside LONG flat inputs (sizes far beyond the token-string bound)"""
    rows = []
    for n in (10, 300, 2000) + ((5000,) if tier == 'thorough' else ()):
        ones = '+'.join(['1'] * n)
        rows += [
            ('Formula', ones + '+', 'malformed formula after %d terms' % n, ('UnableToParse',)),
            ('Formula', '(' + ones, 'unbalanced bracket before %d terms' % n, ('UnbalancedBrackets',)),
            ('Formula', ones + ')', 'unbalanced bracket after %d terms' % n, ('UnbalancedBrackets',)),
            ('Formula', ones + '+y', 'unknown variable after %d terms' % n, ('UndefinedVariable',)),
            ('Formula', 'y+' + ones, 'unknown variable before %d terms' % n, ('UndefinedVariable',)),
            ('Formula', ones + '+g(1)', 'unknown function after %d terms' % n, ('UndefinedFunction',)),
            ('Formula', ones + '+1/0', 'division by zero after %d terms' % n, ('CalcZeroDivisionError',)),
            ('Formula', '1/0+' + ones, 'division by zero before %d terms' % n, ('CalcZeroDivisionError',)),
            ('Formula', '1/(' + ones + '-%d)' % n, 'division by a sum of %d terms that is zero' % n, ('CalcZeroDivisionError',)),
            ('Formula', ones + '+10^400', 'overflow after %d terms' % n, ('CalcOverflowError',)),
            ('Formula', 'f(' + ','.join(['1'] * (n + 1)) + ')', 'user function with %d arguments' % (n + 1), ('ArgumentError',)),
            ('Formula', 'sin(' + ','.join(['1'] * (n + 1)) + ')', 'sin with %d arguments' % (n + 1), ('ArgumentError',)),
            ('Formula', 'q' * n, 'unknown variable of %d letters' % n, ('UndefinedVariable',)),
            ('Formula', 'q' * n + '(1)', 'unknown function of %d letters' % n, ('UndefinedFunction',)),
            ('Formula', '1e' + '9' * n, 'literal with an exponent of %d digits' % n, ('CalcOverflowError',)),
            ('Formula', ')' * n, '%d closing brackets' % n, ('UnbalancedBrackets',)),
            ('Formula', '([{' * n, '%d opening brackets of three kinds' % (3 * n), ('UnbalancedBrackets',)),
            ('Formula', '1' + ' ' * n + '+', 'dangling operator after %d spaces' % n, ('UnableToParse',)),
            ('Matrix', '[' + ','.join(['1'] * (n + 2)) + ']', 'vector with %d components for a 2-component answer' % (n + 2),
             ('InputTypeError',)),
            ('Matrix', '[' + ','.join(['1'] * (n + 2)) + ']+[1,2]', 'adding vectors with %d and 2 components' % (n + 2),
             ('MathArrayShapeError',)),
            ('Matrix', '[1,2]' + '+[1,2]' * (n // 4) + '+[1,2,3]', 'adding a 3-vector after %d 2-vectors' % (n // 4 + 1),
             ('MathArrayShapeError',)),
            ('Numerical', ones + '+x', 'variable in a numerical answer after %d terms' % n, ('UndefinedVariable',)),
        ]
        if n >= 2000:
            rows += [
                ('Formula', '*'.join(['x'] * n), 'overflow in a product of %d factors >= 2' % n, ('CalcOverflowError',)),
                ('Formula', '9' * n, 'literal of %d digits' % n, ('CalcOverflowError',)),
                ('Formula', '3' + '^3' * n, 'power tower of height %d' % n, ('CalcOverflowError',)),
            ]
    return rows


ZERO_FORMS = ['0', '0.0', '.0', '0e5', '(-0)', '(1-1)', '(x-x)', '(0*x)', '1e-400', '(1e-200*1e-200)', '(2^-2000)', '(0^2)', 'sin(0)',
              'floor(0.5)', 're(i)', 'abs(0)', '(i-i)', '(0*i)', '(n-7)', '(m-6)']
NUMERATORS = ['1', 'x', '-2.5', 'i', '1e308', '(1+i)', '0', 'f(2)', 'n', 'm']
DIVISIONS = ['%s/%s', '1+%s/%s', '(%s)/%s*2', 'f(%s/%s)', '2^(%s/%s)', '%s/%s/2', '%s*%s^-1', '%s*%s^-2.5', 'sqrt(%s/%s)']
ARRAY_DIVISIONS = ['[1,%s/%s]', '[1,2]*(%s/%s)', '[%s,2]/%s', '[[%s,2],[3,4]]/%s', '%s*A/%s']
BIG_BASES = ['10', '(x+8)', '1e308', '(-10)', '(10*i)', '(10+10*i)', 'n', 'm', '1e3']
BIG_EXPONENTS = ['400', '1e3', '1e308', '(x*200)', '400.5', '(n*100)', '(400+i)', '(2^10)']
POWERS = ['%s^%s', '1+%s^%s', '-%s^%s', 'f(%s^%s)', '%s^%s/%s^%s', '0*%s^%s', 'sqrt(%s^%s)', '(%s^%s)^0', '%s^%s-%s^%s']
OVERFLOWS = ['1e308*10', '1e308+1e308', '-1e308-1e308', '1e308*x', 'x*1e308*x', 'exp(710)', 'exp(1e308)', 'cosh(711)', 'sinh(-711)',
             'exp(x*400)', '10^x^x^x', '2^2^2^2^2^2', 'exp(exp(10))', '1e400', '-1e400', '1e308/1e-308', '1/1e-308*10', '1e308^2',
             '1e200*1e200', '(1e308*10)-(1e308*10)', '0*(1e308*10)', '1/(1e308*10)', 'tan(pi/2)^400', '1e308*i*10',
             '(1e308+1e308*i)*(1e308+1e308*i)', 'exp(1000*i+1000)', '10^400*0', 'arctan(10^400)', 'sinh(1e308)', '1e308*1e308*1e308']
ARRAY_OVERFLOWS = ['[1e308,1]*10', '1e308*[1,2]*10', 'A*1e308*1e308', '[1e308,1e308]*[1e308,1e308]', '[1,2]*10^400', 'A^1000',
                   'A^(1e308)', '(1e200*A)^2', 'norm([1e308,1e308,1e308,1e308,1e308])', '[10^400,1]', 'A*[1e308,1e308]',
                   '[[1e308,1e308],[1,1]]*[[1e308,1],[1e308,1]]', 'det(1e200*A)', 'exp(710)*[1,2]', 'A^-1000', '(1e-200*A)^-2',
                   '[1e308,1]+[1e308,1]', '[1,2]/1e-308/1e-308']


def form_rows(tier='quick'):
    """division by an expression that is exactly zero / arithmetic beyond the largest float, in many syntactic forms"""
    rows = _form_rows()
    if tier == 'thorough':
        extra = []
        for k, text, what, classes in rows:
            if k == 'Formula':
                extra.append(('FormulaInList', ['1', text], what + ' in the later box of a list', classes))
                if not set('xnmf') & set(text.replace('floor', '').replace('inh', '')):
                    extra.append(('Numerical', text, what + ' in a numerical answer', classes))
            else:
                extra.append(('MatrixInSingleList', '[1,2];' + text, what + ' in the later item of a list', classes))
        rows = rows + extra
    return rows


def form_graders():
    g = math_graders(False)
    g['FormulaInList'] = ListGrader(answers=['1', 'x+1'], subgraders=FormulaGrader(**formula_scope()), ordered=True)
    g['MatrixInSingleList'] = SingleListGrader(answers=['[1,2]', '[1,2]'], subgrader=MatrixGrader(**matrix_scope()), delimiter=';')
    return g


def _form_rows():
    rows = []
    for f in DIVISIONS:
        for a in NUMERATORS:
            for z in ZERO_FORMS:
                rows.append(('Formula', f % (a, z), 'division by zero', ('CalcZeroDivisionError',)))
                if not set('nm') & set(a + z):
                    rows.append(('Matrix', f % (a, z), 'division by zero', ('CalcZeroDivisionError',)))
    for f in ARRAY_DIVISIONS:
        for a in NUMERATORS:
            for z in ZERO_FORMS:
                if f == '%s*A/%s' and a == '1e308':
                    continue          # 1e308*A overflows before the division is reached: the overflow error is the right one
                if f == '%s*A/%s' and a == '0':
                    # PENDING-FINDING: a zero MATRIX divided by zero (0*A/0) is an element-wise 0/0; numpy reports 'invalid value',
                    # the library turns that into a bare ValueError and the student gets the generic "Could not check input"
                    # message, while the scalar 0/0 gets the specific division-by-zero message.  Skipped until decided.
                    continue
                if not set('nm') & set(a + z):
                    rows.append(('Matrix', f % (a, z), 'division by zero in an array expression', ('CalcZeroDivisionError',)))
    for f in POWERS:
        for a in BIG_BASES:
            for b in BIG_EXPONENTS:
                rows.append(('Formula', f % ((a, b) * (f.count('%s') // 2)), 'overflow in a power', ('CalcOverflowError',)))
    for s in OVERFLOWS:
        rows.append(('Formula', s, 'overflow', ('CalcOverflowError',)))
        rows.append(('Matrix', s, 'overflow', ('CalcOverflowError',)))
    for s in ARRAY_OVERFLOWS:
        rows.append(('Matrix', s, 'overflow in an array expression', ('CalcOverflowError',)))
    return rows


class AnticipatedElsewhere(Family):
    timeout = 60.0
    timeout_sig = 'non-termination'

    def __init__(self, name):
        self.name = name
        if name == 'anticipated_through_wrappers':
            self.rule = ('every row of the anticipated-mistakes table whose box is a formula (resp. matrix) box, typed into that box when '
                         'it sits in another grader: first / later / extra item of a SingleListGrader (ordered or not, nested), first / '
                         'later box of a ListGrader (unordered, ordered, one grader per box, alternative answer lists, grouped, lists '
                         'of single-box lists), an endpoint of an IntervalGrader, the lower limit / upper limit / summand of a '
                         'SumGrader (4 boxes and summand-only): the same specific error class must reach the student, debug off')
        elif name == 'anticipated_at_length':
            self.rule = ('anticipated mistakes placed before / after / inside flat inputs of 10, 300 and 2000 terms, arguments, letters, '
                         'digits, brackets or components (no nesting): the same specific error class as for the short input')
        else:
            self.rule = ('division: %d shapes of division x %d numerators (real, complex, huge, integer-valued variable / constant, user '
                         'function) x %d expressions that are EXACTLY zero (literals 0 / 0.0 / .0 / 0e5 / underflowing 1e-400, -0, x-x, 0*x, '
                         'underflowing product / power, 0^2, sin(0), floor(0.5), re(i), abs(0), complex zero, integer-valued n-7 and m-6), '
                         'plus %d array shapes (Matrix grader): always CalcZeroDivisionError. overflow: %d shapes x %d bases >= 10 in modulus '
                         '(real, negative, imaginary, complex, integer-valued) x %d exponents >= 400 (integer, float, huge, sampled, complex), '
                         '%d scalar and %d array expressions beyond the largest float (sums, products, exp / cosh / sinh, towers, literals, '
                         'inf-inf, 0*inf, 1/inf, matrix powers, norm, det): always CalcOverflowError -- never the generic message, debug off'
                         % (len(DIVISIONS), len(NUMERATORS), len(ZERO_FORMS), len(ARRAY_DIVISIONS), len(POWERS), len(BIG_BASES),
                            len(BIG_EXPONENTS), len(OVERFLOWS), len(ARRAY_OVERFLOWS)))

    def setup(self, tier):
        if self.name == 'anticipated_through_wrappers':
            self.wr = wrapper_graders()
            self.rows = wrapped_rows()
        elif self.name == 'anticipated_at_length':
            self.gn = math_graders(False)
            self.rows = long_rows(tier)
        else:
            self.gn = form_graders()
            self.rows = form_rows(tier)

    def cases(self, tier):
        if self.name == 'anticipated_through_wrappers':
            return iter(range(len(wrapped_rows())))
        return iter(range(len(long_rows(tier) if self.name == 'anticipated_at_length' else form_rows(tier))))

    def unpack(self, case):
        if self.name == 'anticipated_through_wrappers':
            name, b, j = self.rows[case]
            g, _, builders = self.wr[name]
            _, text, what, classes = ANTICIPATED[j]
            return g, name, builders[b](text), what, classes
        k, text, what, classes = self.rows[case]
        return self.gn[k], k, text, what, classes

    def describe(self, case):
        if not hasattr(self, 'rows'):
            self.setup('thorough')
        _, name, inp, what, classes = self.unpack(case)
        short = inp if isinstance(inp, list) or len(inp) < 80 else inp[:40] + ' ... ' + inp[-30:]
        return {'grader': name, 'input': short, 'problem': what, 'expected_error': list(classes)}

    def check(self, case):
        g, name, inp, what, classes = self.unpack(case)
        fresh_parser_every(self, 2000)
        shown = inp if isinstance(inp, list) or len(inp) < 80 else inp[:40] + ' ... ' + inp[-30:]

        def body(ch):
            try:
                return ('ok', g(None, inp))
            except Exception as e:
                return ('err', e)
        _, got = chooser.run_with(body)
        tag = self.name.split('_', 1)[-1] + ':' + name
        if got[0] == 'ok':
            return Result('graded', True, viol(tag + ':graded-instead-of-error:' + what.replace(' ', '-'),
                                               '%s, input %r (%s): expected %s, but it was graded: %r' % (name, shown, what, '/'.join(classes), got[1]),
                                               list(classes), got[1]))
        e = got[1]
        names = [c.__name__ for c in type(e).__mro__]
        if not any(c in names for c in classes):
            return Result('wrong-class:' + type(e).__name__, True,
                          viol(tag + ':specific-error-lost:' + what.replace(' ', '-'),
                               '%s, input %r (%s): expected %s, got %s: %s' % (name, shown, what, '/'.join(classes), type(e).__name__, str(e)[:200]),
                               list(classes), '%s: %s' % (type(e).__name__, str(e)[:200])))
        if '\n' in str(e).replace('<br/>\n', ''):
            return Result('newline', True, viol(tag + ':raw-line-break', 'message of %s has a raw line break' % type(e).__name__))
        return Result('kept:' + type(e).__name__, True)


# ---------------------------------------------------------------------------------------------------------------
# Documented refusals of the graders that are not formula evaluators, and of FormulaGrader's restriction options: the
# class (and, where the AUTHOR configured the text, the exact message with <br/> for line breaks) is fixed by the docs.

def refusal_graders():
    S = StringGrader
    A = MathArray([[1.0, 2.0], [3.0, 5.0]])
    return {
        'SL': SingleListGrader(answers=['a', 'b'], subgrader=S()),
        'SL_len': SingleListGrader(answers=['a', 'b'], subgrader=S(), length_error=True),
        'SL_nested': SingleListGrader(answers=[['a', 'b'], ['c', 'd']], subgrader=SingleListGrader(subgrader=S()), delimiter=';'),
        'SL_formula': SingleListGrader(answers=['1', 'x'], subgrader=FormulaGrader(variables=['x'])),
        'Str_pattern': S(answers='12', validation_pattern=r'\d+', invalid_msg='Digits only.\nTry again.\n\n(no letters)'),
        'Str_pattern_default': S(answers='12', validation_pattern=r'\d+'),
        'Str_min': S(accept_any=True, min_length=3),
        'Str_words': S(accept_any=True, min_words=2),
        'Str_nonempty': S(accept_nonempty=True),
        'F_forbid': FormulaGrader(answers='2*x', variables=['x'], forbidden_strings=['+'], forbidden_message='Do not add.\nMultiply instead.\n'),
        'F_forbid_default': FormulaGrader(answers='2*x', variables=['x'], forbidden_strings=['+']),
        'F_required': FormulaGrader(answers='sin(x)', variables=['x'], required_functions=['sin']),
        'F_white': FormulaGrader(answers='sin(x)', variables=['x'], whitelist=['sin']),
        'F_white_none': FormulaGrader(answers='x', variables=['x'], whitelist=[None]),
        'F_black': FormulaGrader(answers='sin(x)', variables=['x'], blacklist=['cos']),
        'F_instructor': FormulaGrader(answers='c*x', variables=['x', 'c'], instructor_vars=['c']),
        'N_between': NumericalGrader(answers={'comparer': between_comparer, 'comparer_params': ['1', '3']}),
        'L_sibling': ListGrader(answers=['x', 'sibling_1^2'], subgraders=FormulaGrader(variables=['x']), ordered=True),
        'L_two': ListGrader(answers=['a', 'b'], subgraders=S()),
        'Sum': SumGrader(answers=dict(lower='1', upper='3', summand='k', summation_variable='k'), variables=['x']),
        'Interval': IntervalGrader(answers='[1,2)'),
        'M_noneg': MatrixGrader(answers='A', variables=['A'], sample_from={'A': DiscreteSet(A)}, max_array_dim=2, negative_powers=False),
        'M_shape_detail': MatrixGrader(answers='[1,2]', answer_shape_mismatch={'is_raised': True, 'msg_detail': 'shape'}),
        # alternatives of different shapes inside one answer, mismatch policy left at its default (raise)
        'M_alt_shapes': MatrixGrader(answers={'expect': ('[1,2]', '[1,2,3]')}),
        'M_alt_shapes_rev': MatrixGrader(answers={'expect': ('[1,2,3]', '[1,2]')}),
    }


REFUSALS = [
    # (grader, input, documented refusal, acceptable classes, exact message or None)
    ('SL', 'a,,b', 'empty list entry', ('MissingInput',), None),
    ('SL', ',a', 'empty first list entry', ('MissingInput',), None),
    ('SL', 'a,', 'empty last list entry', ('MissingInput',), None),
    ('SL', 'a, ,b', 'blank list entry', ('MissingInput',), None),
    ('SL', '', 'empty list', ('MissingInput',), None),
    # the shape mismatch against ANY alternative of the answer is reported, whichever alternative is listed first
    ('M_alt_shapes', '[1, 2]', 'shape mismatch against a later alternative', ('InputTypeError',), None),
    ('M_alt_shapes_rev', '[1, 2]', 'shape mismatch against an earlier alternative', ('InputTypeError',), None),
    ('M_alt_shapes', '[1, 2, 3]', 'shape mismatch against an earlier alternative (3)', ('InputTypeError',), None),
    # an entry made of whitespace other than the plain space is blank too
    ('SL', 'a,\t,b', 'blank list entry (tab)', ('MissingInput',), None),
    ('SL', 'a,\u00a0,b', 'blank list entry (no-break space)', ('MissingInput',), None),
    ('SL', 'a, \t \u3000,b', 'blank list entry (mixed whitespace)', ('MissingInput',), None),
    ('SL', '\t,a', 'blank first list entry (tab)', ('MissingInput',), None),
    ('SL_len', 'a', 'too few list entries', ('MissingInput',), None),
    ('SL_len', 'a,b,c', 'too many list entries', ('MissingInput',), None),
    ('SL_nested', 'a,b;', 'empty inner list', ('MissingInput',), None),
    ('SL_nested', 'a,;c,d', 'empty inner entry', ('MissingInput',), None),
    ('SL_formula', '1,,x', 'empty formula entry', ('MissingInput',), None),
    ('Str_pattern', 'abc', 'input not matching the validation pattern',
     ('InvalidInput',), 'Digits only.<br/>Try again.<br/><br/>(no letters)'),
    ('Str_pattern', '12a', 'input with a matching prefix only', ('InvalidInput',), 'Digits only.<br/>Try again.<br/><br/>(no letters)'),
    ('Str_pattern', '', 'empty input against a pattern', ('InvalidInput',), 'Digits only.<br/>Try again.<br/><br/>(no letters)'),
    ('Str_pattern_default', 'abc', 'input not matching the pattern default message', ('InvalidInput',), 'Your input is not in the expected format'),
    ('Str_min', 'ab', 'response below the minimum length', ('InvalidInput',), None),
    ('Str_min', '', 'empty response below the minimum length', ('InvalidInput',), None),
    ('Str_words', 'one', 'response below the minimum word count', ('InvalidInput',), None),
    ('Str_nonempty', '', 'empty response where non-empty is required', ('InvalidInput',), None),
    ('Str_nonempty', '   ', 'blank response where non-empty is required', ('InvalidInput',), None),
    ('F_forbid', 'x+x', 'correct answer with a forbidden string', ('InvalidInput',), 'Do not add.<br/>Multiply instead.<br/>'),
    ('F_forbid', 'x + x', 'correct answer with a forbidden string and spaces', ('InvalidInput',), 'Do not add.<br/>Multiply instead.<br/>'),
    ('F_forbid_default', 'x+x', 'correct answer with a forbidden string default message', ('InvalidInput',),
     'Invalid Input: This particular answer is forbidden'),
    ('F_required', 'cos(x-pi/2)', 'correct answer without the required function', ('InvalidInput',), None),
    ('F_white', 'cos(x-pi/2)', 'correct answer with a function not on the whitelist', ('InvalidInput',), None),
    ('F_white_none', 'sqrt(x^2)', 'correct answer with a function when none is allowed', ('InvalidInput',), None),
    ('F_black', 'cos(x-pi/2)', 'correct answer with a blacklisted function', ('InvalidInput',), None),
    ('F_instructor', 'c*x', 'instructor variable used by the student', ('UndefinedVariable',), None),
    ('N_between', 'i', 'complex input where a real is required', ('InputTypeError',), None),
    ('N_between', '2+i', 'complex input where a real is required 2', ('InputTypeError',), None),
    ('L_sibling', ['', 'x^2'], 'blank box that another answer depends on', ('MissingInput',), None),
    ('L_two', ['a'], 'too few boxes', ('ConfigError',), None),
    ('L_two', ['a', 'b', 'c'], 'too many boxes', ('ConfigError',), None),
    ('Sum', ['', '3', 'k', 'k'], 'blank lower limit', ('MissingInput',), None),
    ('Sum', ['1', '3', '', 'k'], 'blank summand', ('MissingInput',), None),
    ('Sum', ['1', '3', 'k', ''], 'blank summation variable', ('MissingInput',), None),
    ('Sum', ['1.5', '3', 'k', 'k'], 'non-integer lower limit', ('SummationError',), None),
    ('Sum', ['1', 'pi', 'k', 'k'], 'non-integer upper limit', ('SummationError',), None),
    ('Sum', ['i', '3', 'k', 'k'], 'complex lower limit', ('SummationError', 'InvalidInput'), None),
    ('Sum', ['infty', 'infty', 'k', 'k'], 'sum from infinity to infinity', ('SummationError',), None),
    ('Sum', ['-infty', '-infty', 'k', 'k'], 'sum from -infinity to -infinity', ('SummationError',), None),
    ('Sum', ['1', '3', 'x', 'x'], 'summation variable that is a variable of the problem', ('SummationError', 'InvalidInput'), None),
    ('Sum', ['1', '3', 'pi', 'pi'], 'summation variable that is a constant', ('InvalidInput',), None),
    ('Sum', ['1', '3', 'sin', 'sin'], 'summation variable that is a function', ('InvalidInput',), None),
    ('Sum', ['1', '3', '2k', '2k'], 'summation variable that is not a name', ('InvalidInput',), None),
    ('Sum', ['1', '3', 'k'], 'too few boxes for a sum', ('ConfigError',), None),
    ('Interval', '{1,2)', 'opening bracket that is not allowed', ('InvalidInput',), None),
    ('Interval', '[1,2}', 'closing bracket that is not allowed', ('InvalidInput',), None),
    ('Interval', '[1,,2)', 'empty endpoint', ('MissingInput',), None),
    ('Interval', '[1,2,3)', 'three endpoints', ('MissingInput',), None),
    ('M_noneg', 'A^-1', 'negative matrix power when disabled', ('MathArrayError',), None),
    ('M_noneg', 'A^-2*A', 'negative matrix power when disabled 2', ('MathArrayError',), None),
    ('M_shape_detail', '[1,2,3]', 'answer of the wrong shape with shape detail', ('InputTypeError',), None),
    ('M_shape_detail', '[[1,2],[3,4]]', 'matrix for a vector answer', ('InputTypeError', 'UnableToParse'), None),
]


class Refusals(Anticipated):
    name = 'documented_refusals'
    rule = ('a table of %d documented refusals outside formula evaluation: empty / missing / surplus entries of a SingleListGrader '
            '(flat, nested, with length check), StringGrader validation pattern and minimum length / words / non-empty, FormulaGrader '
            'forbidden strings, required functions, whitelist, blacklist, instructor variables (on otherwise CORRECT answers), a real-only '
            'comparer given a complex number, a blank box another answer depends on, wrong box counts, SumGrader blank / non-integer / '
            'complex / infinite limits and illegal summation variables, IntervalGrader brackets and endpoint counts, disabled negative '
            'matrix powers; each alone and after all the others, debug off (default): the documented class must reach the student, and '
            'where the AUTHOR configured the text (also with several line breaks) exactly that text with <br/> for every line break'
            % len(REFUSALS))
    tag = 'refusal'

    def table(self):
        return REFUSALS

    def build(self):
        return refusal_graders()


NONTEXT = [None, 5, 1.5, b'x', ('a',), {'a': 1}, [], [None], ['a', 5], [['a']], ['a', ['b']], True, object,
           # lists of the right length (2, 3, 4 boxes) with one entry, or all entries, that is not text
           ['a', None], [None, 'b'], [None, None], ['a', None, 'c'], [None, 'b', 'c'], ['a', 'b', 1.5], ['1', '3', 'n', None],
           [None, '3', 'n', 'n'], ['1', '3', b'n', 'n'], ['a', 'b', 'c', True], ['a', ('b',)], [5]]


class NonText(Family):
    name = 'non_text_objects'
    rule = ('every grader class x non-text objects %r, plus a string where a list of boxes is required and a list where a single text is '
            'required: must be refused with ConfigError, never graded' % ([repr(x) for x in NONTEXT],))

    def setup(self, tier):
        self.gn = {}
        for k, (g, kind) in list_graders(False).items():
            self.gn[k] = (g, kind)
        for k, g in math_graders(False).items():
            self.gn[k] = (g, 'single')

    def cases(self, tier):
        names = sorted(list(list_graders(False).keys()) + ['Formula', 'Numerical', 'Matrix'])
        for n in names:
            for j in range(len(NONTEXT) + 2):
                yield (n, j)

    def check(self, case):
        name, j = case
        g, kind = self.gn[name]
        if j < len(NONTEXT):
            inp = NONTEXT[j]
        elif j == len(NONTEXT):
            inp = 'a' if kind != 'single' else ['a']
        else:
            inp = ['a', 'b'] if kind == 'single' else 'a,b'
        if name in ('Sum', 'Sum1') and isinstance(inp, str):
            return Result('skipped', False, None, 0)          # SumGrader documents a bare string for a single box
        if name == 'Sum1' and isinstance(inp, list) and all(isinstance(x, str) for x in inp) and len(inp) == 1:
            return Result('skipped', False, None, 0)
        if kind != 'single' and isinstance(inp, list) and inp and all(isinstance(x, str) for x in inp):
            return Result('skipped', False, None, 0)          # a list of texts is text input for a list grader
        if kind != 'single' and inp == []:
            return Result('skipped', False, None, 0)          # an empty list of boxes is a count problem, not a type problem

        def body(ch):
            try:
                return ('ok', g(None, inp))
            except Exception as e:
                return ('err', e)
        _, got = chooser.run_with(body)
        o, nt, v = judge(None, got, repr(inp), name, text_input=False)
        return Result(o, True, v, 1)


# ---------------------------------------------------------------------------------------------------------------
# Author-written code that fails while a submission is checked (documented: only exceptions inheriting from MITxError
# show their message; any other error is replaced by the generic message).  The oracle is a closed formula.

class AuthorError(StudentFacingError):
    """an author's own student-facing error class"""


class AuthorBug(Exception):
    """an author's own exception class outside the library's family"""


class ValueKeyError(ValueError, KeyError):
    """an exception with two built-in bases"""


SECRET = 'internal detail {0} %s\nsecond line <br/> of the traceback'


_FOREIGN = []


def foreign_kinds():
    if not _FOREIGN:
        _FOREIGN.append(_foreign_kinds())
    return _FOREIGN[0]


def _foreign_kinds():
    import numpy
    import voluptuous
    import pyparsing
    return collections.OrderedDict([
        ('ValueError', lambda: ValueError(SECRET)), ('TypeError', lambda: TypeError(SECRET)), ('KeyError', lambda: KeyError(SECRET)),
        ('IndexError', lambda: IndexError(SECRET)), ('AttributeError', lambda: AttributeError(SECRET)),
        ('ZeroDivisionError', lambda: ZeroDivisionError(SECRET)), ('OverflowError', lambda: OverflowError(34, SECRET)),
        ('FloatingPointError', lambda: FloatingPointError(SECRET)), ('ArithmeticError', lambda: ArithmeticError(SECRET)),
        ('RecursionError', lambda: RecursionError(SECRET)), ('RuntimeError', lambda: RuntimeError(SECRET)),
        ('NotImplementedError', lambda: NotImplementedError()), ('MemoryError', lambda: MemoryError()),
        ('AssertionError', lambda: AssertionError()), ('StopIteration', lambda: StopIteration(SECRET)),
        ('UnicodeDecodeError', lambda: UnicodeDecodeError('utf-8', b'\xff', 0, 1, SECRET)), ('OSError', lambda: OSError(2, SECRET)),
        ('TimeoutError', lambda: TimeoutError(SECRET)), ('ImportError', lambda: ImportError(SECRET)),
        ('ModuleNotFoundError', lambda: ModuleNotFoundError("No module named 'scipy'")), ('NameError', lambda: NameError(SECRET)),
        ('LookupError', lambda: LookupError(SECRET)), ('EOFError', lambda: EOFError(SECRET)), ('BufferError', lambda: BufferError(SECRET)),
        ('SystemError', lambda: SystemError(SECRET)), ('UserWarning', lambda: UserWarning(SECRET)),
        ('DeprecationWarning', lambda: DeprecationWarning(SECRET)), ('Exception', lambda: Exception(SECRET)),
        ('LinAlgError', lambda: numpy.linalg.LinAlgError(SECRET)), ('voluptuous.Invalid', lambda: voluptuous.Invalid(SECRET)),
        ('voluptuous.MultipleInvalid', lambda: voluptuous.MultipleInvalid([voluptuous.Invalid(SECRET)])),
        ('pyparsing.ParseException', lambda: pyparsing.ParseException(SECRET, 0, SECRET)),
        ('AuthorBug', lambda: AuthorBug(SECRET)), ('ValueKeyError', lambda: ValueKeyError(SECRET)),
    ])


LIBRARY_KINDS = collections.OrderedDict([
    ('MITxError', MITxError), ('ConfigError', ConfigError), ('StudentFacingError', StudentFacingError), ('InvalidInput', InvalidInput),
    ('InputTypeError', InputTypeError), ('MissingInput', MissingInput), ('CalcError', CalcError), ('UndefinedVariable', UndefinedVariable),
    ('MathArrayShapeError', MathArrayShapeError), ('AuthorError', AuthorError),
])
LIBRARY_MESSAGES = ['', 'plain', 'two\nlines', '\nleading and trailing\n', 'a\n\n\nb', 'already <br/> and\nbreak', 'braces {0} {x} }{\n{}',
                    'percent %s %d %\n%%', 'é １\nü', "Invalid Input: Could not check input 'x'\n(not really)"]
TEXTS = ['cat', '', ' ', "it's", '{', '}', '{0}', '{x}', '{}', '{0', '%s', '%d%%', '%(a)s', 'a\nb', '<br/>', 'é１', '\\', '"',
         "', '", 'x' * 300, '\t', 'None', '0']
FORMULA_TEXTS = ['1', ' x ', 'a_{1}', 'a_{0} + a_{-2}', "x'", '2*a_{1}^2']


class Exploding(ItemGrader):
    """An author-written grading class (public extension point: subclass ItemGrader, implement check_response) whose
    check_response always fails with the configured exception."""
    @property
    def schema_config(self):
        return super(Exploding, self).schema_config.extend({Required('kind'): str, Required('emsg', default=''): str})

    def check_response(self, answer, student_input, **kwargs):
        raise make_exception(self.config['kind'], self.config['emsg'])


def make_exception(kind, emsg):
    if kind in LIBRARY_KINDS:
        return LIBRARY_KINDS[kind](emsg)
    return foreign_kinds()[kind]()


def exploding_wrapper(w, kind, emsg):
    """the grader in which the failing author code is used as `w`"""
    E = lambda: Exploding(answers='cat', kind=kind, emsg=emsg)

    def comparer(comparer_params_eval, student_eval, utils):
        raise make_exception(kind, emsg)
    fscope = dict(variables=['x', "x'"], numbered_vars=['a'], samples=2)
    if w == 'item':
        return E()
    if w == 'single_list_item':
        return SingleListGrader(answers=['cat', 'dog'], subgrader=E(), delimiter=';', missing_error=False)
    if w == 'list_box':
        return ListGrader(answers=['cat', 'dog'], subgraders=E())
    if w == 'list_later_box_only':
        return ListGrader(answers=['cat', 'dog'], subgraders=[StringGrader(), E()], ordered=True)
    if w == 'list_grouped':
        return ListGrader(answers=[['cat', 'dog'], ['cat', 'dog']], subgraders=ListGrader(subgraders=E()), grouping=[1, 1, 2, 2])
    if w == 'formula_comparer':
        return FormulaGrader(answers={'comparer': comparer, 'comparer_params': ['1']}, **fscope)
    if w == 'formula_comparer_in_list':
        return ListGrader(answers=[{'comparer': comparer, 'comparer_params': ['1']}, '1'], subgraders=FormulaGrader(**fscope), ordered=True)
    raise HarnessError('unknown wrapper %r' % (w,))


WRAPPER_NAMES = ['item', 'single_list_item', 'list_box', 'list_later_box_only', 'list_grouped', 'formula_comparer',
                 'formula_comparer_in_list']
WRAPPER_BOXES = {'item': 1, 'single_list_item': 1, 'list_box': 2, 'list_later_box_only': 2, 'list_grouped': 4, 'formula_comparer': 1,
                 'formula_comparer_in_list': 2}


class AuthorCodeFails(Family):
    name = 'author_code_failures'
    timeout = 10.0
    timeout_sig = 'non-termination'
    rule = ('an author-written ItemGrader subclass / comparer function that raises, used alone, as the item grader of a SingleListGrader, '
            'as the grader of every box / of a later box only / of grouped boxes of a ListGrader, and as the comparer of a FormulaGrader '
            '(alone and in a list); x %d exception classes outside the library family (built-ins incl. MemoryError, ImportError, '
            'StopIteration, warnings; numpy, voluptuous, pyparsing; author-defined; two bases) x %d student texts (blank, quotes, braces, '
            'percent signs, line break, <br/>, non-ASCII, the separator of the list message itself, 300 characters; formulas with '
            'numbered variables a_{1}) in every box position: exactly the generic StudentFacingError naming the submission, nothing of '
            'the internal message; x %d library classes (incl. the base class and an author subclass) x %d messages (empty, several / '
            'leading / trailing / consecutive line breaks, braces, percent signs, literal <br/>, non-ASCII): same class, every line '
            'break as <br/>' % (len(foreign_kinds()), len(TEXTS), len(LIBRARY_KINDS), len(LIBRARY_MESSAGES)))

    def setup(self, tier):
        self.cache = {}

    def cases(self, tier):
        fk = list(foreign_kinds())
        for w in WRAPPER_NAMES:
            ntexts = len(FORMULA_TEXTS) if w.startswith('formula') else len(TEXTS)
            for k in range(len(fk)):
                for t in range(ntexts):
                    for pos in range(WRAPPER_BOXES[w]):
                        yield (w, 'foreign', k, 0, t, pos)
            for k in range(len(LIBRARY_KINDS)):
                for m in range(len(LIBRARY_MESSAGES)):
                    for t in (0, 2 if w.startswith('formula') else 6):
                        for pos in range(WRAPPER_BOXES[w]):
                            yield (w, 'library', k, m, t, pos)

    def unpack(self, case):
        w, fam, k, m, t, pos = case
        kind = list(foreign_kinds())[k] if fam == 'foreign' else list(LIBRARY_KINDS)[k]
        emsg = LIBRARY_MESSAGES[m] if fam == 'library' else ''
        texts = FORMULA_TEXTS if w.startswith('formula') else TEXTS
        n = WRAPPER_BOXES[w]
        filler = '1' if w.startswith('formula') else 'cat'
        inp = texts[t] if n == 1 else [texts[t] if i == pos else filler for i in range(n)]
        return w, fam, kind, emsg, inp

    def describe(self, case):
        w, fam, kind, emsg, inp = self.unpack(case)
        return {'used_as': w, 'raises': kind, 'message': emsg if fam == 'library' else SECRET, 'student_input': inp}

    def check(self, case):
        w, fam, kind, emsg, inp = self.unpack(case)
        key = (w, kind, emsg)
        if key not in self.cache:
            if len(self.cache) > 400:
                self.cache.clear()
            self.cache[key] = exploding_wrapper(w, kind, emsg)
        g = self.cache[key]
        fresh_parser_every(self, 5000)

        def body(ch):
            try:
                return ('ok', g(None, inp))
            except BaseException as e:
                if isinstance(e, (KeyboardInterrupt, SystemExit)) or type(e).__name__ == 'Watchdog':
                    raise
                return ('err', e)
        _, got = chooser.run_with(body)
        where = '%s raising %s, input %r' % (w, kind, inp)
        if got[0] == 'ok':
            return Result('graded', True, viol('%s:failure-swallowed:%s' % (w, kind), '%s: a result was returned: %r' % (where, got[1])), 1)
        e = got[1]
        name = type(e).__name__
        msg = str(e)
        if fam == 'foreign':
            if not isinstance(e, MITxError):
                return Result('escaped:' + name, True, viol('%s:foreign-exception-escapes:%s' % (w, name),
                                                            '%s: %s escaped the grader: %s' % (where, name, msg[:200]),
                                                            'StudentFacingError', repr(e)[:300]), 1)
            if type(e) is not StudentFacingError:
                return Result('internal-wrong-class', True, viol('%s:internal-failure-not-generic:%s->%s' % (w, kind, name),
                                                                 '%s: surfaced as %s: %s' % (where, name, msg[:200]), 'StudentFacingError', name), 1)
            if msg != generic_message(inp):
                return Result('internal-wrong-message', True,
                              viol('%s:generic-message-wrong' % w, '%s: message %r, expected %r' % (where, msg[:300], generic_message(inp)[:300]),
                                   generic_message(inp)[:400], msg[:400]), 1)
            return Result('generic', True, None, 1)
        cls = LIBRARY_KINDS[kind]
        if type(e) is not cls:
            return Result('class-changed', True, viol('%s:error-class-changed:%s->%s' % (w, kind, name),
                                                      '%s (message %r): surfaced as %s: %s' % (where, emsg, name, msg[:200]), kind, name), 1)
        exp = emsg.replace('\n', '<br/>')
        if msg != exp:
            return Result('message-changed', True, viol('%s:error-message-changed' % w,
                                                        '%s: message %r, expected %r' % (where, msg[:300], exp[:300]), exp[:400], msg[:400]), 1)
        return Result('kept:' + kind, True, None, 1)


class NaturalInternalFailures(Family):
    name = 'internal_failures_with_braces'
    timeout = 10.0
    timeout_sig = 'non-termination'
    rule = ('the parallel operator applied to a vector (an internal failure that is not anticipated: the debug twin shows a raw built-in '
            'exception) in formulas that contain numbered / tensor-style variable names with curly braces and primes, submitted to a '
            'MatrixGrader alone, in both boxes of a ListGrader and as an item of a SingleListGrader: the generic message must quote '
            'the submission verbatim, braces included')
    FORMULAS = ['1||[1,2]', 'a_{1}||[1,2]', '[1,2]||a_{0}', "x'||[a_{1},a_{-2}]", 'a_{12}*([1,2]||[1,2])', 'a_{1}||[1,2]+{', '}||[1,2]',
                '1e308+a_{1}', 'abs(1e308)*a_{1}/a_{1}']

    def graders(self, debug):
        d = dbg(debug)
        scope = dict(variables=['x', "x'"], numbered_vars=['a'], sample_from={'a': [1, 1.5]}, samples=2)
        return {
            'Matrix': MatrixGrader(answers='[1,2]', **dict(scope, **d)),
            'Formula': FormulaGrader(answers="x'+a_{1}", **dict(scope, **d)),
            'List': ListGrader(answers=['[1,2]', 'x'], subgraders=MatrixGrader(**dict(scope, **d)), **d),
            'SingleList': SingleListGrader(answers=['[1,2]', 'x'], subgrader=MatrixGrader(**scope), delimiter=';', **d),
        }

    def setup(self, tier):
        self.gd = self.graders(True)
        self.gn = self.graders(False)

    def cases(self, tier):
        for g in ('Matrix', 'Formula', 'List', 'SingleList'):
            for i in range(len(self.FORMULAS)):
                for pos in range(2 if g in ('List', 'SingleList') else 1):
                    yield (g, i, pos)

    def describe(self, case):
        return {'grader': case[0], 'input': self.build(case)}

    def build(self, case):
        g, i, pos = case
        s = self.FORMULAS[i]
        if g == 'List':
            return [s, 'x'] if pos == 0 else ['x', s]
        if g == 'SingleList':
            return s + ';x' if pos == 0 else 'x;' + s
        return s

    def check(self, case):
        inp = self.build(case)
        raw, got = run_pair(self.gd[case[0]], self.gn[case[0]], inp)
        o, nt, v = judge(raw, got, inp, case[0] + ':braces')
        return Result(o, nt, v, 2)


# ---------------------------------------------------------------------------------------------------------------
# Non-text entries at EVERY position of a list of boxes, falsy objects, containers of the right length that are not lists

def entry_objects():
    return [None, 0, 1, 0.0, 1.5, float('nan'), False, True, b'', b'1', bytearray(b'1'), (), ('1',), [], ['1'], {}, {'1': 1}, set(),
            frozenset(['1']), 1j, object(), str, range(1), Ellipsis]


def whole_objects(valid):
    """objects built from the valid texts of a grader that are not a list of texts / not a text"""
    import numpy
    texts = valid if isinstance(valid, list) else [valid]
    objs = [tuple(texts), tuple(tuple([t]) for t in texts), dict.fromkeys(texts), dict(enumerate(texts)), set(texts[:1]),
            frozenset(texts[:1]), iter(texts), (t for t in texts), range(len(texts)), numpy.array(texts), numpy.array(texts, dtype=object),
            ','.join(texts).encode(), bytearray(','.join(texts).encode()), collections.deque(texts), len(texts)]
    if isinstance(valid, list):
        objs += [[texts], [tuple(texts)], [[t] for t in texts], texts + [None], [None] + texts, texts[:-1] + [texts[-1].encode()]]
    else:
        objs += [0, 0.0, False, b'', (), {}, set(), 1j, float('nan'), [valid], [[valid]], (valid,), [valid, valid], [valid, None], [None, valid],
                 [0], [b''], [False]]
    return objs


def position_graders():
    g = {}
    for k, (gr, kind) in list_graders(False).items():
        g[k] = (gr, None)
    for k, gr in math_graders(False).items():
        g[k] = (gr, None)
    isub = lambda: FormulaGrader(variables=['x'])
    # graders WITHOUT configured answers, called with an expect value (answers are inferred from it before grading)
    g['Infer:String'] = (StringGrader(), 'cat')
    g['Infer:StringAcceptAny'] = (StringGrader(accept_any=True), None)
    g['Infer:Formula'] = (FormulaGrader(variables=['x']), 'x')
    g['Infer:Numerical'] = (NumericalGrader(), '1')
    g['Infer:Matrix'] = (MatrixGrader(), '[1,2]')
    g['Infer:SingleList'] = (SingleListGrader(subgrader=isub()), '1,x')
    g['Infer:Interval'] = (IntervalGrader(), '[1,2)')
    return g


VALID = {'SingleList': '1,x', 'SingleListSemi': '1;x', 'SingleListNested': '1,x;x,1', 'Interval': '[1,2)', 'IntervalFormula': '[x,2*x]',
         'String': '1', 'List2': ['1', 'x'], 'List2Ordered': ['1', '1+x'], 'List3Siblings': ['x+y', 'x', 'y'],
         'ListGrouped': ['1', 'x', 'x', '1'], 'Sum': ['1', '3', 'x', 'x'], 'Sum1': 'n', 'ListMixed': ['1', 'x'],
         'ListOfSingleLists': ['1,x', 'x,1'], 'ListAlternatives': ['1', 'x'], 'Formula': 'x+1', 'Numerical': '2.5', 'Matrix': '[1,2]',
         'Infer:String': 'cat', 'Infer:StringAcceptAny': 'cat', 'Infer:Formula': 'x', 'Infer:Numerical': '1', 'Infer:Matrix': '[1,2]',
         'Infer:SingleList': '1,x', 'Infer:Interval': '[1,2)'}


class NonTextPositions(Family):
    name = 'non_text_positions'
    timeout = 10.0
    timeout_sig = 'non-termination'
    rule = ('every grader of the shapes families, the three formula graders, and 7 item graders WITHOUT configured answers called with an '
            'expect value (answers inferred first); the fully CORRECT submission of each with (a) one box at a time -- every position, '
            'first to last -- replaced by each of %d non-text objects (None, 0, 0.0, nan, False, True, empty and non-empty bytes / tuple '
            '/ list / dict / set, complex, object, a class, range, Ellipsis), (b) the whole submission replaced by a tuple / tuple of '
            'tuples / dict / set / iterator / generator / range / numpy array / bytes / deque of the right length built from the '
            'correct texts, a list nested once more, a list with a surplus None, and for single-box graders falsy objects and short '
            'lists; thorough: (c) two boxes at a time replaced by every ordered pair of the objects: always ConfigError, never a grade '
            '(a text control case must be graded)' % len(entry_objects()))

    def setup(self, tier):
        self.g = position_graders()

    def cases(self, tier):
        names = list(position_graders().keys())
        nobj = len(entry_objects())
        for n in names:
            v = VALID[n]
            yield (n, 'control', 0, 0)
            if isinstance(v, list):
                for pos in range(len(v)):
                    for o in range(nobj):
                        yield (n, 'entry', pos, o)
            for o in range(len(whole_objects(v))):
                yield (n, 'whole', 0, o)
            if isinstance(v, list) and tier == 'thorough':
                # two non-text entries at a time: every pair of positions x every ordered pair of objects
                for p1 in range(len(v)):
                    for p2 in range(p1 + 1, len(v)):
                        for o1 in range(nobj):
                            for o2 in range(nobj):
                                yield (n, 'pair', p1 * 10 + p2, o1 * 100 + o2)

    def build(self, case):
        n, mode, pos, o = case
        v = VALID[n]
        if mode == 'control':
            return list(v) if isinstance(v, list) else v
        if mode == 'entry':
            inp = list(v)
            inp[pos] = entry_objects()[o]
            return inp
        if mode == 'pair':
            inp = list(v)
            inp[pos // 10] = entry_objects()[o // 100]
            inp[pos % 10] = entry_objects()[o % 100]
            return inp
        return whole_objects(v)[o]

    def describe(self, case):
        return {'grader': case[0], 'input': repr(self.build(case))[:200]}

    def check(self, case):
        n, mode, pos, o = case
        g, expect = self.g[n]
        inp = self.build(case)
        shown = repr(inp)[:200]
        if n == 'Sum1' and isinstance(inp, list) and len(inp) == 1 and isinstance(inp[0], str):
            return Result('skipped', False, None, 0)          # SumGrader documents a one-element list for a single box

        def body(ch):
            try:
                return ('ok', g(expect, inp))
            except Exception as e:
                return ('err', e)
        _, got = chooser.run_with(body)
        if mode == 'control':
            if got[0] != 'ok' or (got[1].get('ok') if 'ok' in got[1] else all(x['ok'] for x in got[1]['input_list'])) is not True:
                raise HarnessError('control submission %r of %s is not graded correct: %r' % (inp, n, got))
            return Result('control-graded', False, None, 1)
        o_, nt, v = judge(None, got, shown, n + ':' + mode, text_input=False)
        return Result(o_, True, v, 1)


def families(tier):
    return [
        TokenStrings('token_strings', TOKENS, {'quick': 4, 'thorough': 5}),
        TokenStrings('foreign_tokens', FOREIGN + ['2', 'x', '+', '('], {'quick': 2, 'thorough': 3},
                     note=' (non-ASCII digits/operators/whitespace, quotes, braces, control characters)'),
        Hostile(),
        Nesting(),
        ListShapes(),
        Anticipated(),
        NonText(),
        Refusals(),
        AnticipatedElsewhere('anticipated_through_wrappers'),
        AnticipatedElsewhere('anticipated_at_length'),
        AnticipatedElsewhere('anticipated_zero_and_overflow_forms'),
        AuthorCodeFails(),
        NaturalInternalFailures(),
        NonTextPositions(),
    ]
