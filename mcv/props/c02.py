"""
C02 -- grading failures surface only as library errors with student-safe messages.

ENUM: every token string up to a length bound, every hostile expression up to depth 2, deep
nestings, list/interval/sum shapes and non-text objects are submitted twice: to a grader built
with debug=True (the documented way to see the untranslated failure: the front door re-raises
whatever happened) and to an identically configured grader with debug=False under the same RNG
schedule.  A reference model of the front door predicts the debug=False outcome from the raw one.
"""
import itertools
from ..core import Family, Result, viol, HarnessError
from .. import chooser

from mitxgraders import (StringGrader, FormulaGrader, NumericalGrader, MatrixGrader, SingleListGrader, ListGrader,
                         IntervalGrader, SumGrader, MathArray, RealMatrices, DiscreteSet)
from mitxgraders.exceptions import MITxError, StudentFacingError, ConfigError
import mitxgraders.helpers.calc.expressions as X

PROPERTY = 'C02'
RULE = ('all token strings up to a length bound x 3 math graders; all f(leaf), f(leaf,leaf), leaf op leaf and one more level over '
        'hostile leaves; nesting depths; list / interval / sum shapes; non-text objects x every grader class; a case is '
        'non-trivial when the raw (debug=True) outcome is an exception')
EXPLANATION = ('states = distinct (grader, input) cases; transitions = real grader calls (debug twin + debug-off grader)')
ASSUMPTIONS = ['the debug=True twin shows the raw outcome (documented behaviour of debug mode)',
               'reference model of the front door: raw result -> result; raw library error -> same class, message with line breaks as <br/>; '
               'any other raw exception -> StudentFacingError "Invalid Input: Could not check input(s) ..." naming the submission',
               'numerically huge loop bounds are outside the alphabet; a case that needs > 10 s is reported as non-termination']


def run_pair(gd, gn, inp):
    def body_d(ch):
        try:
            return ('ok', gd(None, inp))
        except BaseException as e:
            if isinstance(e, (KeyboardInterrupt, SystemExit)) or type(e).__name__ == 'Watchdog':
                raise
            return ('err', e)

    def body_n(ch):
        try:
            return ('ok', gn(None, inp))
        except BaseException as e:
            if isinstance(e, (KeyboardInterrupt, SystemExit)) or type(e).__name__ == 'Watchdog':
                raise
            return ('err', e)
    _, raw = chooser.run_with(body_d)
    _, got = chooser.run_with(body_n)
    return raw, got


def generic_message(inp):
    if isinstance(inp, list):
        return "Invalid Input: Could not check inputs '%s'" % "', '".join(inp)
    return "Invalid Input: Could not check input '%s'" % inp


def judge(raw, got, inp, tag, text_input=True):
    """returns (outcome, nontrivial, violation)"""
    where = 'input %r' % (inp,)
    if not text_input:
        if got[0] == 'ok':
            return 'nontext-graded', True, viol(tag + ':non-text-input-graded', '%s was graded: %r' % (where, got[1]), 'ConfigError', got[1])
        e = got[1]
        if not isinstance(e, ConfigError):
            return 'nontext-wrong-error', True, viol(tag + ':non-text-input-not-a-ConfigError:' + type(e).__name__,
                                                     '%s raised %s: %s' % (where, type(e).__name__, e), 'ConfigError', repr(e))
        return 'nontext:ConfigError', True, None
    if got[0] == 'ok':
        if raw[0] == 'err' and isinstance(raw[1], MITxError):
            return 'result', True, viol(tag + ':error-with-debug-but-result-without', '%s: debug twin raised %r, debug-off returned %r'
                                        % (where, raw[1], got[1]), repr(raw[1]), got[1])
        return 'result', raw[0] == 'err', None
    e = got[1]
    name = type(e).__name__
    if not isinstance(e, MITxError):
        return 'escaped:' + name, True, viol(tag + ':foreign-exception-escapes:' + name,
                                             '%s: %s escaped the grader: %s' % (where, name, str(e)[:200]), 'a library error', repr(e)[:300])
    msg = str(e)
    if '\n' in msg.replace('<br/>\n', ''):
        return 'newline', True, viol(tag + ':raw-line-break-in-message', '%s: message of %s contains a raw line break: %r' % (where, name, msg[:200]))
    if raw[0] == 'ok':
        return 'raised-without-debug-only', True, viol(tag + ':result-with-debug-but-error-without',
                                                       '%s: debug twin returned a result, debug-off raised %s: %s' % (where, name, msg[:200]))
    r = raw[1]
    if isinstance(r, MITxError):
        exp_msg = str(r).replace('\n', '<br/>')
        if type(e) is not type(r):
            return 'class-changed', True, viol(tag + ':error-class-changed:%s->%s' % (type(r).__name__, name),
                                               '%s: anticipated error %s surfaced as %s' % (where, type(r).__name__, name),
                                               type(r).__name__, name)
        if msg != exp_msg:
            return 'message-changed', True, viol(tag + ':error-message-changed', '%s: message %r, expected %r' % (where, msg[:200], exp_msg[:200]),
                                                 exp_msg[:300], msg[:300])
        return 'kept:' + name, True, None
    # unanticipated internal failure
    if type(e) is not StudentFacingError:
        return 'internal-wrong-class', True, viol(tag + ':internal-failure-not-generic:%s->%s' % (type(r).__name__, name),
                                                  '%s: internal %s surfaced as %s: %s' % (where, type(r).__name__, name, msg[:200]),
                                                  'StudentFacingError', name)
    if msg != generic_message(inp):
        return 'internal-wrong-message', True, viol(tag + ':generic-message-wrong', '%s: message %r, expected %r' % (where, msg[:200], generic_message(inp)),
                                                    generic_message(inp), msg[:300])
    return 'generic<-' + type(r).__name__, True, None


def fresh_parser_every(fam, n=20000):
    fam._n = getattr(fam, '_n', 0) + 1
    if fam._n % n == 0:
        X.PARSER = X.MathParser()


def math_graders(debug):
    A = MathArray([[1.0, 2.0], [3.0, 5.0]])
    return {
        'Formula': FormulaGrader(answers='x+1', variables=['x', 'n'], user_functions={'f': lambda t: t * t - 3}, debug=debug,
                                 sample_from={'x': [2, 3], 'n': DiscreteSet((7,))}, user_constants={'m': 6}, samples=2),
        'Numerical': NumericalGrader(answers='2.5', debug=debug),
        'Matrix': MatrixGrader(answers='[1,2]', variables=['x', 'A'], sample_from={'A': DiscreteSet(A)}, max_array_dim=2,
                               user_functions={'f': lambda t: t * t - 3}, debug=debug, samples=2),
    }


TOKENS = ['2', '3.5', 'x', 'f', '+', '-', '*', '/', '^', '||', '(', ')', '[', ']', ',']
FOREIGN = ['²', '１', ';', '\t', "'", '_', '{', '}', '%', '.', 'e', '—', ' ', '!', '=', '"', '\\', '\n', 'ı', '∞', '<br/>', '<b>', '&lt;']


class TokenStrings(Family):
    timeout = 10.0
    timeout_sig = 'non-termination'

    def __init__(self, name, tokens, maxlen, note=''):
        self.name = name
        self.tokens = tokens
        self.maxlen = maxlen
        self.rule = ('every concatenation of 1..%s tokens from %r submitted to Formula, Numerical and Matrix graders (debug twin + debug-off)%s'
                     % (maxlen, tokens, note))

    def setup(self, tier):
        self.gd = math_graders(True)
        self.gn = math_graders(False)

    def cases(self, tier):
        n = self.maxlen[tier]
        idx = range(len(self.tokens))
        for L in range(1, n + 1):
            for tup in itertools.product(idx, repeat=L):
                yield tup

    def describe(self, case):
        return ''.join(self.tokens[i] for i in case)

    def check(self, case):
        s = ''.join(self.tokens[i] for i in case)
        fresh_parser_every(self)
        calls = 0
        nontriv = False
        outcome = None
        for k in ('Formula', 'Numerical', 'Matrix'):
            raw, got = run_pair(self.gd[k], self.gn[k], s)
            calls += 2
            o, nt, v = judge(raw, got, s, k)
            nontriv = nontriv or nt
            if v:
                return Result(o, True, v, calls)
            outcome = outcome or o
        return Result(outcome, nontriv, None, calls)


LEAVES = ['0', '1', '-1', '0.5', '1e308', '1e-308', 'i', '[1,2]', '[1,2,3]', '[[1,2],[3,4]]', '[[1,2,3],[4,5,6]]', 'x', 'A']
OPS = ['+', '-', '*', '/', '^', '||']


def function_names():
    from mitxgraders.helpers.calc import mathfuncs as MF
    names = sorted(set(MF.DEFAULT_FUNCTIONS) | set(MF.ARRAY_ONLY_FUNCTIONS))
    return [n for n in names if n not in ('fact', 'factorial')]


class Hostile(Family):
    name = 'hostile_expressions'
    timeout = 10.0
    timeout_sig = 'non-termination'
    rule = ('leaves %r; depth 1: every f(leaf), f(leaf,leaf) for every default function (both tables, except factorial) and every '
            'leaf op leaf; depth 2 over the depth-1 expressions that are not plain arity errors (thorough: all; quick: every 23rd): op(depth1, leaf), op(leaf, depth1), f(depth1); submitted to the '
            'Matrix grader (array-aware) and the Formula grader' % (LEAVES,))

    def setup(self, tier):
        self.gd = math_graders(True)
        self.gn = math_graders(False)
        self.funcs = function_names()

    @staticmethod
    def top_level_args(s):
        depth = 0
        n = 1
        for ch in s[s.index('(') + 1:-1] if '(' in s else '':
            if ch in '([':
                depth += 1
            elif ch in ')]':
                depth -= 1
            elif ch == ',' and depth == 0:
                n += 1
        return n

    def depth1(self):
        funcs = function_names()
        for f in funcs:
            for a in LEAVES:
                yield '%s(%s)' % (f, a)
        for f in funcs:
            for a in LEAVES:
                for b in LEAVES:
                    yield '%s(%s,%s)' % (f, a, b)
        for o in OPS:
            for a in LEAVES:
                for b in LEAVES:
                    yield '%s%s%s' % (a, o, b)

    def cases(self, tier):
        d1 = list(self.depth1())
        for s in d1:
            yield s
        funcs = function_names()
        k = 0
        multi = ('arctan2', 'kronecker', 'min', 'max', 'cross')
        d1small = [s for s in d1 if s.count(',') == s.count('[,') or s.split('(')[0] in multi or s[0] in '0123456789-i[xA']
        d1small = [s for s in d1small if not (s.split('(')[0] in funcs and s.split('(')[0] not in multi and self.top_level_args(s) > 1)]
        step = 1 if tier == 'thorough' else 23
        for s in d1small:
            for o in OPS:
                for a in LEAVES[:9] + ['A']:
                    k += 1
                    if k % step == 0:
                        yield '(%s)%s%s' % (s, o, a)
                    k += 1
                    if k % step == 0:
                        yield '%s%s(%s)' % (a, o, s)
        for s in d1small:
            for f in funcs:
                k += 1
                if k % step == 0:
                    yield '%s(%s)' % (f, s)

    def check(self, case):
        s = case
        fresh_parser_every(self, 5000)
        calls = 0
        nontriv = False
        outcome = None
        for k in ('Matrix', 'Formula'):
            raw, got = run_pair(self.gd[k], self.gn[k], s)
            calls += 2
            o, nt, v = judge(raw, got, s, k + ':hostile')
            nontriv = nontriv or nt
            if v:
                return Result(o, True, v, calls)
            outcome = outcome or o
        return Result(outcome, nontriv, None, calls)


class Nesting(Family):
    name = 'nesting_depth'
    timeout = 60.0
    timeout_sig = 'non-termination'
    rule = 'k opening brackets, 1, k closing brackets for k in {10, 70, 200, 1200} with ( and [ and f(, plus unbalanced variants; 3 graders'

    def setup(self, tier):
        self.gd = math_graders(True)
        self.gn = math_graders(False)

    def cases(self, tier):
        for k in (10, 70, 200, 1200):
            for form in range(7):
                yield (k, form)

    def text(self, k, form):
        if form == 0:
            return '(' * k + '1' + ')' * k
        if form == 1:
            return '[' * k + '1' + ']' * k
        if form == 2:
            return 'f(' * k + '1' + ')' * k
        if form == 3:
            return '(' * k + '1' + ')' * (k - 1)
        if form == 4:
            return '[' * k
        if form == 5:
            return '-' * 1 + '(' * k + 'x' + ')' * k + '^2' * 3
        return '2' + '^2' * k

    def describe(self, case):
        return {'k': case[0], 'form': self.text(3, case[1]) + '  (shown for k=3)'}

    def check(self, case):
        k, form = case
        s = self.text(k, form)
        X.PARSER = X.MathParser()
        calls = 0
        outcome = None
        for g in ('Formula', 'Numerical', 'Matrix'):
            raw, got = run_pair(self.gd[g], self.gn[g], s)
            calls += 2
            o, nt, v = judge(raw, got, s, g + ':nesting')
            if v:
                v['msg'] = v['msg'][:400]
                return Result(o, True, v, calls)
            outcome = outcome or o
        return Result(outcome, True, None, calls)


ITEMS = ['1', 'x', '', ' ', '1+', '(', 'a,b', ';', '[', ']', '1,2']


def list_graders(debug):
    sub = lambda: FormulaGrader(variables=['x'], debug=debug)
    # subgraders of SingleList/Interval graders do not share the parent's debug log (a debug=True subgrader there fails
    # with AttributeError in debug mode only, which would hide the raw outcome): only the outer grader is the debug twin
    isub = lambda: FormulaGrader(variables=['x'])
    return {
        'SingleList': (SingleListGrader(answers=['1', 'x'], subgrader=isub(), debug=debug), 'single'),
        'SingleListSemi': (SingleListGrader(answers=['1', 'x'], subgrader=isub(), delimiter=';', length_error=True, debug=debug), 'single'),
        'SingleListNested': (SingleListGrader(answers=[['1', 'x'], ['x', '1']], subgrader=SingleListGrader(subgrader=isub()),
                                              delimiter=';', debug=debug), 'single'),
        'Interval': (IntervalGrader(answers='[1,2)', debug=debug), 'single'),
        'IntervalFormula': (IntervalGrader(answers='[x,2*x]', subgrader=isub(), debug=debug), 'single'),
        'String': (StringGrader(answers='1', debug=debug), 'single'),
        'List2': (ListGrader(answers=['1', 'x'], subgraders=sub(), debug=debug), 'list2'),
        'List2Ordered': (ListGrader(answers=['1', 'sibling_1+x'], subgraders=sub(), ordered=True, debug=debug), 'list2'),
        'List3Siblings': (ListGrader(answers=['sibling_2+sibling_3', 'x', 'y'], subgraders=FormulaGrader(variables=['x', 'y'], debug=debug),
                                     ordered=True, debug=debug), 'list3'),
        'ListGrouped': (ListGrader(answers=[['1', 'x'], ['x', '1']], subgraders=ListGrader(subgraders=sub(), debug=debug),
                                   grouping=[1, 1, 2, 2], debug=debug), 'list4'),
        'Sum': (SumGrader(answers=dict(lower='1', upper='3', summand='x', summation_variable='x'), debug=debug), 'list4'),
        'Sum1': (SumGrader(answers=dict(lower='1', upper='3', summand='n', summation_variable='n'), input_positions={'summand': 1},
                           debug=debug), 'single'),
    }


class ListShapes(Family):
    name = 'list_interval_sum_shapes'
    timeout = 8.0
    timeout_sig = 'non-termination'
    rule = ('SingleListGrader (two delimiters, nested), IntervalGrader, StringGrader, ListGrader (flat, ordered with siblings, grouped) and '
            'SumGrader: single-input graders get every delimiter-joined tuple of <=3 items from %r with , and ; and bracket characters; '
            'list graders get every tuple of the right length [4 boxes: over the first 6 items]' % (ITEMS,))

    def setup(self, tier):
        self.gd = list_graders(True)
        self.gn = list_graders(False)

    def cases(self, tier):
        names = list(list_graders(False).keys())
        kinds = {k: v[1] for k, v in list_graders(False).items()}
        for gname in names:
            kind = kinds[gname]
            if kind == 'single':
                for L in (1, 2, 3):
                    for tup in itertools.product(range(len(ITEMS)), repeat=L):
                        for d in (',', ';'):
                            if L == 1 and d == ';':
                                continue
                            yield (gname, d.join(ITEMS[i] for i in tup))
                for s in ('[1,2)', '(1,2]', '[1,2', '1,2)', '[1;2)', '[[1,2))', '[,]', '[1,,2)', '{1,2}', '[1,2)x', ' [ 1 , 2 ) ', '[x,2*x]',
                          '[1/0,2]', '[1,infty)', '[infty,1]', '(-infty,infty)'):
                    yield (gname, s)
            elif kind == 'list2':
                for tup in itertools.product(range(len(ITEMS)), repeat=2):
                    yield (gname, [ITEMS[i] for i in tup])
            elif kind == 'list3':
                items3 = ['x', 'y', 'x+y', 'q', '1', '', 'sibling_1', 'sibling_3', '1+', '(']
                for tup in itertools.product(range(len(items3)), repeat=3):
                    yield (gname, [items3[i] for i in tup])
            else:
                items = ITEMS[:6] + ['3', 'n']
                rng = range(len(items)) if tier == 'thorough' else range(6)
                for tup in itertools.product(rng, repeat=4):
                    yield (gname, [items[i] for i in tup])

    def check(self, case):
        gname, inp = case
        fresh_parser_every(self, 5000)
        raw, got = run_pair(self.gd[gname][0], self.gn[gname][0], inp)
        o, nt, v = judge(raw, got, inp, gname)
        return Result(o, nt, v, 2)


ANTICIPATED = [
    # (grader key, input, documented problem, acceptable specific error classes)
    ('Formula', 'x+', 'malformed formula', ('UnableToParse',)),
    ('Formula', '(x', 'unbalanced bracket', ('UnbalancedBrackets',)),
    ('Formula', 'x)', 'unbalanced bracket', ('UnbalancedBrackets',)),
    ('Formula', '[x)', 'mismatched bracket', ('UnbalancedBrackets',)),
    ('Formula', 'y+1', 'unknown variable', ('UndefinedVariable',)),
    ('Formula', 'X+1', 'wrong case variable', ('UndefinedVariable',)),
    ('Formula', 'g(x)', 'unknown function', ('UndefinedFunction',)),
    ('Formula', 'Sin(x)', 'wrong case function', ('UndefinedFunction',)),
    ('Formula', '2q', 'unknown suffix', ('UndefinedFunction',)),
    ('Formula', '1/0', 'division by zero', ('CalcZeroDivisionError',)),
    ('Formula', 'x/(x-x)', 'division by zero', ('CalcZeroDivisionError',)),
    ('Formula', '0^-1', 'division by zero', ('CalcZeroDivisionError',)),
    ('Formula', '10^400', 'overflow', ('CalcOverflowError',)),
    ('Formula', '2^2^2^2^2', 'overflow', ('CalcOverflowError',)),
    ('Formula', 'exp(1000)', 'overflow in function', ('CalcOverflowError',)),
    # towers built only from INTEGER-valued variables / constants (n is drawn from an integer set, m = 6)
    ('Formula', 'n^n^n', 'overflow in an integer-valued power tower', ('CalcOverflowError',)),
    ('Formula', 'm^m^m', 'overflow in an integer-valued power tower', ('CalcOverflowError',)),
    ('Formula', 'n^n^n^n', 'overflow in an integer-valued power tower', ('CalcOverflowError',)),
    ('Formula', 'm^n^m^n', 'overflow in an integer-valued power tower', ('CalcOverflowError',)),
    ('Formula', 'n^m^n^m^n', 'overflow in an integer-valued power tower', ('CalcOverflowError',)),
    ('Formula', 'sin(1,2)', 'wrong number of arguments', ('ArgumentError',)),
    ('Formula', 'arctan2(1)', 'wrong number of arguments', ('ArgumentError',)),
    ('Formula', 'f(1,2)', 'wrong number of arguments (user function)', ('ArgumentError',)),
    ('Formula', 'min(1)', 'too few arguments', ('ArgumentError',)),
    ('Formula', 'ln(0)', 'function outside its domain', ('FunctionEvalError', 'CalcZeroDivisionError', 'CalcOverflowError')),
    ('Formula', 'cot(0)', 'pole', ('CalcZeroDivisionError', 'FunctionEvalError')),
    ('Formula', '[1,2]', 'vector where forbidden', ('UnableToParse',)),
    ('Matrix', '[1,2]+[1,2,3]', 'adding different shapes', ('MathArrayShapeError',)),
    ('Matrix', '[1,2]+1', 'adding a scalar to a vector', ('MathArrayError', 'MathArrayShapeError')),
    ('Matrix', '[[1,2],[3,4]]*[1,2,3]', 'incompatible product', ('MathArrayShapeError',)),
    ('Matrix', '[1,2]/[1,2]', 'division by a vector', ('MathArrayError', 'MathArrayShapeError')),
    ('Matrix', '[1,2]^2', 'power of a vector', ('MathArrayShapeError', 'MathArrayError')),
    ('Matrix', 'A^0.5', 'non-integer power of a matrix', ('MathArrayError',)),
    ('Matrix', 'A^i', 'complex power of a matrix', ('MathArrayError',)),
    ('Matrix', 'A^(1+i)', 'complex power of a matrix', ('MathArrayError',)),
    ('Matrix', '[[1,2],[2,4]]^-1', 'inverse of a singular matrix', ('MathArrayError',)),
    ('Matrix', '2^A', 'matrix exponent', ('MathArrayError', 'MathArrayShapeError')),
    ('Matrix', 'sin([1,2])', 'vector into a scalar function', ('ArgumentShapeError',)),
    ('Matrix', 'det([1,2])', 'vector into det', ('ArgumentShapeError',)),
    ('Matrix', 'cross([1,2],[3,4])', 'cross product of 2-vectors', ('ArgumentShapeError',)),
    ('Matrix', '[1,[2,3]]', 'ragged array', ('UnableToParse',)),
    ('Matrix', '[1,2]*[1,2]*[1,2]', 'triple vector product', ('CalcError',)),
    ('Matrix', '[[[1,2],[3,4]],[[5,6],[7,8]]]', 'tensor where forbidden', ('UnableToParse',)),
    ('Matrix', '[1,2,3]', 'answer of the wrong shape', ('InputTypeError',)),
    ('Matrix', '5', 'scalar for a vector answer', ('InputTypeError',)),
    ('Numerical', 'x', 'variable in a numerical answer', ('UndefinedVariable',)),
    ('Numerical', '2.5+', 'malformed number', ('UnableToParse',)),
]


class Anticipated(Family):
    name = 'anticipated_problems'
    timeout = 15.0
    timeout_sig = 'non-termination'
    rule = ('a table of %d documented, anticipated student mistakes (malformed / unbalanced formulas, unknown names, division by zero, '
            'overflow, wrong arity, function domain, shape-illegal array arithmetic incl. non-integer and COMPLEX matrix powers, wrong '
            'answer shape) submitted with debug off, alone and after all the others: each must surface as its specific documented '
            'error class with a message free of raw line breaks -- not as the generic "Could not check input" error' % len(ANTICIPATED))

    def setup(self, tier):
        self.gn = math_graders(False)

    def cases(self, tier):
        return iter(range(len(ANTICIPATED)))

    def describe(self, case):
        k, inp, what, classes = ANTICIPATED[case]
        return {'grader': k, 'input': inp, 'problem': what, 'expected_error': list(classes)}

    def check(self, case):
        # once on its own, once after every other anticipated mistake has been made (on the same graders): what one
        # student's mistake leaves behind must not change how the next one is reported
        res = self.check_one(case, ())
        if res.violation is None:
            res2 = self.check_one(case, [j for j in range(len(ANTICIPATED)) if j != case])
            if res2.violation is not None:
                res2.violation['sig'] = 'after-other-mistakes:' + res2.violation['sig']
                res2.violation['msg'] = 'after all other anticipated mistakes were submitted first: ' + res2.violation['msg']
                return res2
        return res

    def check_one(self, case, prelude):
        k, inp, what, classes = ANTICIPATED[case]
        g = self.gn[k]
        for j in prelude:
            kj, inpj = ANTICIPATED[j][0], ANTICIPATED[j][1]

            def pre(ch, kj=kj, inpj=inpj):
                try:
                    self.gn[kj](None, inpj)
                except Exception:
                    pass
            try:
                chooser.run_with(pre)
            except Exception:
                pass

        def body(ch):
            try:
                return ('ok', g(None, inp))
            except Exception as e:
                return ('err', e)
        _, got = chooser.run_with(body)
        if got[0] == 'ok':
            return Result('graded', True, viol('anticipated:graded-instead-of-error:' + what.replace(' ', '-'),
                                               '%s grader, input %r (%s): expected %s, but it was graded: %r' % (k, inp, what, '/'.join(classes), got[1]),
                                               list(classes), got[1]))
        e = got[1]
        names = [c.__name__ for c in type(e).__mro__]
        if not any(c in names for c in classes):
            return Result('wrong-class:' + type(e).__name__, True,
                          viol('anticipated:specific-error-lost:' + what.replace(' ', '-'),
                               '%s grader, input %r (%s): expected %s, got %s: %s' % (k, inp, what, '/'.join(classes), type(e).__name__, str(e)[:200]),
                               list(classes), '%s: %s' % (type(e).__name__, str(e)[:200])))
        if '\n' in str(e).replace('<br/>\n', ''):
            return Result('newline', True, viol('anticipated:raw-line-break', 'message of %s has a raw line break' % type(e).__name__))
        return Result('kept:' + type(e).__name__, True)


NONTEXT = [None, 5, 1.5, b'x', ('a',), {'a': 1}, [], [None], ['a', 5], [['a']], ['a', ['b']], True, object,
           # lists of the right length (2, 3, 4 boxes) with one entry, or all entries, that is not text
           ['a', None], [None, 'b'], [None, None], ['a', None, 'c'], [None, 'b', 'c'], ['a', 'b', 1.5], ['1', '3', 'n', None],
           [None, '3', 'n', 'n'], ['1', '3', b'n', 'n'], ['a', 'b', 'c', True], ['a', ('b',)], [5]]


class NonText(Family):
    name = 'non_text_objects'
    rule = ('every grader class x non-text objects %r, plus a string where a list of boxes is required and a list where a single text is '
            'required: must be refused with ConfigError, never graded' % ([repr(x) for x in NONTEXT],))

    def setup(self, tier):
        self.gn = {}
        for k, (g, kind) in list_graders(False).items():
            self.gn[k] = (g, kind)
        for k, g in math_graders(False).items():
            self.gn[k] = (g, 'single')

    def cases(self, tier):
        names = sorted(list(list_graders(False).keys()) + ['Formula', 'Numerical', 'Matrix'])
        for n in names:
            for j in range(len(NONTEXT) + 2):
                yield (n, j)

    def check(self, case):
        name, j = case
        g, kind = self.gn[name]
        if j < len(NONTEXT):
            inp = NONTEXT[j]
        elif j == len(NONTEXT):
            inp = 'a' if kind != 'single' else ['a']
        else:
            inp = ['a', 'b'] if kind == 'single' else 'a,b'
        if name in ('Sum', 'Sum1') and isinstance(inp, str):
            return Result('skipped', False, None, 0)          # SumGrader documents a bare string for a single box
        if name == 'Sum1' and isinstance(inp, list) and all(isinstance(x, str) for x in inp) and len(inp) == 1:
            return Result('skipped', False, None, 0)
        if kind != 'single' and isinstance(inp, list) and inp and all(isinstance(x, str) for x in inp):
            return Result('skipped', False, None, 0)          # a list of texts is text input for a list grader
        if kind != 'single' and inp == []:
            return Result('skipped', False, None, 0)          # an empty list of boxes is a count problem, not a type problem

        def body(ch):
            try:
                return ('ok', g(None, inp))
            except Exception as e:
                return ('err', e)
        _, got = chooser.run_with(body)
        o, nt, v = judge(None, got, repr(inp), name, text_input=False)
        return Result(o, True, v, 1)


def families(tier):
    return [
        TokenStrings('token_strings', TOKENS, {'quick': 4, 'thorough': 5}),
        TokenStrings('foreign_tokens', FOREIGN + ['2', 'x', '+', '('], {'quick': 2, 'thorough': 3},
                     note=' (non-ASCII digits/operators/whitespace, quotes, braces, control characters)'),
        Hostile(),
        Nesting(),
        ListShapes(),
        Anticipated(),
        NonText(),
    ]
