"""
C17 -- attempt-based credit scales grades by a bounded, non-increasing schedule.

Two groups of bounded exhaustive families:

  * sched_*   : every (schedule configuration, attempt) pair of a grid is handed to the real
                LinearCredit / GeometricCredit / ReciprocalCredit object and compared with the
                exact rational value promised by the documentation, plus the statement's
                invariants (1 on the first attempt, within [0, 1], never below the minimum,
                never increasing).
  * graders   : every (grader configuration, student input, schedule, attempt, note flag) of a
                grid is graded by the REAL grader with the feature on, and judged against the
                result of the same grader with the feature off using the product law of the
                statement (string_builtin_schedules, table_custom_schedules, listgrader_vectors,
                raw_results, other_graders).
  * feature_off_ignores_attempt : without the option the attempt must not matter.
  * dimensions added by the gap review: sched_big_attempts (attempt numbers beyond 200, up to 2**16+1),
    sched_default_options (options of the schedule classes left at their defaults, config by dict),
    raw_list_fine_products (LIST results with fine partial grades x schedule values near 0 and 1),
    debug_graders (debug=True), answers_inferred_from_expect (the call form of the docs: answer
    taken from the expect attribute), registered_defaults (feature switched on through
    register_defaults; see the end of the file), schedules handed over as other
    kinds of callable (table_custom_schedules), more grader classes (other_graders), attempts
    -1 / -10**6 / 1000 through a grader (string_builtin_schedules), the same input graded twice on
    one grader object (attempt_history).
"""
import copy
import json
import re
import random
import itertools
import functools

import numpy

from mitxgraders import (StringGrader, ListGrader, SingleListGrader, FormulaGrader, NumericalGrader,
                         SumGrader, IntervalGrader, MatrixGrader, LinearCredit, GeometricCredit, ReciprocalCredit)
from mitxgraders.baseclasses import ItemGrader
from mitxgraders.baseclasses import AbstractGrader
from mitxgraders.exceptions import ConfigError
from voluptuous import Required

from ..core import Family, Result, viol, HarnessError
from ..fixtures import TableGrader
from ..refs import c17_ref as ref

PROPERTY = 'C17'
RULE = ('every combination of each family\'s stated grids is enumerated in a fixed order (schedule '
        'configuration x attempt for the sched_* families; grader configuration x student input x schedule x '
        'attempt x note flag for the grader families). A schedule case is non-trivial when the documented value '
        'changes between this attempt and the next (or it is the first attempt); a grader case is non-trivial '
        'when the attempt is missing (an error is required), or some base grade is positive and either the '
        'schedule value differs from 1 or the attempt is below 1 (so that a wrong product, a missing clamp, a '
        'stale ok or a wrong note would be visible)')
EXPLANATION = ('states = distinct enumerated cases; transitions = executions of the real code: two schedule '
               'evaluations per sched_* case; per grader case one call with the feature on plus one call with the '
               'feature off (the latter computed once per worker process for each grader configuration / input and '
               'kept). The expected result is computed from the feature-off result of the '
               'same grader and the exact rational schedule value of the reference model, never from '
               'apply_attempt_based_credit itself')
ASSUMPTIONS = ['the result of the same grader configured without attempt_based_credit is the base result '
               '(its own correctness is the subject of other properties)',
               'the library rounds schedule values to four decimals (documented only by example: 0.3333 / 33.3%); '
               'the statement does not mention the rounding, so grades are compared with a guard band of half a '
               'unit in the fourth decimal (relative to the base grade) and the percentage with 0.055',
               'whether a value within that band of 1 counts as a reduction is left open; the note must then be '
               'consistent with whether the observed grade dropped',
               'the separator between an existing message and the note is left open (whitespace and <br/> only)',
               'LinearCredit minimum_credit values with more than four decimals are outside the grid',
               'numpy / random are re-seeded with a constant before every grader call (the graded inputs are equal or '
               'unequal for every sample, so the verdicts do not depend on the draws)',
               'attempt numbers are Python ints; author schedules return ints or floats within [0, 1]',
               'attempt numbers above 2**16 + 1 are not tried (an implementation that tabulates its values attempt by '
               'attempt is legitimate); schedules are never called directly with attempts below 1 (the statement clamps '
               'them in the grader)',
               'the default factor of GeometricCredit is documented as 0.5 (docs/graders.md) and as 3/4 (class docstring, '
               'and what the code does): either is accepted; the LinearCredit defaults (1, 4, 0.2) are documented consistently',
               'with debug=True the <pre>...</pre> block of the debug log (and separators left at the end of the message) is '
               'removed before judging; where the log is placed relative to the note is left open',
               'registered defaults: only registrations that switch the feature on for the TOP-LEVEL grader are enumerated; '
               'a schedule present only on subgraders is left open (docs: the setting "need only be applied to the grader '
               'that is provided to edX")']

ATTEMPTS_QUICK = [-3, 0] + list(range(1, 13)) + [200, 'absent', 'none']
ATTEMPTS_SHORT = [-3, 0, 1, 2, 3, 5, 12, 200, 'absent']
ATTEMPTS_TINY = [-3, 0, 1, 2, 5, 200, 'absent']
ATTEMPTS_OFF = [-3, 0, 1, 2, 200, 'none']
ATTEMPTS_FAR = [-1, -1000000, 1000]


# --------------------------------------------------------------------------- schedules

def make_builtin(spec):
    kind = spec[0]
    if kind == 'lin':
        return LinearCredit(decrease_credit_after=int(spec[1]), decrease_credit_steps=int(spec[2]),
                            minimum_credit=ref.number(spec[3]))
    if kind == 'geo':
        return GeometricCredit(factor=ref.number(spec[1]))
    if kind == 'rec':
        return ReciprocalCredit()
    raise HarnessError('not a built-in schedule: %r' % (spec,))


def make_schedule(spec):
    """-> (callable handed to the grader, list recording the arguments it was called with or None)"""
    kind = spec[0]
    if kind in ('lin', 'geo', 'rec'):
        return make_builtin(spec), None
    if kind == 'as':
        return make_as(spec[1], spec[2:])
    rec = []
    val = ref.VALUES[spec[1]]
    if kind == 'const':
        def sched(n):
            rec.append(n)
            return val
    elif kind == 'step':
        def sched(n):
            rec.append(n)
            return 1 if n == 1 else val
    elif kind == 'ramp':
        def sched(n):
            rec.append(n)
            return val ** (n - 1)
    else:
        raise HarnessError('unknown schedule %r' % (spec,))
    return sched, rec


class MyLinear(LinearCredit):
    """an author's subclass of a built-in schedule (nothing overridden)"""


class MyGeometric(GeometricCredit):
    """an author's subclass of a built-in schedule (nothing overridden)"""


class MyReciprocal(ReciprocalCredit):
    """an author's subclass of a built-in schedule (nothing overridden)"""


class CallableObject(object):
    """an author-defined schedule that is an object with __call__, not a function"""
    def __init__(self, inner):
        self.inner = inner

    def __call__(self, attempt):
        return self.inner(attempt)

    def lookup(self, attempt):
        return self.inner(attempt)


def make_as(how, inner_spec):
    """the schedule `inner_spec` handed to the grader as another kind of callable"""
    inner, rec = make_schedule(inner_spec)
    if how == 'subclass':
        cls = {'lin': MyLinear, 'geo': MyGeometric, 'rec': MyReciprocal}[inner_spec[0]]
        return cls(dict(inner.config)), rec
    if how == 'object':
        return CallableObject(inner), rec
    if how == 'method':
        return CallableObject(inner).lookup, rec
    if how == 'partial':
        return functools.partial(lambda scale, n: inner(n), 1), rec
    if how == 'shared':         # the very same schedule object is also the schedule of another, older grader
        StringGrader(answers='other', attempt_based_credit=inner)(None, 'other', attempt=4)
        if rec is not None:
            del rec[:]
        return inner, rec
    raise HarnessError('unknown kind of callable %r' % (how,))


class ScheduleFamily(Family):
    """one case = (schedule spec, attempt n); evaluates the real schedule at n and n+1"""
    timeout = 5.0
    label = '?'

    def __init__(self, name, specs_by_tier, nmax_by_tier, rule):
        self.name = name
        self.specs_by_tier = specs_by_tier
        self.nmax_by_tier = nmax_by_tier
        self.rule = rule
        self.cache = {}

    def cases(self, tier):
        for spec in self.specs_by_tier[tier]:
            for n in range(1, self.nmax_by_tier[tier] + 1):
                yield (list(spec), n)

    def describe(self, case):
        return {'schedule': ref.describe_spec(case[0]), 'attempt': case[1]}

    def check(self, case):
        spec, n = case
        key = tuple(spec)
        sched = self.cache.get(key)
        if sched is None:
            sched = self.cache[key] = make_builtin(spec)
        cls = type(sched).__name__
        try:
            v = sched(n)
            w = sched(n + 1)
        except Exception as e:
            return Result('raised', True, viol('%s:raised:%s' % (cls, type(e).__name__),
                                               'schedule raised %r' % (e,), 'a number', repr(e)), 2)
        ex, ex_next = ref.exact(spec, n), ref.exact(spec, n + 1)
        nontriv = (n == 1) or ex != ex_next
        if isinstance(v, bool) or not isinstance(v, (int, float)):
            return Result('badtype', nontriv, viol('%s:not-a-number' % cls, 'schedule returned %r' % (v,),
                                                   'int or float', repr(v)), 2)
        if n == 1 and v != 1:
            return Result('first!=1', nontriv, viol('%s:first-attempt-not-1' % cls,
                                                    'value on the first attempt is %r' % (v,), 1, v), 2)
        if not (-ref.EPS <= v <= 1 + ref.EPS):
            return Result('range', nontriv, viol('%s:outside-0-1' % cls, 'value %r at attempt %d' % (v, n),
                                                 '[0, 1]', v), 2)
        if spec[0] == 'lin' and v < float(ref.frac(spec[3])) - ref.EPS:
            return Result('belowmin', nontriv, viol('LinearCredit:below-minimum',
                                                    'value %r at attempt %d is below minimum_credit %s' % (v, n, spec[3]),
                                                    '>= ' + spec[3], v), 2)
        if w > v + ref.EPS:
            return Result('increase', nontriv, viol('%s:increases' % cls,
                                                    'value rises from %r (attempt %d) to %r (attempt %d)' % (v, n, w, n + 1),
                                                    '<= %r' % (v,), w), 2)
        if abs(v - float(ex)) > ref.ROUND_BAND:
            return Result('formula', nontriv, viol('%s:not-the-documented-value' % cls,
                                                   'value %r at attempt %d, documentation gives %s = %.6f' % (v, n, ex, float(ex)),
                                                   float(ex), v), 2)
        level = 'one' if v == 1 else ('zero' if v == 0 else
                                      ('min' if spec[0] == 'lin' and abs(v - float(ref.frac(spec[3]))) <= ref.EPS else 'mid'))
        return Result('%s,%s' % (level, 'drops-next' if w < v else 'flat-next'), nontriv, None, 2)


class CoexistingSchedules(Family):
    """several schedule objects alive at once: each keeps to its own parameters"""
    name = 'schedules_coexisting'
    timeout = 5.0
    SPECS = [['geo', '0.5'], ['geo', '0.9'], ['geo', '0.25'], ['geo', '1'], ['geo', '0'], ['lin', '1', '4', '0.2'],
             ['lin', '2', '2', '0.5'], ['lin', '3', '1', '0'], ['rec']]
    rule = ('every ordered pair (A, B) of 9 built-in schedule objects (5 GeometricCredit factors, 3 LinearCredit settings, '
            'ReciprocalCredit) created side by side and called alternately at attempts n, n, n+1, n+1, 1, 1, 7, 7 for n in 1..6: every '
            'value equals the exact documented value of ITS OWN schedule')

    def cases(self, tier):
        for a in range(len(self.SPECS)):
            for b in range(len(self.SPECS)):
                if a != b:
                    for n in range(1, 7):
                        yield (a, b, n)

    def describe(self, case):
        a, b, n = case
        return {'A': ref.describe_spec(self.SPECS[a]), 'B': ref.describe_spec(self.SPECS[b]), 'first attempt asked': n}

    def check(self, case):
        a, b, n = case
        A, B = make_builtin(self.SPECS[a]), make_builtin(self.SPECS[b])
        calls = 0
        for att in (n, n + 1, 1, 7):
            for spec, obj, who in ((self.SPECS[a], A, 'A'), (self.SPECS[b], B, 'B')):
                calls += 1
                try:
                    v = obj(att)
                except Exception as e:
                    return Result('raised', True, viol('coexisting:raised', '%s raised %r at attempt %d' % (who, e, att)), calls)
                ex = float(ref.exact(spec, att))
                if isinstance(v, bool) or not isinstance(v, (int, float)) or abs(v - ex) > ref.ROUND_BAND:
                    return Result('wrong', True,
                                  viol('coexisting:%s:not-its-own-documented-value' % type(obj).__name__,
                                       '%s = %s next to %s: value %r at attempt %d, its documentation gives %.6f'
                                       % (who, ref.describe_spec(spec), ref.describe_spec(self.SPECS[b] if who == 'A' else self.SPECS[a]),
                                          v, att, ex), ex, v), calls)
        return Result('own-values', True, None, calls)


# nothing beyond 2**16: an implementation that tabulates its values attempt by attempt is legitimate, and must not be
# driven into minutes of work (or gigabytes of table) by the check
BIG_ATTEMPTS = [201, 202, 255, 256, 257, 500, 511, 512, 513, 999, 1000, 1001, 1023, 1024, 1025, 4095, 4096, 4097, 10000,
                32767, 32768, 65535, 65536, 65537]


class BigAttempts(Family):
    """attempt numbers just beyond, and far beyond, the exhaustive range 1..200"""
    name = 'sched_big_attempts'
    timeout = 5.0
    rule = ('built-in schedule configurations (LinearCredit after {1, 6} x steps {1, 6} x 5 minima [thorough: the whole 1-6 x 1-6 grid], '
            'the GeometricCredit factors of sched_geometric, ReciprocalCredit) x 24 attempt numbers beyond the exhaustive range '
            '(201, 202, powers of two +-1 from 256 to 65536, 500, 999-1001, 10000): the value at N, N+1 and 200 of ONE object: documented value, '
            'within [0, 1], not below the minimum, value(N+1) <= value(N) <= value(200); non-trivial = the documented '
            'value still differs from the value at attempt 200')

    def __init__(self, specs_by_tier):
        self.specs_by_tier = specs_by_tier

    def cases(self, tier):
        for spec in self.specs_by_tier[tier]:
            for n in BIG_ATTEMPTS:
                yield (list(spec), n)

    def describe(self, case):
        return {'schedule': ref.describe_spec(case[0]), 'attempt': case[1]}

    def check(self, case):
        spec, n = case
        sched = make_builtin(spec)
        cls = type(sched).__name__
        try:
            v200, v, w = sched(200), sched(n), sched(n + 1)
        except Exception as e:
            return Result('raised', True, viol('%s:big-attempt:raised:%s' % (cls, type(e).__name__),
                                               'schedule raised %r at attempt %d' % (e, n), 'a number', repr(e)), 3)
        ex, ex200 = float(ref.exact_big(spec, n)), float(ref.exact_big(spec, 200))
        nontriv = abs(ex - ex200) > ref.EPS
        for val in (v200, v, w):
            if isinstance(val, bool) or not isinstance(val, (int, float)):
                return Result('badtype', nontriv, viol('%s:big-attempt:not-a-number' % cls, 'schedule returned %r' % (val,),
                                                       'int or float', repr(val)), 3)
        if not (-ref.EPS <= v <= 1 + ref.EPS):
            return Result('range', nontriv, viol('%s:big-attempt:outside-0-1' % cls, 'value %r at attempt %d' % (v, n),
                                                 '[0, 1]', v), 3)
        if spec[0] == 'lin' and v < float(ref.frac(spec[3])) - ref.EPS:
            return Result('belowmin', nontriv, viol('LinearCredit:big-attempt:below-minimum',
                                                    'value %r at attempt %d is below minimum_credit %s' % (v, n, spec[3]),
                                                    '>= ' + spec[3], v), 3)
        if w > v + ref.EPS or v > v200 + ref.EPS:
            return Result('increase', nontriv, viol('%s:big-attempt:increases' % cls,
                                                    'values %r (attempt 200), %r (attempt %d), %r (attempt %d)' % (v200, v, n, w, n + 1),
                                                    'non-increasing', [v200, v, w]), 3)
        if abs(v - ex) > ref.ROUND_BAND:
            return Result('formula', nontriv, viol('%s:big-attempt:not-the-documented-value' % cls,
                                                   'value %r at attempt %d, documentation gives %.6f' % (v, n, ex), ex, v), 3)
        return Result('%s,%s' % ('one' if v == 1 else ('zero' if v == 0 else 'mid'),
                                 'below-200' if v < v200 else 'as-at-200'), nontriv, None, 3)


LIN_DEFAULTS = {'after': 1, 'steps': 4, 'min': '0.2'}      # docs/graders.md: "using the defaults, attempts 1, 2, 3, 4, 5,
#                                                              and 6 are eligible for maximum credits of 1, 0.8, 0.6, 0.4, 0.2 and 0.2"


class DefaultSchedules(Family):
    """built-in schedules whose options are left at their DEFAULTS (wholly or in part), configured by keyword or by dict"""
    name = 'sched_default_options'
    timeout = 5.0
    rule = ('LinearCredit with every subset of its three options omitted (given values: after {1, 2, 3, 6}, steps {1, 2, 4, 6}, '
            'minimum {0, 0.1, 0.2, 0.5, 1}; quick: at most one option given, plus all three), passed as keywords or as one config '
            'dict, x attempts 1..12, 200: the value documented for the defaults (1, 4, 0.2) where omitted. GeometricCredit() / '
            'GeometricCredit({}) / ReciprocalCredit({}): 1 on the first attempt and a geometric (reciprocal) progression; the default factor is '
            'documented as 0.5 in docs/graders.md and as 3/4 in the class itself, either is accepted. non-trivial = some option omitted')
    ATTS = list(range(1, 13)) + [200]

    def cases(self, tier):
        afters, steps, mins = [None, 1, 2, 3, 6], [None, 1, 2, 4, 6], [None] + MINS
        for how in ('kwargs', 'dict'):
            for a in afters:
                for st in steps:
                    for m in mins:
                        given = sum(x is not None for x in (a, st, m))
                        if tier == 'quick' and given not in (0, 1, 3):
                            continue
                        if given == 3 and (how == 'kwargs' or (a, st) not in ((1, 4), (2, 2))):
                            continue
                        for n in self.ATTS:
                            yield ('lin', how, a, st, m, n)
            for kind in ('geo', 'rec'):
                if kind == 'rec' and how == 'kwargs':
                    continue        # ReciprocalCredit() is the 'rec' spec of every other family
                for n in self.ATTS:
                    yield (kind, how, None, None, None, n)

    def check(self, case):
        kind, how, a, st, m, n = case
        config = {}
        if a is not None:
            config['decrease_credit_after'] = a
        if st is not None:
            config['decrease_credit_steps'] = st
        if m is not None:
            config['minimum_credit'] = ref.number(m)
        cls = {'lin': LinearCredit, 'geo': GeometricCredit, 'rec': ReciprocalCredit}[kind]
        try:
            sched = cls(config) if how == 'dict' else cls(**config)
            v, v2 = sched(n), sched(2)
        except Exception as e:
            return Result('raised', True, viol('defaults:%s:raised:%s' % (cls.__name__, type(e).__name__),
                                               '%s(%r) at attempt %d raised %r' % (cls.__name__, config, n, e), 'a number', repr(e)), 2)
        if isinstance(v, bool) or not isinstance(v, (int, float)) or not isinstance(v2, (int, float)):
            return Result('badtype', True, viol('defaults:%s:not-a-number' % cls.__name__, 'schedule returned %r' % (v,)), 2)
        if kind == 'lin':
            spec = ['lin', LIN_DEFAULTS['after'] if a is None else a, LIN_DEFAULTS['steps'] if st is None else st,
                    LIN_DEFAULTS['min'] if m is None else m]
            wants = [float(ref.exact(spec, n))]
        elif kind == 'rec':
            wants = [1.0 / n]
        else:
            wants = [f ** (n - 1) for f in (0.5, 0.75)]
            wants = [w for w, f in zip(wants, (0.5, 0.75)) if abs(v2 - f) <= ref.ROUND_BAND] or wants
        omitted = kind != 'lin' or None in (a, st, m)
        if n == 1 and v != 1:
            return Result('first!=1', omitted, viol('defaults:%s:first-attempt-not-1' % cls.__name__,
                                                    '%s(%r): value on the first attempt is %r' % (cls.__name__, config, v), 1, v), 2)
        if all(abs(v - w) > ref.ROUND_BAND for w in wants):
            return Result('wrong', omitted, viol('defaults:%s:not-the-documented-value' % cls.__name__,
                                                 '%s(%r) [%s]: value %r at attempt %d, the documented defaults give %s'
                                                 % (cls.__name__, config, how, v, n, ' or '.join('%.6f' % w for w in wants)),
                                                 wants, v), 2)
        return Result('%s:%s' % (kind, 'one' if v == 1 else 'less'), omitted, None, 2)


# --------------------------------------------------------------------------- judging a graded result

def entries_of(result):
    """-> (is_list, [entry dicts], message key, message)"""
    if isinstance(result, dict) and 'input_list' in result:
        return True, result['input_list'], 'overall_message', result.get('overall_message')
    return False, [result], 'msg', result.get('msg')


def same_ok(a, b):
    """True / False / 'partial' compared without letting 1 == True or 0 == False through"""
    return type(a) is type(b) and a == b


def judge(spec, attempt, flag, base, got, exc, rec, calls=2):
    """
    base      result of the grader without attempt_based_credit (no attempt passed)
    got/exc   result or exception of the grader with the feature on
    rec       arguments an author-defined schedule was called with (None for built-ins)
    """
    b_list, b_entries, key, b_msg = entries_of(base)
    positive = any(e['grade_decimal'] > 0 for e in b_entries)

    # ---- attempt missing: configuration error required
    if attempt in ('absent', 'none'):
        if exc is None:
            return Result('absent-graded', True, viol('absent-attempt:no-config-error',
                                                      'attempt not supplied but a grade was returned',
                                                      'ConfigError', got), calls)
        if not isinstance(exc, ConfigError):
            return Result('absent-other-error', True, viol('absent-attempt:wrong-error:' + type(exc).__name__,
                                                           'attempt not supplied: %r' % (exc,), 'ConfigError', repr(exc)), calls)
        return Result('config-error', True, None, calls)

    site = 'list' if b_list else 'single'
    if exc is not None:
        return Result('raised', True, viol('%s:raised:%s' % (site, type(exc).__name__),
                                           'grader with attempt=%r raised %r' % (attempt, exc), 'a result', repr(exc)), calls)
    n_eff = max(attempt, 1)
    s = float(ref.exact(spec, n_eff))
    nontriv = positive and (abs(s - 1) > ref.EPS or attempt < 1)

    if rec is not None and any(a != n_eff for a in rec):
        return Result('unclamped', nontriv, viol('clamp:schedule-not-called-with-max(attempt,1)',
                                                 'author schedule was called with %r for attempt=%r' % (rec, attempt),
                                                 [n_eff], rec), calls)

    # ---- structure
    if not isinstance(got, dict):
        return Result('badresult', nontriv, viol(site + ':result-not-a-dict', 'result %r' % (got,), base, got), calls)
    g_list, g_entries, _, g_msg = entries_of(got)
    same_shape = (g_list == b_list and sorted(got) == sorted(base) and len(g_entries) == len(b_entries)
                  and all(isinstance(e, dict) and sorted(e) == sorted(b) for e, b in zip(g_entries, b_entries))
                  and isinstance(g_msg, str))
    if not same_shape:
        return Result('badshape', nontriv, viol(site + ':structure-changed', 'keys / length of the result changed',
                                                base, got), calls)

    # ---- grades and ok, entry by entry
    reduced = False
    zeroed = False
    for i, (b, e) in enumerate(zip(b_entries, g_entries)):
        g0, g1 = b['grade_decimal'], e['grade_decimal']
        where = 'entry %d: ' % i if b_list else ''
        if isinstance(g1, bool) or not isinstance(g1, (int, float)):
            return Result('badgrade', nontriv, viol(site + ':grade-not-a-number', where + 'grade %r' % (g1,), None, got), calls)
        if not g0 > 0:
            if g1 != 0 or not same_ok(e['ok'], b['ok']):
                return Result('zero-changed', nontriv, viol(site + ':zero-grade-changed',
                                                            where + 'base grade 0 / ok %r became %r / ok %r'
                                                            % (b['ok'], g1, e['ok']), b, e), calls)
        else:
            want = g0 * s
            if abs(g1 - want) > g0 * ref.ROUND_BAND + ref.EPS:
                return Result('wrong-product', nontriv,
                              viol(site + ':grade-not-base-times-schedule',
                                   where + 'base grade %r, schedule value %.6f for attempt %r: expected %.6f, got %r'
                                   % (g0, s, attempt, want, g1), want, g1), calls)
            if not same_ok(e['ok'], ref.ok_of(g1)):
                return Result('stale-ok', nontriv,
                              viol(site + ':ok-not-recomputed',
                                   where + 'grade %r but ok=%r' % (g1, e['ok']), ref.ok_of(g1), e['ok']), calls)
            if g1 < g0 - ref.EPS:
                reduced = True
                if g1 == 0:
                    zeroed = True
        if b_list and e.get('msg') != b.get('msg'):
            return Result('entry-msg', nontriv, viol('list:entry-message-changed', where + 'per-input message changed',
                                                     b.get('msg'), e.get('msg')), calls)

    # ---- the note
    enabled = flag in (1, 'default', True)
    if reduced and enabled:
        problem, atxt, ptxt = ref.split_note(b_msg, g_msg)
        if problem is not None:
            return Result('note-' + problem, nontriv, viol('%s:note-%s' % (site, problem),
                                                           'a grade was reduced and the note is enabled; %s is %r' % (key, g_msg),
                                                           b_msg + ' [+ Maximum credit for attempt #%d is p%%.]' % n_eff, g_msg), calls)
        if atxt != str(n_eff):
            return Result('note-attempt', nontriv, viol(site + ':note-wrong-attempt-number',
                                                        'note names attempt %s for attempt=%r' % (atxt, attempt),
                                                        str(n_eff), atxt), calls)
        pp = ref.percent_problem(ptxt, s)
        if pp is not None:
            return Result('note-' + pp, nontriv, viol('%s:note-%s' % (site, pp),
                                                      'schedule value %.6f printed as %r%%' % (s, ptxt),
                                                      '%.4f%% with at most one decimal' % (100 * s), ptxt), calls)
        return Result('zeroed+note' if zeroed else 'reduced+note', nontriv, None, calls)
    if g_msg != b_msg:
        if 'Maximum credit' in g_msg:
            why = 'no grade was reduced' if not reduced else 'attempt_based_credit_msg is False'
            return Result('note-unexpected', nontriv, viol(site + ':note-unexpected:' + why.replace(' ', '-'),
                                                           'note present although ' + why, b_msg, g_msg), calls)
        return Result('msg-changed', nontriv, viol(site + ':message-changed', key + ' changed', b_msg, g_msg), calls)
    if reduced:
        return Result('zeroed-silent' if zeroed else 'reduced-silent', nontriv, None, calls)
    if not positive:
        return Result('all-zero-untouched', nontriv, None, calls)
    return Result('full-credit' if abs(s - 1) <= ref.EPS else 'within-rounding-of-full', nontriv, None, calls)


class GraderFamily(Family):
    """
    A case is prefix + (schedule spec, attempt, flag).  Subclasses give `prefixes(tier)` (grader
    configuration / student input selectors), `specs(tier)`, `attempts(tier)`, `flags`, and
    `config(case)` -> (class, kwargs, student_input), built afresh on every call.
    """
    timeout = 10.0
    flags = (1, 0)

    def attempts(self, tier):
        return ATTEMPTS_TINY if tier == 'quick' else ATTEMPTS_SHORT

    def cases(self, tier):
        specs, atts = self.specs(tier), self.attempts(tier)
        for prefix in self.prefixes(tier):
            for spec in specs:
                for att in atts:
                    for flag in self.flags:
                        yield tuple(prefix) + (spec, att, flag)

    def config(self, case):
        raise NotImplementedError

    def describe(self, case):
        cls, kwargs, student_input = self.config(case)
        spec, attempt, flag = case[-3], case[-2], case[-1]
        return {'grader': cls.__name__, 'config': kwargs, 'student_input': student_input,
                'attempt_based_credit': ref.describe_spec(spec), 'attempt': attempt,
                'attempt_based_credit_msg': flag}

    def base_result(self, case):
        """
        Result of the same grader and input with the feature off.  It depends only on the prefix of the
        case: computed once per worker process and kept (never modified afterwards).
        -> (result, number of grader calls made now)
        """
        if not hasattr(self, 'memo'):
            self.memo = {}
        key = json.dumps(list(case[:-3]), sort_keys=True)
        if key in self.memo:
            return self.memo[key], 0
        cls, kwargs, student_input = self.config(case)
        reseed()
        base = self.memo[key] = cls(**kwargs)(self.expect(case), student_input)
        return base, 1

    def expect(self, case):
        """the value of the edX `expect` attribute handed to the grader (None: answers are configured)"""
        return None

    def tidy(self, case, got):
        """hook: strip what another option (debug) adds to the result before it is judged"""
        return got

    def check(self, case):
        spec, attempt, flag = case[-3], case[-2], case[-1]
        base, calls = self.base_result(case)
        cls, kwargs, student_input = self.config(case)
        sched, rec = make_schedule(spec)
        kwargs['attempt_based_credit'] = sched
        if flag != 'default':
            kwargs['attempt_based_credit_msg'] = bool(flag)
        got = exc = None
        reseed()
        try:
            grader = cls(**kwargs)
            got = self.tidy(case, grader(self.expect(case), student_input, **attempt_kw(attempt)))
        except Exception as e:      # judged below
            exc = e
        return judge(spec, attempt, flag, base, got, exc, rec, calls + 1)


def reseed():
    """FormulaGrader / SumGrader draw samples; pin the streams so that every execution of a case is identical"""
    numpy.random.seed(20170)
    random.seed(20170)


def attempt_kw(attempt):
    if attempt == 'absent':
        return {}
    return {'attempt': None if attempt == 'none' else attempt}


class FeatureOff(Family):
    """the statement's "when attempt-based credit is enabled": without it the attempt must not matter"""
    name = 'feature_off_ignores_attempt'
    rule = ('every grader configuration / student input of the grader families below, configured WITHOUT '
            'attempt_based_credit (option omitted, and explicitly None) x attempts {-3, 0, 1..12, 200, None}: the result '
            'must equal the result of the call without an attempt; non-trivial = some grade is positive')
    timeout = 10.0

    def __init__(self, fams):
        self.fams = fams

    def cases(self, tier):
        for i, fam in enumerate(self.fams):
            for prefix in fam.prefixes(tier):
                for mode in ('omitted', 'none'):
                    for att in (ATTEMPTS_OFF if tier == 'quick' else ATTEMPTS_QUICK):
                        if att != 'absent':
                            yield (i, list(prefix), mode, att)

    def pseudo(self, case):
        return tuple(case[1]) + (None, None, None)

    def describe(self, case):
        fam = self.fams[case[0]]
        cls, kwargs, student_input = fam.config(self.pseudo(case))
        return {'grader': cls.__name__, 'config': kwargs, 'student_input': student_input,
                'attempt_based_credit': case[2], 'attempt': case[3]}

    def check(self, case):
        fam = self.fams[case[0]]
        base, calls = fam.base_result(self.pseudo(case))
        cls, kwargs, student_input = fam.config(self.pseudo(case))
        if case[2] == 'none':
            kwargs['attempt_based_credit'] = None
        reseed()
        try:
            got = cls(**kwargs)(fam.expect(self.pseudo(case)), student_input, **attempt_kw(case[3]))
        except Exception as e:
            return Result('raised', True, viol('feature-off:raised:' + type(e).__name__,
                                               'attempt=%r passed to a grader without attempt_based_credit: %r' % (case[3], e),
                                               base, repr(e)), calls + 1)
        _, entries, _, _ = entries_of(base)
        positive = any(e['grade_decimal'] > 0 for e in entries)
        if got != base:
            return Result('changed', positive, viol('feature-off:attempt-affects-result',
                                                    'attempt passed to a grader without attempt_based_credit changed the result',
                                                    base, got), calls + 1)
        return Result('same:' + ('positive' if positive else 'all-zero'), positive, None, calls + 1)


# --------------------------------------------------------------------------- grids of schedules

MINS = ['0', '0.1', '0.2', '0.5', '1']
MINS_MORE = MINS + ['0.0', '1.0', '0.25', '0.3333', '0.9999', '0.0001', '0.05', '0.75']
LIN_GRID = [['lin', a, s, m] for a in range(1, 7) for s in range(1, 7) for m in MINS]
LIN_GRID_MORE = [['lin', a, s, m] for a in range(1, 9) for s in range(1, 9) for m in MINS_MORE]
GEO_FACTORS = ['0', '0.1', '0.25', '0.5', '0.75', '0.9', '0.99', '1', '1.0', '0.0']
GEO_FACTORS_MORE = (GEO_FACTORS + ['%.2f' % (k / 100.0) for k in range(1, 100) if k not in (10, 25, 50, 75, 90, 99)]
                    + ['0.999', '0.9999', '0.0001', '0.001', '0.3333', '0.6667'])
GEO_GRID = [['geo', f] for f in GEO_FACTORS]
GEO_GRID_MORE = [['geo', f] for f in GEO_FACTORS_MORE]

BUILTIN_SMALL = [['lin', 1, 4, '0.2'], ['lin', 3, 3, '0.1'], ['lin', 1, 2, '0'], ['lin', 2, 1, '1'],
                 ['lin', 1, 3, '0.5'], ['lin', 6, 6, '0.0'],
                 ['geo', '0.75'], ['geo', '0.5'], ['geo', '0'], ['geo', '1'], ['geo', '0.9'], ['geo', '0.1'],
                 ['rec']]
CUSTOM_NAMES = ['int1', 'int0', 'float1', 'float0', 'half', 'r99996', 'r99994', 'p3333', 'third', 'tiny',
                'sixteenth', 'p1875', 'p999', 'eighth', 'p0004', 'p8']
CUSTOM = [[k, v] for v in CUSTOM_NAMES for k in ('const', 'step')] + [['ramp', 'p8'], ['ramp', 'third'], ['ramp', 'float1']]
CALLABLE_KINDS = [['as', 'subclass', 'lin', 1, 4, '0.2'], ['as', 'subclass', 'geo', '0.5'], ['as', 'object', 'step', 'half'],
                  ['as', 'method', 'ramp', 'p8'], ['as', 'partial', 'const', 'half'], ['as', 'shared', 'lin', 1, 4, '0.2'],
                  # thorough only:
                  ['as', 'subclass', 'rec'], ['as', 'object', 'rec'], ['as', 'shared', 'geo', '0.5'],
                  ['as', 'shared', 'step', 'half']]
MIXED_TINY = [['lin', 1, 4, '0.2'], ['lin', 1, 2, '0'], ['rec'], ['step', 'r99996'], ['const', 'half']]
OTHER_QUICK = [['lin', 1, 4, '0.2'], ['lin', 3, 3, '0.1'], ['lin', 1, 2, '0'], ['geo', '0.5'], ['geo', '0'], ['geo', '1'],
               ['rec'], ['step', 'sixteenth']]
OTHER_SHORT = [['lin', 1, 4, '0.2'], ['lin', 3, 3, '0.1'], ['lin', 1, 2, '0'], ['rec'], ['step', 'sixteenth']]
MIXED_SMALL = [['lin', 1, 4, '0.2'], ['lin', 1, 2, '0'], ['geo', '0.5'], ['geo', '1'], ['rec'],
               ['step', 'r99996'], ['const', 'half'], ['step', 'sixteenth']]


# --------------------------------------------------------------------------- grader families

class StringBuiltin(GraderFamily):
    name = 'string_builtin_schedules'
    rule = ('StringGrader with answers full (1), half (0.5, msg "Meow!"), third (1/3) x inputs {full, half, third, wrong} '
            'x wrong_msg {"", "too bad"} x built-in schedules (quick: 13 configurations incl. minimum 0 / 1, factor 0 / 1; '
            'thorough: the full LinearCredit grid after 1-6 x steps 1-6 x minimum {0,0.1,0.2,0.5,1}, 10 factors, '
            'ReciprocalCredit) x attempts {-3, 0, 1..12, 200, absent, None} x attempt_based_credit_msg '
            '{on, off, default}, and attempts {-1, -10**6, 1000} (quick: with the note on only)')
    INPUTS = ['full', 'half', 'third', 'wrong']
    WRONG = ['', 'too bad']

    flags = (1, 0, 'default')

    def prefixes(self, tier):
        return [(inp, wm) for inp in self.INPUTS for wm in (0, 1)]

    def specs(self, tier):
        return BUILTIN_SMALL if tier == 'quick' else LIN_GRID + GEO_GRID + [['rec']]

    def attempts(self, tier):
        return ATTEMPTS_QUICK + ATTEMPTS_FAR

    def cases(self, tier):
        for case in super(StringBuiltin, self).cases(tier):
            if tier == 'quick' and case[-2] in ATTEMPTS_FAR and case[-1] != 1:
                continue
            yield case

    def config(self, case):
        inp, wm = case[0], case[1]
        answers = ({'expect': 'full', 'grade_decimal': 1},
                   {'expect': 'half', 'grade_decimal': 0.5, 'msg': 'Meow!'},
                   {'expect': 'third', 'grade_decimal': 1.0 / 3})
        return StringGrader, {'answers': answers, 'wrong_msg': self.WRONG[wm]}, inp


CREDITS = [('x0', 0), ('x1', 0.001), ('x2', 0.3), ('x3', 1.0 / 3), ('x4', 0.5), ('x5', 0.9999), ('x6', 1),
           ('m4', (0.5, 'hello')), ('m0', (0, 'sorry')), ('m6', (1, 'line one\nline two'))]


class TableCustom(GraderFamily):
    name = 'table_custom_schedules'
    rule = ('author-defined ItemGrader (credit table: 0, 0.001, 0.3, 1/3, 0.5, 0.9999, 1, and 0 / 0.5 / 1 with a message) '
            'x author-defined recording schedules: constant v, "1 on the first attempt else v", and unrounded v**(n-1), '
            'v in {int 1, int 0, 1.0, 0.0, 0.5, 0.99996, 0.99994, 0.3333, 1/3, 0.00004, 0.0625, 0.1875, 0.999, 0.125, '
            '0.0004, 0.8}, and 6 (thorough 10) schedules handed over as another kind of callable (an author subclass of each built-in class, '
            'an object with __call__, a bound method, a functools.partial, and a schedule object that an older grader also uses) '
            'x attempts {-3, 0, 1, 2, 7, absent} x note flag; the recorded schedule argument must be max(attempt, 1)')

    def prefixes(self, tier):
        return [(cname,) for cname, _ in CREDITS]

    def specs(self, tier):
        return CUSTOM + (CALLABLE_KINDS[:6] if tier == 'quick' else CALLABLE_KINDS)

    def attempts(self, tier):
        return [-3, 0, 1, 2, 7, 'absent'] if tier == 'quick' else [-3, -1, 0, 1, 2, 3, 7, 200, 'absent', 'none']

    def config(self, case):
        table = {('A', k): v for k, v in CREDITS}
        return TableGrader, {'answers': 'A', 'table': table}, case[0]


GRADE_SYMBOLS = {0: 'z', 0.3: 'p', 0.5: 'h', 1: 'f'}


class ListVectors(GraderFamily):
    name = 'listgrader_vectors'
    rule = ('ListGrader over StringGrader subgraders; every vector of per-box grades of length 2-3 over {0, 0.3, 1} '
            '(thorough: length 2-3 over {0, 0.3, 0.5, 1} and length 4 over {0, 0.3, 1}) x layout {ordered, unordered with inputs reversed, '
            'nested: [ordered pair] + single via grouping} x 8 schedules (built-in and author-defined) x attempts '
            '{-3, 0, 1, 2, 3, 5, 12, 200, absent} x note flag')

    def prefixes(self, tier):
        lengths = (2, 3) if tier == 'quick' else (2, 3, 4)
        for n in lengths:
            grades = [0, 0.3, 1] if tier == 'quick' or n == 4 else [0, 0.3, 0.5, 1]
            for vec in itertools.product(range(len(grades)), repeat=n):
                for layout in ('ordered', 'unordered', 'nested'):
                    if layout == 'nested' and n != 3:
                        continue
                    yield ([grades[i] for i in vec], layout)

    def specs(self, tier):
        return MIXED_TINY if tier == 'quick' else MIXED_SMALL

    @staticmethod
    def answer(i):
        return ({'expect': 'f%d' % i, 'grade_decimal': 1}, {'expect': 'h%d' % i, 'grade_decimal': 0.5},
                {'expect': 'p%d' % i, 'grade_decimal': 0.3, 'msg': 'nearly %d' % i})

    def config(self, case):
        vec, layout = case[0], case[1]
        n = len(vec)
        inputs = ['%s%d' % (GRADE_SYMBOLS[g], i) for i, g in enumerate(vec)]
        answers = [self.answer(i) for i in range(n)]
        if layout == 'ordered':
            kwargs = {'answers': answers, 'subgraders': StringGrader(), 'ordered': True}
        elif layout == 'unordered':
            kwargs = {'answers': answers, 'subgraders': StringGrader(), 'ordered': False}
            inputs = inputs[::-1]
        else:
            kwargs = {'answers': [[answers[0], answers[1]], answers[2]],
                      'subgraders': [ListGrader(subgraders=StringGrader(), ordered=True), StringGrader()],
                      'grouping': [1, 1, 2], 'ordered': True}
        return ListGrader, kwargs, inputs


class RawGrader(AbstractGrader):
    """
    An author-defined grader built directly on AbstractGrader (the documented extension point):
    `check` returns a copy of the configured result, so arbitrary base results -- including a
    non-empty overall_message, which ListGrader never produces -- reach apply_attempt_based_credit.
    """
    @property
    def schema_config(self):
        return super(RawGrader, self).schema_config.extend({Required('result'): dict})

    def check(self, answers, student_input, **kwargs):
        return copy.deepcopy(self.config['result'])


RAW_GRADES = [0, 0.3, 1]
RAW_MSGS = ['', 'Well done', 'two\nlines']


class RawResults(GraderFamily):
    name = 'raw_results'
    rule = ('author-defined AbstractGrader returning a fixed result: single results grade {0, 0.3, 1, 1.0, 0.0} x msg '
            '{"", "Well done", "two\\nlines"}; list results of length 1-3 over grades {0, 0.3, 1} x overall_message '
            '{"", "Well done", "two\\nlines"} with per-input messages and an extra bookkeeping key; x 8 schedules x '
            'attempts {-3, 0, 1, 2, 3, 5, 12, 200, absent} x note flag')

    def prefixes(self, tier):
        shapes = [['single', g, m] for g in ('0', '0.3', '1', '1.0', '0.0') for m in range(len(RAW_MSGS))]
        maxlen = 3 if tier == 'quick' else 4
        for n in range(1, maxlen + 1):
            for vec in itertools.product(range(len(RAW_GRADES)), repeat=n):
                for m in range(len(RAW_MSGS)):
                    shapes.append(['list', list(vec), m])
        return [(shape,) for shape in shapes]

    def specs(self, tier):
        return MIXED_TINY if tier == 'quick' else MIXED_SMALL

    def config(self, case):
        kind, g, m = case[0]
        if kind == 'single':
            grade = ref.number(g)
            result = {'ok': ref.ok_of(grade), 'grade_decimal': grade, 'msg': RAW_MSGS[m]}
            return RawGrader, {'result': result}, 'anything'
        entries = []
        for i, gi in enumerate(g):
            grade = RAW_GRADES[gi]
            entries.append({'ok': ref.ok_of(grade), 'grade_decimal': grade,
                            'msg': '' if i % 2 == 0 else 'box %d' % i, 'bookkeeping': i})
        return RawGrader, {'result': {'overall_message': RAW_MSGS[m], 'input_list': entries}}, ['in'] * len(g)


OTHER = [
    # (label, student inputs) per grader kind
    ('singlelist', ['a,b,c', 'c, a', 'a', 'x', 'a,b,c,d', 'a,x,y,z']),
    ('singlelist_nopartial', ['a,b,c', 'a,b', 'x']),
    ('formula', ['x+1', '1+x', '2*x', 'x']),
    ('numerical', ['3.5', '7/2', '3.6', '3']),
    ('sum', [['1', '4', 'n'], ['0', '4', 'n'], ['1', '3', 'n'], ['1', '4', 'n+1']]),
    ('interval', ['[1,2)', '(1,2)', '(0,5]']),
    ('matrix', ['[[1,2],[3,4]]', '[[1,2],[3,5]]']),
    ('singlelist_nested', ['a,b;c,d', 'a,b;c,x']),
    ('list_of_singlelists', [['a,b', 'c'], ['a,x', 'c'], ['x,y', 'c']]),
]
OTHER_ADDED = ('interval', 'matrix', 'singlelist_nested', 'list_of_singlelists')


class OtherGraders(GraderFamily):
    name = 'other_graders'
    rule = ('SingleListGrader (partial credit fractions 1, 2/3, 1/3, 0, surplus penalties; and partial_credit=False), '
            'FormulaGrader (answers worth 1 and 0.4 with a message), NumericalGrader (1 and 0.25), SumGrader (list input, '
            'single result), IntervalGrader (1, 0.5, 0), MatrixGrader (1, 0.5 with a message, 0), SingleListGrader of '
            'SingleListGraders (1, 0.75), ListGrader over [SingleListGrader, StringGrader] (quick: these with 5 schedules, no MatrixGrader, 2 IntervalGrader inputs) x 2-6 student inputs each x 13 built-in + 8 mixed schedules x attempts {-3, 0, 1, 2, 3, 5, 12, '
            '200, absent} x note flag')

    def prefixes(self, tier):
        return [(label, k) for label, inputs in OTHER for k in range(len(inputs))]

    def specs(self, tier):
        if tier == 'quick':
            return OTHER_QUICK
        return BUILTIN_SMALL + [s for s in MIXED_SMALL if s not in BUILTIN_SMALL]

    def cases(self, tier):
        for case in super(OtherGraders, self).cases(tier):
            if tier == 'quick' and case[0] in OTHER_ADDED and (case[2] not in OTHER_SHORT or case[0] == 'matrix'
                                                               or (case[0] == 'interval' and case[1] > 1)):
                continue
            yield case

    def config(self, case):
        label, k = case[0], case[1]
        inp = copy.deepcopy(dict(OTHER)[label][k])
        if label == 'singlelist':
            return SingleListGrader, {'answers': ['a', 'b', 'c'], 'subgrader': StringGrader()}, inp
        if label == 'singlelist_nopartial':
            return SingleListGrader, {'answers': ['a', 'b', 'c'], 'subgrader': StringGrader(),
                                      'partial_credit': False}, inp
        if label == 'formula':
            answers = ({'expect': 'x+1', 'grade_decimal': 1},
                       {'expect': '2*x', 'grade_decimal': 0.4, 'msg': 'Factor, not offset.'})
            return FormulaGrader, {'answers': answers, 'variables': ['x']}, inp
        if label == 'numerical':
            answers = ({'expect': '3.5', 'grade_decimal': 1}, {'expect': '3.6', 'grade_decimal': 0.25})
            return NumericalGrader, {'answers': answers, 'tolerance': 1e-6}, inp
        if label == 'sum':
            return SumGrader, {'answers': {'lower': '1', 'upper': '4', 'summand': 'n', 'summation_variable': 'n'},
                               'input_positions': {'lower': 1, 'upper': 2, 'summand': 3}}, inp
        if label == 'interval':
            return IntervalGrader, {'answers': '[1,2)'}, inp
        if label == 'matrix':
            answers = ({'expect': '[[1,2],[3,4]]', 'grade_decimal': 1},
                       {'expect': '[[1,2],[3,5]]', 'grade_decimal': 0.5, 'msg': 'last entry'})
            return MatrixGrader, {'answers': answers, 'max_array_dim': 2}, inp
        if label == 'singlelist_nested':
            return SingleListGrader, {'answers': [['a', 'b'], ['c', 'd']], 'delimiter': ';',
                                      'subgrader': SingleListGrader(subgrader=StringGrader())}, inp
        if label == 'list_of_singlelists':
            return ListGrader, {'answers': [['a', 'b'], 'c'], 'ordered': True,
                                'subgraders': [SingleListGrader(subgrader=StringGrader()), StringGrader()]}, inp
        raise HarnessError('unknown grader label %r' % (label,))


FINE_GRADES = ['0', '0.0', '0.0001', '0.001', '0.3', '0.4999', '0.5', '0.9999', '1', '1.0']
FINE_SCHEDULES = [['const', v] for v in ('tiny', 'p0001', 'p0004', 'half', 'r99994', 'r99996', 'p999', 'int0', 'float0', 'int1')]


class RawListFine(GraderFamily):
    name = 'raw_list_fine_products'
    rule = ('LIST results (author-defined AbstractGrader) whose entries carry fine partial grades: every vector of length 2 '
            '(thorough: and 3 with a leading entry from {0, 0.001, 1}) over {0, 0.0, 0.0001, 0.001, 0.3, 0.4999, 1, 1.0; thorough also 0.5, 0.9999} x '
            'constant author schedules {0.00004, 0.0001, 0.0004, 0.5, 0.99994, 0.99996, 0.999, int 0, 0.0, int 1} x attempts {0, 2} '
            'x note flag: products far below the fourth decimal keep ok="partial", values that round to 0 or 1 behave as 0 or 1')

    def prefixes(self, tier):
        k = [i for i, g in enumerate(FINE_GRADES) if tier != 'quick' or g not in ('0.5', '0.9999')]
        for a in k:
            for b in k:
                yield ([a, b],)
        if tier != 'quick':
            for first in (0, 3, 8):
                for a in k:
                    for b in k:
                        yield ([first, a, b],)

    def specs(self, tier):
        return FINE_SCHEDULES

    def attempts(self, tier):
        return [0, 2]

    def config(self, case):
        entries = []
        for i, gi in enumerate(case[0]):
            grade = ref.number(FINE_GRADES[gi])
            entries.append({'ok': ref.ok_of(grade), 'grade_decimal': grade, 'msg': '' if i else 'first box'})
        return RawGrader, {'result': {'overall_message': '', 'input_list': entries}}, ['in'] * len(entries)


PRE_RE = re.compile(r'<pre>.*</pre>', re.S)
TAIL_RE = re.compile(r'(\s|<br/>)+$')


class DebugOn(GraderFamily):
    name = 'debug_graders'
    rule = ('the graders below with debug=True (the debug log is appended to the message after the note): StringGrader x 4 inputs, '
            'ordered ListGrader x 4 input vectors, (thorough:) SingleListGrader x 3 inputs x 5 schedules x attempts {-3, 0, 1, 2, 5, 200, '
            'absent} x note flag; the <pre> block of the log (and separators left at the end) is removed, what remains is judged against '
            'the result of the same grader WITHOUT debug and without the feature')
    INPUTS = {'string': ['full', 'half', 'third', 'wrong'],
              'list': [['f0', 'f1'], ['p0', 'x'], ['x', 'h1'], ['x', 'y']],
              'singlelist': ['a,b,c', 'a,b', 'x']}

    def prefixes(self, tier):
        return [(kind, k) for kind in (('string', 'list') if tier == 'quick' else ('string', 'list', 'singlelist'))
                for k in range(len(self.INPUTS[kind]))]

    def specs(self, tier):
        return MIXED_TINY

    def build(self, case, debug):
        kind, k = case[0], case[1]
        inp = copy.deepcopy(self.INPUTS[kind][k])
        extra = {'debug': True} if debug else {}
        if kind == 'string':
            cls, kwargs, _ = StringBuiltin().config(('x', 1))
        elif kind == 'list':
            cls, kwargs = ListGrader, {'answers': [ListVectors.answer(0), ListVectors.answer(1)],
                                       'subgraders': StringGrader(), 'ordered': True}
        else:
            cls, kwargs = SingleListGrader, {'answers': ['a', 'b', 'c'], 'subgrader': StringGrader()}
        kwargs.update(extra)
        return cls, kwargs, inp

    def config(self, case):
        # GraderFamily.check adds the schedule to these options; base_result is overridden to leave debug off
        return self.build(case, True)

    def base_result(self, case):
        if not hasattr(self, 'memo'):
            self.memo = {}
        key = json.dumps(list(case[:-3]))
        if key in self.memo:
            return self.memo[key], 0
        cls, kwargs, inp = self.build(case, False)
        base = self.memo[key] = cls(**kwargs)(None, inp)
        return base, 1

    def tidy(self, case, got):
        if not isinstance(got, dict):
            return got
        key = 'overall_message' if 'input_list' in got else 'msg'
        if isinstance(got.get(key), str):
            text, n = PRE_RE.subn('', got[key])
            if n != 1:
                raise HarnessError('debug=True but no debug log in %r' % (got[key],))
            got = dict(got)
            got[key] = TAIL_RE.sub('', text)
        return got


EXPECT = [
    # kind, expect attribute, student inputs
    ('string', 'cat', ['cat', 'dog']),
    ('string_any', None, ['whatever', '']),
    ('formula', 'x+1', ['1+x', 'x']),
    ('numerical', '3.5', ['7/2', '3']),
    ('singlelist', 'a, b', ['b,a', 'a,x', 'x,y']),
]


class ExpectInferred(GraderFamily):
    name = 'answers_inferred_from_expect'
    rule = ('the way the documentation itself calls the graders: NO answers configured, the answer is inferred from the edX '
            'expect attribute -- StringGrader("cat"), StringGrader(accept_any, expect None), FormulaGrader("x+1"), '
            '(thorough:) NumericalGrader("3.5"), SingleListGrader("a, b") x 2-3 student inputs x 5 (thorough 8) schedules x attempts {-3, 0, 1, 2, 5, 200, '
            'absent} x note flag, judged against the same call on a grader without the feature')

    def prefixes(self, tier):
        return [(kind, k) for kind, _, inputs in EXPECT for k in range(len(inputs))
                if tier != 'quick' or kind != 'numerical']

    def specs(self, tier):
        return MIXED_TINY if tier == 'quick' else OTHER_QUICK

    def row(self, case):
        return [r for r in EXPECT if r[0] == case[0]][0]

    def expect(self, case):
        return self.row(case)[1]

    def config(self, case):
        kind, _, inputs = self.row(case)
        inp = inputs[case[1]]
        if kind == 'string':
            return StringGrader, {}, inp
        if kind == 'string_any':
            return StringGrader, {'accept_any': True}, inp
        if kind == 'formula':
            return FormulaGrader, {'variables': ['x']}, inp
        if kind == 'numerical':
            return NumericalGrader, {'tolerance': 1e-6}, inp
        return SingleListGrader, {'subgrader': StringGrader()}, inp


REG_KINDS = [
    # grader kind, classes on which the defaults may be registered so that the TOP-LEVEL grader has the feature on
    ('string', ['AbstractGrader', 'ItemGrader', 'StringGrader']),
    ('list', ['AbstractGrader', 'ListGrader']),
    ('nested', ['AbstractGrader', 'ListGrader']),
    ('singlelist', ['AbstractGrader', 'SingleListGrader']),
]
REG_CLASSES = {'AbstractGrader': AbstractGrader, 'ItemGrader': ItemGrader, 'StringGrader': StringGrader,
               'ListGrader': ListGrader, 'SingleListGrader': SingleListGrader}
REG_INPUTS = {'string': ['full', 'half', 'wrong'],
              'list': [['f0', 'f1'], ['p0', 'x'], ['x', 'y']],
              'nested': [['f0', 'f1', 'f2'], ['x', 'p1', 'f2'], ['x', 'y', 'z']],
              'singlelist': ['a,b,c', 'a,b', 'x']}
REG_SPECS = [['rec'], ['lin', 1, 4, '0.2'], ['const', 'half']]
REG_OTHER = ['lin', 2, 2, '0.5']


class RegisteredDefaults(Family):
    """the feature switched on course-wide through register_defaults (docs/plugins.md, plugins/defaults_sample.py)"""
    name = 'registered_defaults'
    timeout = 10.0
    rule = ('attempt_based_credit is NOT passed to the grader but registered as a default (register_defaults) on AbstractGrader, '
            'ItemGrader or the grader\'s own class, so that in nested graders every subgrader object has it as well: grader {String, '
            'ordered List, nested List, SingleList} x 3 inputs x registered schedule {Reciprocal, Linear, lambda 0.5} x note {default, '
            'registered False [thorough: registered False + passed True]} x option at the top-level grader {omitted, explicitly None '
            '= disabled, explicitly another schedule} x attempts {0, 1, 3, absent}: the grades of the feature-off result scaled ONCE by '
            'the schedule in force; disabled -> result unchanged and no error without an attempt. The registrations are removed '
            'after every case')

    def cases(self, tier):
        notes = ('default', 'reg_false') if tier == 'quick' else ('default', 'reg_false', 'reg_false_pass_true')
        for kind, classes in REG_KINDS:
            for where in classes:
                for k in range(len(REG_INPUTS[kind])):
                    for spec in REG_SPECS:
                        for note in notes:
                            for override in ('omitted', 'none', 'other'):
                                if override != 'omitted' and spec != REG_SPECS[0] and tier == 'quick':
                                    continue
                                for att in (0, 1, 3, 'absent'):
                                    yield (kind, where, k, spec, note, override, att)

    @staticmethod
    def build(kind, extra):
        if kind == 'string':
            cls, kwargs, _ = StringBuiltin().config(('x', 1))
        elif kind == 'list':
            cls, kwargs = ListGrader, {'answers': [ListVectors.answer(0), ListVectors.answer(1)],
                                       'subgraders': StringGrader(), 'ordered': True}
        elif kind == 'nested':
            cls, kwargs, _ = ListVectors().config(([1, 1, 1], 'nested'))
        else:
            cls, kwargs = SingleListGrader, {'answers': ['a', 'b', 'c'], 'subgrader': StringGrader()}
        kwargs.update(extra)
        return cls(**kwargs)

    def describe(self, case):
        kind, where, k, spec, note, override, att = case
        return {'grader': kind, 'student_input': REG_INPUTS[kind][k],
                'registered': '%s.register_defaults({attempt_based_credit: %s%s})'
                              % (where, ref.describe_spec(spec), '' if note == 'default' else ', attempt_based_credit_msg: False'),
                'passed to the top-level grader': {'omitted': 'nothing', 'none': 'attempt_based_credit=None',
                                                   'other': 'attempt_based_credit=' + ref.describe_spec(REG_OTHER)}[override]
                                                  + (', attempt_based_credit_msg=True' if note == 'reg_false_pass_true' else ''),
                'attempt': att}

    def check(self, case):
        kind, where, k, spec, note, override, att = case
        inp = REG_INPUTS[kind][k]
        if not hasattr(self, 'memo'):
            self.memo = {}
        calls = 1
        key = json.dumps([kind, k])
        if key not in self.memo:
            self.memo[key] = self.build(kind, {})(None, copy.deepcopy(inp))
            calls += 1
        base = self.memo[key]
        target = REG_CLASSES[where]
        saved = {name: c.default_values for name, c in REG_CLASSES.items()}
        if any(v is not None for v in saved.values()):
            raise HarnessError('registered defaults were left behind: %r' % (saved,))
        sched, rec = make_schedule(spec)
        registered = {'attempt_based_credit': sched}
        if note != 'default':
            registered['attempt_based_credit_msg'] = False
        extra, in_force, rec_in_force = {}, spec, rec
        if override == 'none':
            extra['attempt_based_credit'] = None
            in_force = None
        elif override == 'other':
            extra['attempt_based_credit'], rec_in_force = make_schedule(REG_OTHER)
            in_force = REG_OTHER
        if note == 'reg_false_pass_true':
            extra['attempt_based_credit_msg'] = True
        flag = 1 if note in ('default', 'reg_false_pass_true') else 0
        got = exc = None
        try:
            target.register_defaults(registered)
            grader = self.build(kind, extra)
            got = grader(None, copy.deepcopy(inp), **attempt_kw(att))
        except Exception as e:
            exc = e
        finally:
            for name, c in REG_CLASSES.items():
                c.default_values = saved[name]
        if in_force is None:
            positive = any(e['grade_decimal'] > 0 for e in entries_of(base)[1])
            if exc is not None:
                return Result('disabled-raised', True,
                              viol('registered-default:explicit-None-does-not-disable:' + type(exc).__name__,
                                   'attempt_based_credit=None passed to a grader whose class has a registered schedule, attempt=%r: %r'
                                   % (att, exc), base, repr(exc)), calls)
            if got != base:
                return Result('disabled-changed', True,
                              viol('registered-default:explicit-None-does-not-disable',
                                   'attempt_based_credit=None passed to a grader whose class has a registered schedule, attempt=%r: the '
                                   'result differs from the feature-off result' % (att,), base, got), calls)
            return Result('disabled:' + ('positive' if positive else 'all-zero'), positive and att != 1, None, calls)
        if override == 'other' and rec is not None and rec:
            return Result('wrong-schedule', True, viol('registered-default:overridden-schedule-was-called',
                                                       'the registered schedule was called with %r although another one was passed' % (rec,),
                                                       [], rec), calls)
        res = judge(in_force, att, flag, base, got, exc, rec_in_force, calls)
        if res.violation is not None:
            res.violation['sig'] = 'registered-default:' + res.violation['sig']
        return res


HIST_ATTEMPTS = ['absent', None, 1, 3, 7, 0]


def _hist_make(kind, sched):
    from mitxgraders import LinearCredit, GeometricCredit
    credit = {'linear': LinearCredit(decrease_credit_after=1), 'geometric': GeometricCredit(factor=0.5),
              'ramp': (lambda n: max(0.0, 1 - 0.25 * (n - 1)))}[sched]
    if kind == 'string':
        return StringGrader(answers=('cat', {'expect': 'dog', 'grade_decimal': 0.5}), attempt_based_credit=credit), ['cat', 'dog', 'emu']
    if kind == 'list':
        return (ListGrader(answers=['cat', {'expect': 'dog', 'grade_decimal': 0.5}], subgraders=StringGrader(),
                           attempt_based_credit=credit), [['cat', 'dog'], ['dog', 'x']])
    return (SingleListGrader(answers=['a', 'b'], subgrader=StringGrader(), attempt_based_credit=credit), ['a,b', 'a,z'])


def _hist_call(g, inp, att):
    try:
        if att == 'absent':
            return ('ok', g(None, copy.deepcopy(inp)))
        return ('ok', g(None, copy.deepcopy(inp), attempt=att))
    except Exception as e:
        return ('err', type(e).__name__)


class AttemptHistory(Family):
    """the attempt number of one call must not carry over to the next call on the same grader object"""
    name = 'attempt_history'
    rule = ('grader kinds {String, List, SingleList} x schedules {Linear, Geometric, author ramp} x sequences of calls on ONE grader '
            'object; quick: two different inputs x every pair of attempts from {absent, None, 1, 3, 7, 0}, and the SAME input twice '
            '(every input of the kind) x every pair from {absent, 1, 3, 0}; thorough: every sequence of 2 calls over attempts x all '
            'inputs, and every sequence of 3 calls over the attempts on inputs 0, 1, 0: each call must give what a fresh grader '
            'gives for that call alone (in particular: no attempt number -> ConfigError even after a call that supplied one, and a '
            'grade is not scaled a second time)')

    SAME = [0, 2, 3, 5]     # indices into HIST_ATTEMPTS: absent, 1, 3, 0

    def cases(self, tier):
        A = range(len(HIST_ATTEMPTS))
        for kind in ('string', 'list', 'singlelist'):
            n_inputs = len(_hist_make(kind, 'ramp')[1])
            for sched in ('linear', 'geometric', 'ramp'):
                if tier == 'quick':
                    for a in A:                       # two different inputs, every pair of attempts
                        for b in A:
                            yield (kind, sched, [[a, 0], [b, 1]])
                    for ii in range(n_inputs):        # the same input twice
                        for a in self.SAME:
                            for b in self.SAME:
                                yield (kind, sched, [[a, ii], [b, ii]])
                else:
                    steps = [(ai, ii) for ii in range(n_inputs) for ai in A]
                    for seq in itertools.product(steps, repeat=2):
                        yield (kind, sched, [list(x) for x in seq])
                    for seq in itertools.product(A, repeat=3):      # inputs 0, 1, 0: the third call repeats the first input
                        yield (kind, sched, [[seq[0], 0], [seq[1], 1], [seq[2], 0]])

    def check(self, case):
        kind, sched, seq = case
        g, inputs = _hist_make(kind, sched)
        calls = 0
        outcomes = set()
        atts = [HIST_ATTEMPTS[ai] for ai, _ in seq]
        for step, (ai, ii) in enumerate(seq):
            att = HIST_ATTEMPTS[ai]
            inp = inputs[ii]
            got = _hist_call(g, inp, att)
            fresh, _ = _hist_make(kind, sched)
            exp = _hist_call(fresh, inp, att)
            calls += 2
            outcomes.add(exp[0] if exp[0] == 'err' else 'graded')
            if got != exp:
                return Result('differs', True,
                              viol('history:%s' % ('missing-attempt-not-refused-after-earlier-call' if exp[0] == 'err' and got[0] == 'ok'
                                                   else 'call-depends-on-earlier-attempt'),
                                   '%s grader, %s schedule, attempts %r, inputs %r: call %d (input %r, attempt %r) gave %r; a fresh grader gives %r'
                                   % (kind, sched, atts, [inputs[i] for _, i in seq], step + 1, inp, att, got, exp), exp, got), calls)
        repeated = len(set(ii for _, ii in seq)) < len(seq)
        return Result('+'.join(sorted(outcomes)) + (',same-input-again' if repeated else ''),
                      len(outcomes) > 1 or (repeated and 'graded' in outcomes), None, calls)


# (Genuine defect found by this family, repaired in /repo -- see KNOWN_FINDINGS.json.)  On the pinned tree every case of
# the family registered_defaults failed -- a schedule registered
# through register_defaults (the course-wide switch of docs/plugins.md / plugins/defaults_sample.py) makes EVERY grading call
# raise TypeError('Object of type ReciprocalCredit is not JSON serializable') from AbstractGrader.create_debuglog
# (json.dumps(self.modified_defaults)), whatever the attempt.
PENDING_REGISTERED_DEFAULTS = False     # the family found a genuine defect (repaired): it runs


def families(tier):
    nmax = {'quick': 200, 'thorough': 200}
    fams = [
        ScheduleFamily('sched_linear', {'quick': LIN_GRID, 'thorough': LIN_GRID_MORE}, nmax,
                       'LinearCredit: decrease_credit_after 1-6 x decrease_credit_steps 1-6 x minimum_credit '
                       '{0, 0.1, 0.2, 0.5, 1} (thorough: 1-8 x 1-8 x 13 minima incl. 0.0, 1.0, 0.3333, 0.9999, 0.0001) '
                       'x attempts 1..200; each value compared with the exact piecewise-linear rational value, with '
                       'the next value, with the minimum and with [0, 1]; non-trivial = first attempt or the exact '
                       'value changes at the next attempt'),
        ScheduleFamily('sched_geometric', {'quick': GEO_GRID, 'thorough': GEO_GRID_MORE}, nmax,
                       'GeometricCredit: factor {0, 0.1, 0.25, 0.5, 0.75, 0.9, 0.99, 1 (int), 1.0, 0.0} (thorough: every '
                       'multiple of 0.01 and 0.999, 0.9999, 0.0001, 0.001, 0.3333, 0.6667) x attempts 1..200 against '
                       'the exact power factor**(n-1)'),
        ScheduleFamily('sched_reciprocal', {'quick': [['rec']], 'thorough': [['rec']]},
                       {'quick': 200, 'thorough': 5000},
                       'ReciprocalCredit x attempts 1..200 (thorough 1..5000) against exactly 1/n'),
    ]
    lin_corners = [spec for spec in LIN_GRID if spec[1] in (1, 6) and spec[2] in (1, 6)]
    big = BigAttempts({'quick': lin_corners + GEO_GRID + [['rec']], 'thorough': LIN_GRID + GEO_GRID_MORE + [['rec']]})
    graders = [StringBuiltin(), TableCustom(), ListVectors(), RawResults(), OtherGraders()]
    more = [RawListFine(), DebugOn(), ExpectInferred()]
    pending = [] if PENDING_REGISTERED_DEFAULTS else [RegisteredDefaults()]
    return (fams + [CoexistingSchedules(), big, DefaultSchedules()] + graders + [FeatureOff(graders)] + more
            + pending + [AttemptHistory()])
