"""
C17 -- attempt-based credit scales grades by a bounded, non-increasing schedule.

Two groups of bounded exhaustive families:

  * sched_*   : every (schedule configuration, attempt) pair of a grid is handed to the real
                LinearCredit / GeometricCredit / ReciprocalCredit object and compared with the
                exact rational value promised by the documentation, plus the statement's
                invariants (1 on the first attempt, within [0, 1], never below the minimum,
                never increasing).
  * graders   : every (grader configuration, student input, schedule, attempt, note flag) of a
                grid is graded by the REAL grader with the feature on, and judged against the
                result of the same grader with the feature off using the product law of the
                statement (string_builtin_schedules, table_custom_schedules, listgrader_vectors,
                raw_results, other_graders).
  * feature_off_ignores_attempt : without the option the attempt must not matter.
"""
import copy
import json
import random
import itertools

import numpy

from mitxgraders import (StringGrader, ListGrader, SingleListGrader, FormulaGrader, NumericalGrader,
                         SumGrader, LinearCredit, GeometricCredit, ReciprocalCredit)
from mitxgraders.baseclasses import AbstractGrader
from mitxgraders.exceptions import ConfigError
from voluptuous import Required

from ..core import Family, Result, viol, HarnessError
from ..fixtures import TableGrader
from ..refs import c17_ref as ref

PROPERTY = 'C17'
RULE = ('every combination of each family\'s stated grids is enumerated in a fixed order (schedule '
        'configuration x attempt for the sched_* families; grader configuration x student input x schedule x '
        'attempt x note flag for the grader families). A schedule case is non-trivial when the documented value '
        'changes between this attempt and the next (or it is the first attempt); a grader case is non-trivial '
        'when the attempt is missing (an error is required), or some base grade is positive and either the '
        'schedule value differs from 1 or the attempt is below 1 (so that a wrong product, a missing clamp, a '
        'stale ok or a wrong note would be visible)')
EXPLANATION = ('states = distinct enumerated cases; transitions = executions of the real code: two schedule '
               'evaluations per sched_* case; per grader case one call with the feature on plus one call with the '
               'feature off (the latter computed once per worker process for each grader configuration / input and '
               'kept). The expected result is computed from the feature-off result of the '
               'same grader and the exact rational schedule value of the reference model, never from '
               'apply_attempt_based_credit itself')
ASSUMPTIONS = ['the result of the same grader configured without attempt_based_credit is the base result '
               '(its own correctness is the subject of other properties)',
               'the library rounds schedule values to four decimals (documented only by example: 0.3333 / 33.3%); '
               'the statement does not mention the rounding, so grades are compared with a guard band of half a '
               'unit in the fourth decimal (relative to the base grade) and the percentage with 0.055',
               'whether a value within that band of 1 counts as a reduction is left open; the note must then be '
               'consistent with whether the observed grade dropped',
               'the separator between an existing message and the note is left open (whitespace and <br/> only)',
               'LinearCredit minimum_credit values with more than four decimals are outside the grid',
               'numpy / random are re-seeded with a constant before every grader call (the graded inputs are equal or '
               'unequal for every sample, so the verdicts do not depend on the draws)',
               'attempt numbers are Python ints; author schedules return ints or floats within [0, 1]']

ATTEMPTS_QUICK = [-3, 0] + list(range(1, 13)) + [200, 'absent', 'none']
ATTEMPTS_SHORT = [-3, 0, 1, 2, 3, 5, 12, 200, 'absent']
ATTEMPTS_TINY = [-3, 0, 1, 2, 5, 200, 'absent']
ATTEMPTS_OFF = [-3, 0, 1, 2, 200, 'none']


# --------------------------------------------------------------------------- schedules

def make_builtin(spec):
    kind = spec[0]
    if kind == 'lin':
        return LinearCredit(decrease_credit_after=int(spec[1]), decrease_credit_steps=int(spec[2]),
                            minimum_credit=ref.number(spec[3]))
    if kind == 'geo':
        return GeometricCredit(factor=ref.number(spec[1]))
    if kind == 'rec':
        return ReciprocalCredit()
    raise HarnessError('not a built-in schedule: %r' % (spec,))


def make_schedule(spec):
    """-> (callable handed to the grader, list recording the arguments it was called with or None)"""
    kind = spec[0]
    if kind in ('lin', 'geo', 'rec'):
        return make_builtin(spec), None
    rec = []
    val = ref.VALUES[spec[1]]
    if kind == 'const':
        def sched(n):
            rec.append(n)
            return val
    elif kind == 'step':
        def sched(n):
            rec.append(n)
            return 1 if n == 1 else val
    elif kind == 'ramp':
        def sched(n):
            rec.append(n)
            return val ** (n - 1)
    else:
        raise HarnessError('unknown schedule %r' % (spec,))
    return sched, rec


class ScheduleFamily(Family):
    """one case = (schedule spec, attempt n); evaluates the real schedule at n and n+1"""
    timeout = 5.0
    label = '?'

    def __init__(self, name, specs_by_tier, nmax_by_tier, rule):
        self.name = name
        self.specs_by_tier = specs_by_tier
        self.nmax_by_tier = nmax_by_tier
        self.rule = rule
        self.cache = {}

    def cases(self, tier):
        for spec in self.specs_by_tier[tier]:
            for n in range(1, self.nmax_by_tier[tier] + 1):
                yield (list(spec), n)

    def describe(self, case):
        return {'schedule': ref.describe_spec(case[0]), 'attempt': case[1]}

    def check(self, case):
        spec, n = case
        key = tuple(spec)
        sched = self.cache.get(key)
        if sched is None:
            sched = self.cache[key] = make_builtin(spec)
        cls = type(sched).__name__
        try:
            v = sched(n)
            w = sched(n + 1)
        except Exception as e:
            return Result('raised', True, viol('%s:raised:%s' % (cls, type(e).__name__),
                                               'schedule raised %r' % (e,), 'a number', repr(e)), 2)
        ex, ex_next = ref.exact(spec, n), ref.exact(spec, n + 1)
        nontriv = (n == 1) or ex != ex_next
        if isinstance(v, bool) or not isinstance(v, (int, float)):
            return Result('badtype', nontriv, viol('%s:not-a-number' % cls, 'schedule returned %r' % (v,),
                                                   'int or float', repr(v)), 2)
        if n == 1 and v != 1:
            return Result('first!=1', nontriv, viol('%s:first-attempt-not-1' % cls,
                                                    'value on the first attempt is %r' % (v,), 1, v), 2)
        if not (-ref.EPS <= v <= 1 + ref.EPS):
            return Result('range', nontriv, viol('%s:outside-0-1' % cls, 'value %r at attempt %d' % (v, n),
                                                 '[0, 1]', v), 2)
        if spec[0] == 'lin' and v < float(ref.frac(spec[3])) - ref.EPS:
            return Result('belowmin', nontriv, viol('LinearCredit:below-minimum',
                                                    'value %r at attempt %d is below minimum_credit %s' % (v, n, spec[3]),
                                                    '>= ' + spec[3], v), 2)
        if w > v + ref.EPS:
            return Result('increase', nontriv, viol('%s:increases' % cls,
                                                    'value rises from %r (attempt %d) to %r (attempt %d)' % (v, n, w, n + 1),
                                                    '<= %r' % (v,), w), 2)
        if abs(v - float(ex)) > ref.ROUND_BAND:
            return Result('formula', nontriv, viol('%s:not-the-documented-value' % cls,
                                                   'value %r at attempt %d, documentation gives %s = %.6f' % (v, n, ex, float(ex)),
                                                   float(ex), v), 2)
        level = 'one' if v == 1 else ('zero' if v == 0 else
                                      ('min' if spec[0] == 'lin' and abs(v - float(ref.frac(spec[3]))) <= ref.EPS else 'mid'))
        return Result('%s,%s' % (level, 'drops-next' if w < v else 'flat-next'), nontriv, None, 2)


class CoexistingSchedules(Family):
    """several schedule objects alive at once: each keeps to its own parameters"""
    name = 'schedules_coexisting'
    timeout = 5.0
    SPECS = [['geo', '0.5'], ['geo', '0.9'], ['geo', '0.25'], ['geo', '1'], ['geo', '0'], ['lin', '1', '4', '0.2'],
             ['lin', '2', '2', '0.5'], ['lin', '3', '1', '0'], ['rec']]
    rule = ('every ordered pair (A, B) of 9 built-in schedule objects (5 GeometricCredit factors, 3 LinearCredit settings, '
            'ReciprocalCredit) created side by side and called alternately at attempts n, n, n+1, n+1, 1, 1, 7, 7 for n in 1..6: every '
            'value equals the exact documented value of ITS OWN schedule')

    def cases(self, tier):
        for a in range(len(self.SPECS)):
            for b in range(len(self.SPECS)):
                if a != b:
                    for n in range(1, 7):
                        yield (a, b, n)

    def describe(self, case):
        a, b, n = case
        return {'A': ref.describe_spec(self.SPECS[a]), 'B': ref.describe_spec(self.SPECS[b]), 'first attempt asked': n}

    def check(self, case):
        a, b, n = case
        A, B = make_builtin(self.SPECS[a]), make_builtin(self.SPECS[b])
        calls = 0
        for att in (n, n + 1, 1, 7):
            for spec, obj, who in ((self.SPECS[a], A, 'A'), (self.SPECS[b], B, 'B')):
                calls += 1
                try:
                    v = obj(att)
                except Exception as e:
                    return Result('raised', True, viol('coexisting:raised', '%s raised %r at attempt %d' % (who, e, att)), calls)
                ex = float(ref.exact(spec, att))
                if isinstance(v, bool) or not isinstance(v, (int, float)) or abs(v - ex) > ref.ROUND_BAND:
                    return Result('wrong', True,
                                  viol('coexisting:%s:not-its-own-documented-value' % type(obj).__name__,
                                       '%s = %s next to %s: value %r at attempt %d, its documentation gives %.6f'
                                       % (who, ref.describe_spec(spec), ref.describe_spec(self.SPECS[b] if who == 'A' else self.SPECS[a]),
                                          v, att, ex), ex, v), calls)
        return Result('own-values', True, None, calls)


# --------------------------------------------------------------------------- judging a graded result

def entries_of(result):
    """-> (is_list, [entry dicts], message key, message)"""
    if isinstance(result, dict) and 'input_list' in result:
        return True, result['input_list'], 'overall_message', result.get('overall_message')
    return False, [result], 'msg', result.get('msg')


def same_ok(a, b):
    """True / False / 'partial' compared without letting 1 == True or 0 == False through"""
    return type(a) is type(b) and a == b


def judge(spec, attempt, flag, base, got, exc, rec, calls=2):
    """
    base      result of the grader without attempt_based_credit (no attempt passed)
    got/exc   result or exception of the grader with the feature on
    rec       arguments an author-defined schedule was called with (None for built-ins)
    """
    b_list, b_entries, key, b_msg = entries_of(base)
    positive = any(e['grade_decimal'] > 0 for e in b_entries)

    # ---- attempt missing: configuration error required
    if attempt in ('absent', 'none'):
        if exc is None:
            return Result('absent-graded', True, viol('absent-attempt:no-config-error',
                                                      'attempt not supplied but a grade was returned',
                                                      'ConfigError', got), calls)
        if not isinstance(exc, ConfigError):
            return Result('absent-other-error', True, viol('absent-attempt:wrong-error:' + type(exc).__name__,
                                                           'attempt not supplied: %r' % (exc,), 'ConfigError', repr(exc)), calls)
        return Result('config-error', True, None, calls)

    site = 'list' if b_list else 'single'
    if exc is not None:
        return Result('raised', True, viol('%s:raised:%s' % (site, type(exc).__name__),
                                           'grader with attempt=%r raised %r' % (attempt, exc), 'a result', repr(exc)), calls)
    n_eff = max(attempt, 1)
    s = float(ref.exact(spec, n_eff))
    nontriv = positive and (abs(s - 1) > ref.EPS or attempt < 1)

    if rec is not None and any(a != n_eff for a in rec):
        return Result('unclamped', nontriv, viol('clamp:schedule-not-called-with-max(attempt,1)',
                                                 'author schedule was called with %r for attempt=%r' % (rec, attempt),
                                                 [n_eff], rec), calls)

    # ---- structure
    if not isinstance(got, dict):
        return Result('badresult', nontriv, viol(site + ':result-not-a-dict', 'result %r' % (got,), base, got), calls)
    g_list, g_entries, _, g_msg = entries_of(got)
    same_shape = (g_list == b_list and sorted(got) == sorted(base) and len(g_entries) == len(b_entries)
                  and all(isinstance(e, dict) and sorted(e) == sorted(b) for e, b in zip(g_entries, b_entries))
                  and isinstance(g_msg, str))
    if not same_shape:
        return Result('badshape', nontriv, viol(site + ':structure-changed', 'keys / length of the result changed',
                                                base, got), calls)

    # ---- grades and ok, entry by entry
    reduced = False
    zeroed = False
    for i, (b, e) in enumerate(zip(b_entries, g_entries)):
        g0, g1 = b['grade_decimal'], e['grade_decimal']
        where = 'entry %d: ' % i if b_list else ''
        if isinstance(g1, bool) or not isinstance(g1, (int, float)):
            return Result('badgrade', nontriv, viol(site + ':grade-not-a-number', where + 'grade %r' % (g1,), None, got), calls)
        if not g0 > 0:
            if g1 != 0 or not same_ok(e['ok'], b['ok']):
                return Result('zero-changed', nontriv, viol(site + ':zero-grade-changed',
                                                            where + 'base grade 0 / ok %r became %r / ok %r'
                                                            % (b['ok'], g1, e['ok']), b, e), calls)
        else:
            want = g0 * s
            if abs(g1 - want) > g0 * ref.ROUND_BAND + ref.EPS:
                return Result('wrong-product', nontriv,
                              viol(site + ':grade-not-base-times-schedule',
                                   where + 'base grade %r, schedule value %.6f for attempt %r: expected %.6f, got %r'
                                   % (g0, s, attempt, want, g1), want, g1), calls)
            if not same_ok(e['ok'], ref.ok_of(g1)):
                return Result('stale-ok', nontriv,
                              viol(site + ':ok-not-recomputed',
                                   where + 'grade %r but ok=%r' % (g1, e['ok']), ref.ok_of(g1), e['ok']), calls)
            if g1 < g0 - ref.EPS:
                reduced = True
                if g1 == 0:
                    zeroed = True
        if b_list and e.get('msg') != b.get('msg'):
            return Result('entry-msg', nontriv, viol('list:entry-message-changed', where + 'per-input message changed',
                                                     b.get('msg'), e.get('msg')), calls)

    # ---- the note
    enabled = flag in (1, 'default', True)
    if reduced and enabled:
        problem, atxt, ptxt = ref.split_note(b_msg, g_msg)
        if problem is not None:
            return Result('note-' + problem, nontriv, viol('%s:note-%s' % (site, problem),
                                                           'a grade was reduced and the note is enabled; %s is %r' % (key, g_msg),
                                                           b_msg + ' [+ Maximum credit for attempt #%d is p%%.]' % n_eff, g_msg), calls)
        if atxt != str(n_eff):
            return Result('note-attempt', nontriv, viol(site + ':note-wrong-attempt-number',
                                                        'note names attempt %s for attempt=%r' % (atxt, attempt),
                                                        str(n_eff), atxt), calls)
        pp = ref.percent_problem(ptxt, s)
        if pp is not None:
            return Result('note-' + pp, nontriv, viol('%s:note-%s' % (site, pp),
                                                      'schedule value %.6f printed as %r%%' % (s, ptxt),
                                                      '%.4f%% with at most one decimal' % (100 * s), ptxt), calls)
        return Result('zeroed+note' if zeroed else 'reduced+note', nontriv, None, calls)
    if g_msg != b_msg:
        if 'Maximum credit' in g_msg:
            why = 'no grade was reduced' if not reduced else 'attempt_based_credit_msg is False'
            return Result('note-unexpected', nontriv, viol(site + ':note-unexpected:' + why.replace(' ', '-'),
                                                           'note present although ' + why, b_msg, g_msg), calls)
        return Result('msg-changed', nontriv, viol(site + ':message-changed', key + ' changed', b_msg, g_msg), calls)
    if reduced:
        return Result('zeroed-silent' if zeroed else 'reduced-silent', nontriv, None, calls)
    if not positive:
        return Result('all-zero-untouched', nontriv, None, calls)
    return Result('full-credit' if abs(s - 1) <= ref.EPS else 'within-rounding-of-full', nontriv, None, calls)


class GraderFamily(Family):
    """
    A case is prefix + (schedule spec, attempt, flag).  Subclasses give `prefixes(tier)` (grader
    configuration / student input selectors), `specs(tier)`, `attempts(tier)`, `flags`, and
    `config(case)` -> (class, kwargs, student_input), built afresh on every call.
    """
    timeout = 10.0
    flags = (1, 0)

    def attempts(self, tier):
        return ATTEMPTS_TINY if tier == 'quick' else ATTEMPTS_SHORT

    def cases(self, tier):
        specs, atts = self.specs(tier), self.attempts(tier)
        for prefix in self.prefixes(tier):
            for spec in specs:
                for att in atts:
                    for flag in self.flags:
                        yield tuple(prefix) + (spec, att, flag)

    def config(self, case):
        raise NotImplementedError

    def describe(self, case):
        cls, kwargs, student_input = self.config(case)
        spec, attempt, flag = case[-3], case[-2], case[-1]
        return {'grader': cls.__name__, 'config': kwargs, 'student_input': student_input,
                'attempt_based_credit': ref.describe_spec(spec), 'attempt': attempt,
                'attempt_based_credit_msg': flag}

    def base_result(self, case):
        """
        Result of the same grader and input with the feature off.  It depends only on the prefix of the
        case: computed once per worker process and kept (never modified afterwards).
        -> (result, number of grader calls made now)
        """
        if not hasattr(self, 'memo'):
            self.memo = {}
        key = json.dumps(list(case[:-3]), sort_keys=True)
        if key in self.memo:
            return self.memo[key], 0
        cls, kwargs, student_input = self.config(case)
        reseed()
        base = self.memo[key] = cls(**kwargs)(None, student_input)
        return base, 1

    def check(self, case):
        spec, attempt, flag = case[-3], case[-2], case[-1]
        base, calls = self.base_result(case)
        cls, kwargs, student_input = self.config(case)
        sched, rec = make_schedule(spec)
        kwargs['attempt_based_credit'] = sched
        if flag != 'default':
            kwargs['attempt_based_credit_msg'] = bool(flag)
        grader = cls(**kwargs)
        got = exc = None
        reseed()
        try:
            got = grader(None, student_input, **attempt_kw(attempt))
        except Exception as e:      # judged below
            exc = e
        return judge(spec, attempt, flag, base, got, exc, rec, calls + 1)


def reseed():
    """FormulaGrader / SumGrader draw samples; pin the streams so that every execution of a case is identical"""
    numpy.random.seed(20170)
    random.seed(20170)


def attempt_kw(attempt):
    if attempt == 'absent':
        return {}
    return {'attempt': None if attempt == 'none' else attempt}


class FeatureOff(Family):
    """the statement's "when attempt-based credit is enabled": without it the attempt must not matter"""
    name = 'feature_off_ignores_attempt'
    rule = ('every grader configuration / student input of the grader families below, configured WITHOUT '
            'attempt_based_credit (option omitted, and explicitly None) x attempts {-3, 0, 1..12, 200, None}: the result '
            'must equal the result of the call without an attempt; non-trivial = some grade is positive')
    timeout = 10.0

    def __init__(self, fams):
        self.fams = fams

    def cases(self, tier):
        for i, fam in enumerate(self.fams):
            for prefix in fam.prefixes(tier):
                for mode in ('omitted', 'none'):
                    for att in (ATTEMPTS_OFF if tier == 'quick' else ATTEMPTS_QUICK):
                        if att != 'absent':
                            yield (i, list(prefix), mode, att)

    def pseudo(self, case):
        return tuple(case[1]) + (None, None, None)

    def describe(self, case):
        fam = self.fams[case[0]]
        cls, kwargs, student_input = fam.config(self.pseudo(case))
        return {'grader': cls.__name__, 'config': kwargs, 'student_input': student_input,
                'attempt_based_credit': case[2], 'attempt': case[3]}

    def check(self, case):
        fam = self.fams[case[0]]
        base, calls = fam.base_result(self.pseudo(case))
        cls, kwargs, student_input = fam.config(self.pseudo(case))
        if case[2] == 'none':
            kwargs['attempt_based_credit'] = None
        reseed()
        try:
            got = cls(**kwargs)(None, student_input, **attempt_kw(case[3]))
        except Exception as e:
            return Result('raised', True, viol('feature-off:raised:' + type(e).__name__,
                                               'attempt=%r passed to a grader without attempt_based_credit: %r' % (case[3], e),
                                               base, repr(e)), calls + 1)
        _, entries, _, _ = entries_of(base)
        positive = any(e['grade_decimal'] > 0 for e in entries)
        if got != base:
            return Result('changed', positive, viol('feature-off:attempt-affects-result',
                                                    'attempt passed to a grader without attempt_based_credit changed the result',
                                                    base, got), calls + 1)
        return Result('same:' + ('positive' if positive else 'all-zero'), positive, None, calls + 1)


# --------------------------------------------------------------------------- grids of schedules

MINS = ['0', '0.1', '0.2', '0.5', '1']
MINS_MORE = MINS + ['0.0', '1.0', '0.25', '0.3333', '0.9999', '0.0001', '0.05', '0.75']
LIN_GRID = [['lin', a, s, m] for a in range(1, 7) for s in range(1, 7) for m in MINS]
LIN_GRID_MORE = [['lin', a, s, m] for a in range(1, 9) for s in range(1, 9) for m in MINS_MORE]
GEO_FACTORS = ['0', '0.1', '0.25', '0.5', '0.75', '0.9', '0.99', '1', '1.0', '0.0']
GEO_FACTORS_MORE = (GEO_FACTORS + ['%.2f' % (k / 100.0) for k in range(1, 100) if k not in (10, 25, 50, 75, 90, 99)]
                    + ['0.999', '0.9999', '0.0001', '0.001', '0.3333', '0.6667'])
GEO_GRID = [['geo', f] for f in GEO_FACTORS]
GEO_GRID_MORE = [['geo', f] for f in GEO_FACTORS_MORE]

BUILTIN_SMALL = [['lin', 1, 4, '0.2'], ['lin', 3, 3, '0.1'], ['lin', 1, 2, '0'], ['lin', 2, 1, '1'],
                 ['lin', 1, 3, '0.5'], ['lin', 6, 6, '0.0'],
                 ['geo', '0.75'], ['geo', '0.5'], ['geo', '0'], ['geo', '1'], ['geo', '0.9'], ['geo', '0.1'],
                 ['rec']]
CUSTOM_NAMES = ['int1', 'int0', 'float1', 'float0', 'half', 'r99996', 'r99994', 'p3333', 'third', 'tiny',
                'sixteenth', 'p1875', 'p999', 'eighth', 'p0004', 'p8']
CUSTOM = [[k, v] for v in CUSTOM_NAMES for k in ('const', 'step')] + [['ramp', 'p8'], ['ramp', 'third'], ['ramp', 'float1']]
MIXED_TINY = [['lin', 1, 4, '0.2'], ['lin', 1, 2, '0'], ['rec'], ['step', 'r99996'], ['const', 'half']]
OTHER_QUICK = [['lin', 1, 4, '0.2'], ['lin', 3, 3, '0.1'], ['lin', 1, 2, '0'], ['geo', '0.5'], ['geo', '0'], ['geo', '1'],
               ['rec'], ['step', 'sixteenth']]
MIXED_SMALL = [['lin', 1, 4, '0.2'], ['lin', 1, 2, '0'], ['geo', '0.5'], ['geo', '1'], ['rec'],
               ['step', 'r99996'], ['const', 'half'], ['step', 'sixteenth']]


# --------------------------------------------------------------------------- grader families

class StringBuiltin(GraderFamily):
    name = 'string_builtin_schedules'
    rule = ('StringGrader with answers full (1), half (0.5, msg "Meow!"), third (1/3) x inputs {full, half, third, wrong} '
            'x wrong_msg {"", "too bad"} x built-in schedules (quick: 13 configurations incl. minimum 0 / 1, factor 0 / 1; '
            'thorough: the full LinearCredit grid after 1-6 x steps 1-6 x minimum {0,0.1,0.2,0.5,1}, 10 factors, '
            'ReciprocalCredit) x attempts {-3, 0, 1..12, 200, absent, None} x attempt_based_credit_msg {on, off, default}')
    INPUTS = ['full', 'half', 'third', 'wrong']
    WRONG = ['', 'too bad']

    flags = (1, 0, 'default')

    def prefixes(self, tier):
        return [(inp, wm) for inp in self.INPUTS for wm in (0, 1)]

    def specs(self, tier):
        return BUILTIN_SMALL if tier == 'quick' else LIN_GRID + GEO_GRID + [['rec']]

    def attempts(self, tier):
        return ATTEMPTS_QUICK

    def config(self, case):
        inp, wm = case[0], case[1]
        answers = ({'expect': 'full', 'grade_decimal': 1},
                   {'expect': 'half', 'grade_decimal': 0.5, 'msg': 'Meow!'},
                   {'expect': 'third', 'grade_decimal': 1.0 / 3})
        return StringGrader, {'answers': answers, 'wrong_msg': self.WRONG[wm]}, inp


CREDITS = [('x0', 0), ('x1', 0.001), ('x2', 0.3), ('x3', 1.0 / 3), ('x4', 0.5), ('x5', 0.9999), ('x6', 1),
           ('m4', (0.5, 'hello')), ('m0', (0, 'sorry')), ('m6', (1, 'line one\nline two'))]


class TableCustom(GraderFamily):
    name = 'table_custom_schedules'
    rule = ('author-defined ItemGrader (credit table: 0, 0.001, 0.3, 1/3, 0.5, 0.9999, 1, and 0 / 0.5 / 1 with a message) '
            'x author-defined recording schedules: constant v, "1 on the first attempt else v", and unrounded v**(n-1), '
            'v in {int 1, int 0, 1.0, 0.0, 0.5, 0.99996, 0.99994, 0.3333, 1/3, 0.00004, 0.0625, 0.1875, 0.999, 0.125, '
            '0.0004, 0.8} x attempts {-3, 0, 1, 2, 7, absent} x note flag; the recorded schedule argument must be '
            'max(attempt, 1)')

    def prefixes(self, tier):
        return [(cname,) for cname, _ in CREDITS]

    def specs(self, tier):
        return CUSTOM

    def attempts(self, tier):
        return [-3, 0, 1, 2, 7, 'absent'] if tier == 'quick' else [-3, -1, 0, 1, 2, 3, 7, 200, 'absent', 'none']

    def config(self, case):
        table = {('A', k): v for k, v in CREDITS}
        return TableGrader, {'answers': 'A', 'table': table}, case[0]


GRADE_SYMBOLS = {0: 'z', 0.3: 'p', 0.5: 'h', 1: 'f'}


class ListVectors(GraderFamily):
    name = 'listgrader_vectors'
    rule = ('ListGrader over StringGrader subgraders; every vector of per-box grades of length 2-3 over {0, 0.3, 1} '
            '(thorough: length 2-3 over {0, 0.3, 0.5, 1} and length 4 over {0, 0.3, 1}) x layout {ordered, unordered with inputs reversed, '
            'nested: [ordered pair] + single via grouping} x 8 schedules (built-in and author-defined) x attempts '
            '{-3, 0, 1, 2, 3, 5, 12, 200, absent} x note flag')

    def prefixes(self, tier):
        lengths = (2, 3) if tier == 'quick' else (2, 3, 4)
        for n in lengths:
            grades = [0, 0.3, 1] if tier == 'quick' or n == 4 else [0, 0.3, 0.5, 1]
            for vec in itertools.product(range(len(grades)), repeat=n):
                for layout in ('ordered', 'unordered', 'nested'):
                    if layout == 'nested' and n != 3:
                        continue
                    yield ([grades[i] for i in vec], layout)

    def specs(self, tier):
        return MIXED_TINY if tier == 'quick' else MIXED_SMALL

    @staticmethod
    def answer(i):
        return ({'expect': 'f%d' % i, 'grade_decimal': 1}, {'expect': 'h%d' % i, 'grade_decimal': 0.5},
                {'expect': 'p%d' % i, 'grade_decimal': 0.3, 'msg': 'nearly %d' % i})

    def config(self, case):
        vec, layout = case[0], case[1]
        n = len(vec)
        inputs = ['%s%d' % (GRADE_SYMBOLS[g], i) for i, g in enumerate(vec)]
        answers = [self.answer(i) for i in range(n)]
        if layout == 'ordered':
            kwargs = {'answers': answers, 'subgraders': StringGrader(), 'ordered': True}
        elif layout == 'unordered':
            kwargs = {'answers': answers, 'subgraders': StringGrader(), 'ordered': False}
            inputs = inputs[::-1]
        else:
            kwargs = {'answers': [[answers[0], answers[1]], answers[2]],
                      'subgraders': [ListGrader(subgraders=StringGrader(), ordered=True), StringGrader()],
                      'grouping': [1, 1, 2], 'ordered': True}
        return ListGrader, kwargs, inputs


class RawGrader(AbstractGrader):
    """
    An author-defined grader built directly on AbstractGrader (the documented extension point):
    `check` returns a copy of the configured result, so arbitrary base results -- including a
    non-empty overall_message, which ListGrader never produces -- reach apply_attempt_based_credit.
    """
    @property
    def schema_config(self):
        return super(RawGrader, self).schema_config.extend({Required('result'): dict})

    def check(self, answers, student_input, **kwargs):
        return copy.deepcopy(self.config['result'])


RAW_GRADES = [0, 0.3, 1]
RAW_MSGS = ['', 'Well done', 'two\nlines']


class RawResults(GraderFamily):
    name = 'raw_results'
    rule = ('author-defined AbstractGrader returning a fixed result: single results grade {0, 0.3, 1, 1.0, 0.0} x msg '
            '{"", "Well done", "two\\nlines"}; list results of length 1-3 over grades {0, 0.3, 1} x overall_message '
            '{"", "Well done", "two\\nlines"} with per-input messages and an extra bookkeeping key; x 8 schedules x '
            'attempts {-3, 0, 1, 2, 3, 5, 12, 200, absent} x note flag')

    def prefixes(self, tier):
        shapes = [['single', g, m] for g in ('0', '0.3', '1', '1.0', '0.0') for m in range(len(RAW_MSGS))]
        maxlen = 3 if tier == 'quick' else 4
        for n in range(1, maxlen + 1):
            for vec in itertools.product(range(len(RAW_GRADES)), repeat=n):
                for m in range(len(RAW_MSGS)):
                    shapes.append(['list', list(vec), m])
        return [(shape,) for shape in shapes]

    def specs(self, tier):
        return MIXED_TINY if tier == 'quick' else MIXED_SMALL

    def config(self, case):
        kind, g, m = case[0]
        if kind == 'single':
            grade = ref.number(g)
            result = {'ok': ref.ok_of(grade), 'grade_decimal': grade, 'msg': RAW_MSGS[m]}
            return RawGrader, {'result': result}, 'anything'
        entries = []
        for i, gi in enumerate(g):
            grade = RAW_GRADES[gi]
            entries.append({'ok': ref.ok_of(grade), 'grade_decimal': grade,
                            'msg': '' if i % 2 == 0 else 'box %d' % i, 'bookkeeping': i})
        return RawGrader, {'result': {'overall_message': RAW_MSGS[m], 'input_list': entries}}, ['in'] * len(g)


OTHER = [
    # (label, student inputs) per grader kind
    ('singlelist', ['a,b,c', 'c, a', 'a', 'x', 'a,b,c,d', 'a,x,y,z']),
    ('singlelist_nopartial', ['a,b,c', 'a,b', 'x']),
    ('formula', ['x+1', '1+x', '2*x', 'x']),
    ('numerical', ['3.5', '7/2', '3.6', '3']),
    ('sum', [['1', '4', 'n'], ['0', '4', 'n'], ['1', '3', 'n'], ['1', '4', 'n+1']]),
]


class OtherGraders(GraderFamily):
    name = 'other_graders'
    rule = ('SingleListGrader (partial credit fractions 1, 2/3, 1/3, 0, surplus penalties; and partial_credit=False), '
            'FormulaGrader (answers worth 1 and 0.4 with a message), NumericalGrader (1 and 0.25), SumGrader (list input, '
            'single result) x 4-6 student inputs each x 13 built-in + 8 mixed schedules x attempts {-3, 0, 1, 2, 3, 5, 12, '
            '200, absent} x note flag')

    def prefixes(self, tier):
        return [(label, k) for label, inputs in OTHER for k in range(len(inputs))]

    def specs(self, tier):
        if tier == 'quick':
            return OTHER_QUICK
        return BUILTIN_SMALL + [s for s in MIXED_SMALL if s not in BUILTIN_SMALL]

    def config(self, case):
        label, k = case[0], case[1]
        inp = copy.deepcopy(dict(OTHER)[label][k])
        if label == 'singlelist':
            return SingleListGrader, {'answers': ['a', 'b', 'c'], 'subgrader': StringGrader()}, inp
        if label == 'singlelist_nopartial':
            return SingleListGrader, {'answers': ['a', 'b', 'c'], 'subgrader': StringGrader(),
                                      'partial_credit': False}, inp
        if label == 'formula':
            answers = ({'expect': 'x+1', 'grade_decimal': 1},
                       {'expect': '2*x', 'grade_decimal': 0.4, 'msg': 'Factor, not offset.'})
            return FormulaGrader, {'answers': answers, 'variables': ['x']}, inp
        if label == 'numerical':
            answers = ({'expect': '3.5', 'grade_decimal': 1}, {'expect': '3.6', 'grade_decimal': 0.25})
            return NumericalGrader, {'answers': answers, 'tolerance': 1e-6}, inp
        if label == 'sum':
            return SumGrader, {'answers': {'lower': '1', 'upper': '4', 'summand': 'n', 'summation_variable': 'n'},
                               'input_positions': {'lower': 1, 'upper': 2, 'summand': 3}}, inp
        raise HarnessError('unknown grader label %r' % (label,))


HIST_ATTEMPTS = ['absent', None, 1, 3, 7, 0]


def _hist_make(kind, sched):
    from mitxgraders import LinearCredit, GeometricCredit
    credit = {'linear': LinearCredit(decrease_credit_after=1), 'geometric': GeometricCredit(factor=0.5),
              'ramp': (lambda n: max(0.0, 1 - 0.25 * (n - 1)))}[sched]
    if kind == 'string':
        return StringGrader(answers=('cat', {'expect': 'dog', 'grade_decimal': 0.5}), attempt_based_credit=credit), ['cat', 'dog', 'emu']
    if kind == 'list':
        return (ListGrader(answers=['cat', {'expect': 'dog', 'grade_decimal': 0.5}], subgraders=StringGrader(),
                           attempt_based_credit=credit), [['cat', 'dog'], ['dog', 'x']])
    return (SingleListGrader(answers=['a', 'b'], subgrader=StringGrader(), attempt_based_credit=credit), ['a,b', 'a,z'])


def _hist_call(g, inp, att):
    try:
        if att == 'absent':
            return ('ok', g(None, copy.deepcopy(inp)))
        return ('ok', g(None, copy.deepcopy(inp), attempt=att))
    except Exception as e:
        return ('err', type(e).__name__)


class AttemptHistory(Family):
    """the attempt number of one call must not carry over to the next call on the same grader object"""
    name = 'attempt_history'
    rule = ('grader kinds {String, List, SingleList} x schedules {Linear, Geometric, author ramp} x every sequence of 2 [thorough 3] '
            'calls over attempts {absent, None, 1, 3, 7, 0} x inputs on ONE grader object: each call must give what a fresh grader '
            'gives for that call alone (in particular: no attempt number -> ConfigError even after a call that supplied one)')

    def cases(self, tier):
        n = 3 if tier == 'thorough' else 2
        for kind in ('string', 'list', 'singlelist'):
            for sched in ('linear', 'geometric', 'ramp'):
                for seq in itertools.product(range(len(HIST_ATTEMPTS)), repeat=n):
                    yield (kind, sched, seq)

    def check(self, case):
        kind, sched, seq = case
        g, inputs = _hist_make(kind, sched)
        calls = 0
        outcomes = set()
        for step, ai in enumerate(seq):
            att = HIST_ATTEMPTS[ai]
            inp = inputs[step % len(inputs)]
            got = _hist_call(g, inp, att)
            fresh, _ = _hist_make(kind, sched)
            exp = _hist_call(fresh, inp, att)
            calls += 2
            outcomes.add(exp[0] if exp[0] == 'err' else 'graded')
            if got != exp:
                return Result('differs', True,
                              viol('history:%s' % ('missing-attempt-not-refused-after-earlier-call' if exp[0] == 'err' and got[0] == 'ok'
                                                   else 'call-depends-on-earlier-attempt'),
                                   '%s grader, %s schedule, attempts %r: call %d (input %r, attempt %r) gave %r; a fresh grader gives %r'
                                   % (kind, sched, [HIST_ATTEMPTS[i] for i in seq], step + 1, inp, att, got, exp), exp, got), calls)
        return Result('+'.join(sorted(outcomes)), len(outcomes) > 1, None, calls)


def families(tier):
    nmax = {'quick': 200, 'thorough': 200}
    fams = [
        ScheduleFamily('sched_linear', {'quick': LIN_GRID, 'thorough': LIN_GRID_MORE}, nmax,
                       'LinearCredit: decrease_credit_after 1-6 x decrease_credit_steps 1-6 x minimum_credit '
                       '{0, 0.1, 0.2, 0.5, 1} (thorough: 1-8 x 1-8 x 13 minima incl. 0.0, 1.0, 0.3333, 0.9999, 0.0001) '
                       'x attempts 1..200; each value compared with the exact piecewise-linear rational value, with '
                       'the next value, with the minimum and with [0, 1]; non-trivial = first attempt or the exact '
                       'value changes at the next attempt'),
        ScheduleFamily('sched_geometric', {'quick': GEO_GRID, 'thorough': GEO_GRID_MORE}, nmax,
                       'GeometricCredit: factor {0, 0.1, 0.25, 0.5, 0.75, 0.9, 0.99, 1 (int), 1.0, 0.0} (thorough: every '
                       'multiple of 0.01 and 0.999, 0.9999, 0.0001, 0.001, 0.3333, 0.6667) x attempts 1..200 against '
                       'the exact power factor**(n-1)'),
        ScheduleFamily('sched_reciprocal', {'quick': [['rec']], 'thorough': [['rec']]},
                       {'quick': 200, 'thorough': 5000},
                       'ReciprocalCredit x attempts 1..200 (thorough 1..5000) against exactly 1/n'),
    ]
    graders = [StringBuiltin(), TableCustom(), ListVectors(), RawResults(), OtherGraders()]
    return fams + [CoexistingSchedules()] + graders + [FeatureOff(graders), AttemptHistory()]
