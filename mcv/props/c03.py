"""
C03 -- formula strings evaluate to the value mathematics assigns them.

Every string of several finite families is (1) parsed and (2) evaluated by the real
`parse` / `evaluator`, and compared with the independent reference in mcv/refs/expr.py:
language membership must agree exactly, accepted strings must give the reference value
(or the same kind of error), under three variable bindings.

Further families do not go through the reference parser for their expected value: operator trees whose
value is computed on the tree (E7), hand-tokenised formulas with one separator inserted (E8, judged like E1),
foreign characters (E9, always a parse error), a table of constant expressions through evaluator() with
default scope and through Numerical/Formula/MatrixGrader (E10), and depth/length schemes with closed forms (E11).
"""
import itertools
import math
from ..core import Family, Result, viol, HarnessError
from ..refs import expr as R
from ..refs import c03_trees as T

import mitxgraders.helpers.calc.expressions as X
from mitxgraders.helpers.calc import exceptions as CE
from mitxgraders.helpers.calc.math_array import MathArray
from mitxgraders.exceptions import MITxError, StudentFacingError

PROPERTY = 'C03'
RULE = ('all token strings up to a length bound (E1), all literal-character strings up to a length bound (E3), '
        'all operator chains x sign subsets x renderings (E2), name tables (E4); a string is non-trivial when it '
        'is in the language; a chain when at least one plausible wrong grammar gives a different value; all operator '
        'TREES up to 3 operators x negation subsets in minimal and full parenthesisation x leaf kinds x bindings (E7); '
        'one whitespace separator at every position of hand-tokenised formulas (E8); every foreign character of a '
        'Unicode table at every position of short formulas (E9); a table of constant expressions through every '
        'evaluation door with the scope left at its defaults (E10); one-parameter formula schemes at growing depth / length (E11)')
EXPLANATION = ('states = distinct strings/chains enumerated; transitions = calls of the real parse()/evaluator(); '
               'the reference parser/evaluator is an oracle only, every case runs the implementation')
ASSUMPTIONS = ['reference grammar transcribed from the documentation and the property statement (mcv/refs/expr.py)',
               'numeric agreement within relative 1e-9',
               'array arithmetic beyond + - scalar* /scalar is not constrained here (C14 does that)',
               'which of several applicable error kinds is reported is not constrained, except parse errors',
               'E7/E11: Python float/complex arithmetic (including ** with its principal complex branch) is the trusted base; '
               'the tree / closed form fixes the GROUPING, which is what is under test',
               'E9: characters that Python regards as whitespace are not tried at the two ends of a string (evaluator() strips '
               'them before parsing; the statement does not say whether that is allowed)',
               'E10: the literal answers are themselves read by the library (plain decimal literals, and a+b*i for complex '
               'targets); every target is non-zero and the near-miss is off by 1e-4 relative against a 1e-7 relative tolerance',
               'nesting deeper than about 45 levels of parentheses exhausts the interpreter stack inside pyparsing '
               '(RecursionError from evaluator, a generic student-facing error from a grader); E11 stops at depth 34']


def f_user(t):
    return t * t - 3


SCOPES = [
    {'x': -1.5},
    {'x': 0.0},
    {'x': complex(0.5, 2.0)},
]
SUFFIXES = {'%': 0.01, 'k': 1000.0}


def real_kind(e):
    if isinstance(e, (CE.UnableToParse, CE.UnbalancedBrackets)):
        return 'parse'
    if isinstance(e, CE.UndefinedVariable):
        return 'undefvar'
    if isinstance(e, CE.UndefinedFunction):
        return 'undeffunc'
    if isinstance(e, CE.CalcZeroDivisionError):
        return 'zerodiv'
    if isinstance(e, CE.CalcOverflowError):
        return 'overflow'
    if isinstance(e, CE.MathArrayError):
        return 'shape'
    if isinstance(e, CE.DomainError) or isinstance(e, CE.FunctionEvalError):
        return 'domain'
    if isinstance(e, CE.CalcError):
        return 'calc'
    if isinstance(e, StudentFacingError):
        return 'student'
    return 'RAW:' + type(e).__name__


def to_plain(v):
    if isinstance(v, MathArray) or hasattr(v, 'tolist'):
        return v.tolist()
    return v


class StringJudge(object):
    """shared by E1/E3/E4: compares one string between implementation and reference"""

    def __init__(self, variables_list, functions_real, functions_ref, suffixes):
        self.variables_list = variables_list
        self.functions_real = functions_real
        self.functions_ref = functions_ref
        self.suffixes = suffixes
        self.n = 0

    def fresh_parser_sometimes(self):
        # the shared parser caches every accepted string; keep worker memory bounded
        self.n += 1
        if self.n % 20000 == 0:
            X.PARSER = X.MathParser()

    def judge(self, s, tag):
        self.fresh_parser_sometimes()
        calls = 1
        try:
            ast, rv, rf, rs = R.parse(s)
            ref_ok = True
        except R.RefParseError:
            ref_ok = False
        try:
            X.parse(s)
            real_ok = True
        except (CE.UnableToParse, CE.UnbalancedBrackets):
            real_ok = False
        except RecursionError:
            raise
        except Exception as e:
            return Result('parse-raised', True,
                          viol(tag + ':parse-raises-%s' % type(e).__name__,
                               'parse(%r) raised %s: %s' % (s, type(e).__name__, e),
                               'accept' if ref_ok else 'parse error', repr(e)))
        if ref_ok != real_ok:
            if real_ok:
                return Result('accepts-invalid', True,
                              viol(tag + ':accepts-invalid', '%r is outside the grammar but was parsed' % s,
                                   'parse error', 'accepted'))
            return Result('rejects-valid', True,
                          viol(tag + ':rejects-valid', '%r is in the grammar but was rejected' % s,
                               'accepted', 'parse error'))
        if not ref_ok:
            return Result('reject', False, None, calls)
        outcome = None
        for V in self.variables_list:
            calls += 1
            kinds = R.scope_errors(rv, rf, rs, V, self.functions_ref, self.suffixes)
            exp = None
            if kinds:
                exp = ('err', kinds)
            else:
                try:
                    exp = ('val', R.evaluate(ast, V, self.functions_ref, self.suffixes))
                except R.RefEvalError as e:
                    exp = ('err', {e.kind})
                except R.AnyOutcome:
                    exp = ('any', None)
            try:
                val, _meta = X.evaluator(s, V, self.functions_real, self.suffixes)
                got = ('val', to_plain(val))
            except Exception as e:
                got = ('err', real_kind(e), '%s: %s' % (type(e).__name__, e))
            o, v = self.compare(s, V, exp, got, tag)
            outcome = outcome or o
            if v:
                return Result(o, True, v, calls)
        return Result(outcome, True, None, calls)

    def compare(self, s, V, exp, got, tag):
        where = '%r with %s' % (s, {k: V[k] for k in sorted(V)})
        if exp[0] == 'any':
            if got[0] == 'err' and got[1].startswith('RAW:'):
                return 'any', None          # raw failures on array arithmetic are judged by C02/C14
            return 'any', None
        if exp[0] == 'val':
            if got[0] != 'val':
                return 'value', viol(tag + ':error-instead-of-value',
                                     '%s: expected %r, got %s' % (where, exp[1], got[2]), exp[1], got[2])
            if not R.close(exp[1], got[1]):
                return 'value', viol(tag + ':wrong-value', '%s: expected %r, got %r' % (where, exp[1], got[1]),
                                     exp[1], got[1])
            if R.is_arr(exp[1]):
                return 'array-value', None
            return ('complex-value' if isinstance(exp[1], complex) else 'value'), None
        kinds = exp[1]
        if got[0] == 'val':
            return 'err', viol(tag + ':value-instead-of-error',
                               '%s: expected an error of kind %s, got value %r' % (where, sorted(kinds), got[1]),
                               sorted(kinds), got[1])
        k = got[1]
        if kinds & {'undefvar', 'undeffunc'}:
            ok = k in kinds
        elif kinds & {'zerodiv', 'overflow'}:
            ok = k in ('zerodiv', 'overflow', 'domain')
            # which of the two float failures is reported first is arithmetic-order dependent; both are CalcErrors
        elif 'shape' in kinds:
            ok = not k.startswith('RAW:') or True     # array failures: class judged by C14/C02
        elif 'domain' in kinds:
            ok = k in ('domain',)
        else:
            ok = True
        if not ok:
            return 'err', viol(tag + ':wrong-error-kind', '%s: expected error kind %s, got %s' % (where, sorted(kinds), got[2]),
                               sorted(kinds), got[2])
        return 'err:' + '/'.join(sorted(kinds)), None


def make_judge(extra_vars=None, extra_funcs=None):
    vl = []
    for sc in SCOPES:
        d = dict(sc)
        if extra_vars:
            d.update(extra_vars)
        vl.append(d)
    fr = {'f': f_user}
    fref = {'f': (1, f_user)}
    if extra_funcs:
        for k, (ar, fn) in extra_funcs.items():
            fr[k] = fn
            fref[k] = (ar, fn)
    return StringJudge(vl, fr, fref, SUFFIXES)


class TokenStrings(Family):
    """E1 / E3: all strings over a token alphabet up to a length"""
    timeout = 20.0

    def __init__(self, name, tokens, maxlen, extra_vars=None, note=''):
        self.name = name
        self.tokens = tokens
        self.maxlen = maxlen
        self.extra_vars = extra_vars
        self.rule = ('every concatenation of 1..%s tokens from %s%s; judged by language membership + value under '
                     '3 bindings of x; non-trivial = in the language' % (maxlen, tokens, note))

    def setup(self, tier):
        self.j = make_judge(self.extra_vars)

    def isolate(self):
        X.PARSER = X.MathParser()

    def cases(self, tier):
        n = self.maxlen[tier] if isinstance(self.maxlen, dict) else self.maxlen
        idx = range(len(self.tokens))
        for L in range(1, n + 1):
            for tup in itertools.product(idx, repeat=L):
                yield tup

    def describe(self, case):
        return ''.join(self.tokens[i] for i in case)

    def check(self, case):
        s = ''.join(self.tokens[i] for i in case)
        return self.j.judge(s, self.name)


E1_TOKENS = ['2', '.5', 'x', 'f', '+', '-', '*', '/', '^', '||', '(', ')', '[', ']', ',']
E3_CHARS = ['1', '0', '.', 'e', 'E', '+', '-', '%', 'k', ' ']
# suffix characters next to names, calls, brackets and operators (E1 has no suffix token, E3 no names/brackets/operators)
E1S_TOKENS = ['2', 'x', 'f', '(', ')', '%', 'k', '^', '-', '*']

OPS = ['+', '-', '*', '/', '^', '||']
LEAVES = [2.0, 3.0, 1.5, 0.5, 1.25]
LEAF_TXT = ['2', '3', '1.5', '0.5', '1.25']


def render(tokens, style):
    if style == 'plain':
        return ''.join(tokens)
    if style == 'spaced':
        return ' '.join(' '.join(t) for t in tokens) + ' '
    if style == 'tabs':
        seps = ['\t', '\n', '\r', '\r\n', ' \t ']
        out = []
        for k, t in enumerate(tokens):
            out.append(t)
            out.append(seps[k % len(seps)])
        return '\t' + ''.join(out)
    if style == 'parens':
        out = []
        for t in tokens:
            if t[0].isdigit():
                out.append('((' + t + '))')
            else:
                out.append(t)
        return '(' + ''.join(out) + ')'
    if style == 'emdash':
        return ''.join('—' if t == '-' else t for t in tokens)
    raise ValueError(style)


STYLES = ['plain', 'spaced', 'tabs', 'parens', 'emdash']


class Chains(Family):
    """E2: precedence and associativity"""
    name = 'E2_chains'
    timeout = 20.0
    rule = ('every chain [-]l0 o1 [-]l1 ... o_n [-]l_n, n<=4 (quick 3), o in {+,-,*,/,^,||}, every subset of unary '
            'minus slots, leaves (2,3,1.5,0.5,1.25), in 5 renderings (plain, a space between all characters, '
            'tab/CR/LF between tokens, redundant parentheses, em-dash minus); non-trivial = some wrong grammar '
            '(swapped levels, flipped associativity, 9 dialects) gives a different value')

    def setup(self, tier):
        self.nfresh = 0

    def isolate(self):
        X.PARSER = X.MathParser()

    def cases(self, tier):
        nmax = 4 if tier == 'thorough' else 3
        for n in range(1, nmax + 1):
            for ops in itertools.product(range(len(OPS)), repeat=n):
                for negmask in range(2 ** (n + 1)):
                    yield (ops, negmask)

    def describe(self, case):
        ops, negmask = case
        return ''.join(self.tokens(ops, negmask))

    def tokens(self, ops, negmask):
        toks = []
        for k in range(len(ops) + 1):
            if negmask >> k & 1:
                toks.append('-')
            toks.append(LEAF_TXT[k])
            if k < len(ops):
                toks.append(OPS[ops[k]])
        return toks

    def check(self, case):
        ops, negmask = case
        opsyms = [OPS[i] for i in ops]
        n = len(ops)
        negs = [bool(negmask >> k & 1) for k in range(n + 1)]
        toks = self.tokens(ops, negmask)
        plain = ''.join(toks)
        # reference value, two independent routes that must agree (harness self-check)
        ast, _, _, _ = R.parse(plain)
        try:
            ref = ('val', R.evaluate(ast, {}, {}, {}))
        except R.RefEvalError as e:
            ref = ('err', e.kind)
        alt = R.eval_chain(LEAVES[:n + 1], opsyms, negs)
        if (ref[0] == 'val') != (alt is not None) or (alt is not None and not R.close(ref[1], alt)):
            raise HarnessError('reference routes disagree on %r: %r vs %r' % (plain, ref, alt))
        nontrivial = False
        if alt is not None:
            for d in R.WRONG_DIALECTS.values():
                w = R.eval_chain(LEAVES[:n + 1], opsyms, negs, d)
                if w is None or not R.close(w, alt, 1e-6):
                    nontrivial = True
                    break
        self.nfresh += 1
        if self.nfresh % 5000 == 0:
            X.PARSER = X.MathParser()
        calls = 0
        for style in STYLES:
            s = render(toks, style)
            calls += 1
            try:
                val, _ = X.evaluator(s, {}, {}, {})
                got = ('val', val)
            except Exception as e:
                got = ('err', real_kind(e), '%s: %s' % (type(e).__name__, e))
            if ref[0] == 'val':
                if got[0] != 'val':
                    return Result('value', nontrivial,
                                  viol('E2:%s:error-instead-of-value' % style,
                                       '%r: expected %r, got %s' % (s, ref[1], got[2]), ref[1], got[2]), calls)
                if not R.close(ref[1], got[1]):
                    return Result('value', nontrivial,
                                  viol('E2:%s:wrong-value' % style,
                                       '%r: expected %r, got %r' % (s, ref[1], got[1]), ref[1], got[1]), calls)
            else:
                if got[0] == 'val':
                    return Result('err', nontrivial,
                                  viol('E2:%s:value-instead-of-error' % style,
                                       '%r: expected %s error, got %r' % (s, ref[1], got[1]), ref[1], got[1]), calls)
                if got[1] not in ('zerodiv', 'overflow'):
                    return Result('err', nontrivial,
                                  viol('E2:%s:wrong-error-kind' % style,
                                       '%r: expected %s error, got %s' % (s, ref[1], got[2]), ref[1], got[2]), calls)
        if ref[0] == 'val':
            return Result('complex' if isinstance(ref[1], complex) else 'real', nontrivial, None, calls)
        return Result('err:' + ref[1], nontrivial, None, calls)


NAMES_VARS = {'X': 7.0, 'x1': 11.0, 'x_1': 13.0, "x'": 17.0, 'a_{1}^{2}': 19.0, 'T_{ij}': 23.0, 'sin': 29.0,
              "x''": 31.0, 'a_{1}': 37.0, 'a^{2}': 41.0, 'a_{-1}': 43.0, 'xy_z_2': 47.0, 'a': 53.0,
              # signed UPPER indices (documented: ^{(-)<alphanumeric>}), alone, after a lower index, before a prime
              'T^{-2}': 59.0, 'a_{1}^{-b}': 61.0, "R^{-1}'": 67.0}


def F_upper(t):
    return t + 100


def fprime(t):
    return t + 1000


def g2(a, b):
    return a - 2 * b


NAMES_FUNCS = {'F': (1, F_upper), "f'": (1, fprime), 'g': (2, g2), 'sin': (1, math.sin)}
E4_ATOMS = ['x', 'X', 'x1', 'x_1', "x'", "x''", 'a_{1}^{2}', 'T_{ij}', 'sin', 'a_{1}', 'a^{2}', 'a_{-1}', 'xy_z_2',
            'a', 'f(2)', 'F(2)', "f'(2)", 'g(2,3)', 'g(3,2)', 'sin(2)', 'sin(sin)', 'f(x)', 'F(X)',
            # not in scope / confusable / malformed
            'Sin(2)', 'y', 'x2', 'x_', "x'1", 'a_{1', 'a_{}', 'a_{1}_{2}', 'a_b_{1}', "f''(2)", 'G(2,3)', 'g(2)', 'f(2,3)',
            'a^{2}^{3}', 'a_{1}^{2}^{3}', 'T_{i j}', 'a_{i+1}', '2x', '2X', 'x 1', 'x(2)', 'X (2)', 'sin 2', 'f f(2)',
            # (appended, indices above are referenced by stored replays) names that differ from a name in scope ONLY by
            # case and whose other-case spelling is NOT in scope: a case-insensitive fallback would resolve them
            'A', 't_{ij}', "X'", 'XY_z_2', 'SIN', "F'(2)", 'A_{1}^{2}',
            'T^{-2}', 'a_{1}^{-b}', "R^{-1}'", 'T^{-}', 'T^{--2}']
E4_OPS = ['+', '*', '^', '||', '-', '/']


class Names(Family):
    name = 'E4_names'
    timeout = 20.0
    rule = ('each atom of a %d-entry name table (subscripted, tensor-indexed, primed, case variants, variable named '
            'like a function, functions of 1 and 2 arguments, out-of-scope and malformed names) alone and in every '
            'atom op atom combination, op in %s; scope values pairwise distinct; judged like E1' % (len(E4_ATOMS), E4_OPS))

    def setup(self, tier):
        self.j = make_judge(NAMES_VARS, NAMES_FUNCS)

    def isolate(self):
        X.PARSER = X.MathParser()

    def cases(self, tier):
        for a in range(len(E4_ATOMS)):
            yield (a,)
        for a in range(len(E4_ATOMS)):
            for o in range(len(E4_OPS)):
                for b in range(len(E4_ATOMS)):
                    yield (a, o, b)

    def describe(self, case):
        if len(case) == 1:
            return E4_ATOMS[case[0]]
        return E4_ATOMS[case[0]] + E4_OPS[case[1]] + E4_ATOMS[case[2]]

    def check(self, case):
        return self.j.judge(self.describe(case), 'E4')


LIT_MANT = ['1', '1.2345', '4.75', '.5', '3.', '007', '12345678.9', '0.000123', '0']
LIT_EXP = ['', 'e0', 'E-3', 'e-7', 'e-14', 'E-20', 'e+5', 'E12', 'e-300', 'e300', 'e-320']
LIT_SUFFIX = ['', '%', 'k', 'M', 'G', 'T', 'm', 'u', 'n', 'p']
ALL_SUFFIXES = {'%': 0.01, 'k': 1e3, 'M': 1e6, 'G': 1e9, 'T': 1e12, 'm': 1e-3, 'u': 1e-6, 'n': 1e-9, 'p': 1e-12}
LIT_FORMS = ['%s', '-%s', '2*%s', '(%s)^1', '%s/7', ' %s ']


class Literals(Family):
    """number literals of every magnitude with every suffix multiplier"""
    name = 'E5_literals'
    rule = ('mantissa %r x exponent part %r x suffix %r (all metric suffixes and %% in scope) x forms %r: the value is '
            'literal x multiplier computed exactly with fractions, compared within relative 1e-12 (results beyond the float '
            'range: an error or infinity; below it: zero or a denormal)' % (LIT_MANT, LIT_EXP, LIT_SUFFIX, LIT_FORMS))

    def cases(self, tier):
        for a in range(len(LIT_MANT)):
            for b in range(len(LIT_EXP)):
                for c in range(len(LIT_SUFFIX)):
                    for f in range(len(LIT_FORMS)):
                        yield (a, b, c, f)

    def text(self, case):
        a, b, c, f = case
        return LIT_FORMS[f] % (LIT_MANT[a] + LIT_EXP[b] + LIT_SUFFIX[c])

    def describe(self, case):
        return self.text(case)

    def check(self, case):
        from fractions import Fraction
        a, b, c, f = case
        s = self.text(case)
        exact = Fraction(LIT_MANT[a] if not LIT_MANT[a].endswith('.') else LIT_MANT[a] + '0')
        if LIT_EXP[b]:
            exact *= Fraction(10) ** int(LIT_EXP[b][1:])
        if LIT_SUFFIX[c]:
            exact *= Fraction(ALL_SUFFIXES[LIT_SUFFIX[c]])        # the float multiplier, exactly
        literal = exact
        exact = [exact, -exact, 2 * exact, exact, exact / 7, exact][f]
        try:
            val, _ = X.evaluator(s, {}, {}, ALL_SUFFIXES)
            got = ('val', val)
        except CE.CalcError as e:
            got = ('err', type(e).__name__)
        except Exception as e:
            return Result('raw', True, viol('E5:raw-exception', '%r raised %s: %s' % (s, type(e).__name__, e)))
        maxf = Fraction(17976931348623157, 10 ** 16) * Fraction(10) ** 308
        big = abs(exact) > maxf or abs(literal) > maxf          # the literal itself may overflow before it is divided
        tiny = exact != 0 and abs(exact) < Fraction(1, 10 ** 300)
        if big:
            if got[0] == 'val' and not (isinstance(got[1], float) and math.isinf(got[1])):
                return Result('big', True, viol('E5:finite-value-for-overflow', '%r gave %r' % (s, got[1])))
            return Result('overflow', True)
        if got[0] != 'val':
            return Result('err', True, viol('E5:error-for-valid-literal', '%r raised %s' % (s, got[1]), float(exact), got))
        v = got[1]
        if not isinstance(v, (int, float)) or isinstance(v, bool):
            return Result('type', True, viol('E5:not-a-real-number', '%r gave %r' % (s, v), float(exact), repr(v)))
        if tiny:
            ok = abs(v) <= 1e-299
        elif exact == 0:
            ok = (v == 0)
        else:
            ok = abs(Fraction(v) - exact) <= abs(exact) * Fraction(1, 10 ** 12)
        if not ok:
            return Result('wrong', True, viol('E5:wrong-value', '%r evaluates to %r, literal x multiplier is %r' % (s, v, float(exact)),
                                              float(exact), v))
        return Result('tiny' if tiny else 'value', True)


AP_OPERANDS = {
    's': 2.0, 't': -0.5,
    'v': [1.0, 2.0], 'w': [3.0, -1.0],
    'M': [[1.0, 2.0], [3.0, 4.0]], 'N': [[0.0, 1.0], [1.0, 1.0]],
}
AP_ORDER = ['s', 'v', 'w', 'M', 'N', 't']


def _ap_mul(a, b):
    """product of two operands by the documented rules (scalar, vector, matrix); raises ValueError on a shape error"""
    da = 0 if not isinstance(a, list) else (2 if isinstance(a[0], list) else 1)
    db = 0 if not isinstance(b, list) else (2 if isinstance(b[0], list) else 1)
    if da == 0 and db == 0:
        return a * b
    if da == 0:
        return [[a * x for x in r] for r in b] if db == 2 else [a * x for x in b]
    if db == 0:
        return [[x * b for x in r] for r in a] if da == 2 else [x * b for x in a]
    if da == 1 and db == 1:
        if len(a) != len(b):
            raise ValueError('shape')
        return sum(x * y for x, y in zip(a, b))
    if da == 2 and db == 1:
        if len(a[0]) != len(b):
            raise ValueError('shape')
        return [sum(x * y for x, y in zip(r, b)) for r in a]
    if da == 1 and db == 2:
        if len(a) != len(b):
            raise ValueError('shape')
        return [sum(a[i] * b[i][j] for i in range(len(a))) for j in range(len(b[0]))]
    if len(a[0]) != len(b):
        raise ValueError('shape')
    return [[sum(a[i][k] * b[k][j] for k in range(len(b))) for j in range(len(b[0]))] for i in range(len(a))]


class ArrayProducts(Family):
    """E6: '*' is left-associative over scalar, vector and matrix operands too"""
    name = 'E6_array_products'
    timeout = 20.0
    rule = ('every chain a1*a2*...*an, n <= 4, of operands from {scalars s, t; vectors v, w; 2x2 matrices M, N} written flat, '
            'with variables and with literals: the value is the left-to-right product (dot product for two vectors, matrix-vector, '
            'vector-matrix, matrix-matrix), i.e. the same as the fully left-parenthesised form; a chain in which a '
            'vector*vector product is followed by a further vector operand is refused as ambiguous (documented); the explicitly '
            'left-parenthesised form is never refused for that reason')

    def cases(self, tier):
        for n in range(2, 5):
            for combo in itertools.product(range(len(AP_ORDER)), repeat=n):
                for form in ('var', 'lit'):
                    if form == 'lit' and n == 4 and tier == 'quick':
                        continue
                    yield (combo, form)

    def text(self, combo, form, paren):
        def one(k):
            name = AP_ORDER[k]
            if form == 'var':
                return name
            val = AP_OPERANDS[name]
            return R_num(val)
        parts = [one(k) for k in combo]
        if not paren:
            return '*'.join(parts)
        out = parts[0]
        for q in parts[1:]:
            out = '(%s*%s)' % (out, q)
        return out

    def describe(self, case):
        combo, form = case
        return {'flat': self.text(combo, form, False), 'left-parenthesised': self.text(combo, form, True)}

    def check(self, case):
        combo, form = case
        vals = [AP_OPERANDS[AP_ORDER[k]] for k in combo]
        # oracle: left fold; the documented ambiguity rule for the FLAT form
        expected, ambiguous = None, False
        try:
            acc = vals[0]
            dotted = False
            for b in vals[1:]:
                b_is_vec = isinstance(b, list) and not isinstance(b[0], list)
                a_is_vec = isinstance(acc, list) and not isinstance(acc[0], list)
                if b_is_vec and dotted:
                    ambiguous = True
                if b_is_vec and a_is_vec:
                    dotted = True
                acc = _ap_mul(acc, b)
            expected = ('val', acc)
        except ValueError:
            expected = ('err', 'shape')
        V = {k: (MathArray(v) if isinstance(v, list) else v) for k, v in AP_OPERANDS.items()}
        outs = []
        for paren in (False, True):
            s = self.text(combo, form, paren)
            try:
                val, _ = X.evaluator(s, V, {}, {}, max_array_dim=2)
                outs.append(('val', to_plain(val)))
            except CE.CalcError as e:
                outs.append(('err', type(e).__name__, str(e)[:120]))
            except MITxError as e:
                outs.append(('err', type(e).__name__, str(e)[:120]))
            except Exception as e:
                return Result('raw', True, viol('E6:raw-exception', '%r raised %s: %s' % (s, type(e).__name__, e)))
        flat, par = outs

        def same(a, b):
            if isinstance(a, list) != isinstance(b, list):
                return False
            if isinstance(a, list):
                return len(a) == len(b) and all(same(x, y) for x, y in zip(a, b))
            return abs(a - b) <= 1e-9 * max(1.0, abs(a), abs(b))
        where = 'flat %r / parenthesised %r' % (self.text(combo, form, False), self.text(combo, form, True))
        if expected[0] == 'err':
            for o in outs:
                if o[0] == 'val':
                    return Result('value-for-shape-error', True,
                                  viol('E6:value-for-shape-error', '%s: the shapes do not multiply but a value came back: %r' % (where, o[1])))
            return Result('shape-error', True)
        if par[0] != 'val' or not same(par[1], expected[1]):
            return Result('paren-wrong', True,
                          viol('E6:left-parenthesised-product-wrong', '%s: parenthesised form gives %r, left-to-right product is %r'
                               % (where, par, expected[1]), expected[1], par))
        if ambiguous:
            if flat[0] == 'val' and not same(flat[1], expected[1]):
                return Result('ambiguous-wrong-value', True,
                              viol('E6:flat-product-wrong', '%s: flat form gives %r, left-to-right product is %r' % (where, flat, expected[1]),
                                   expected[1], flat))
            return Result('ambiguous:' + flat[0], False)
        if flat[0] != 'val' or not same(flat[1], expected[1]):
            return Result('flat-wrong', True,
                          viol('E6:flat-product-differs-from-left-parenthesised',
                               '%s: flat form gives %r, left-to-right product is %r' % (where, flat, expected[1]), expected[1], flat))
        return Result('value', True)


def R_num(val):
    if isinstance(val, list):
        return '[' + ','.join(R_num(x) for x in val) + ']'
    return ('(%r)' % val) if val < 0 else repr(val)


FRONT = [
    ('', None, 'nan'), ('   ', None, 'nan'), (' \t ', None, 'nan'), ('\n', None, 'nan'),
    ('[1,2]', 0, 'parse'), ('[1,2]', 1, 'val'), ('[[1,2],[3,4]]', 1, 'parse'), ('[[1,2],[3,4]]', 2, 'val'),
    ('[[[1]]]', 2, 'parse'), ('[[[1]]]', 3, 'val'), ('1+1', 0, 'val'), ('[1,2]*[3,4]', 0, 'parse'),
    ('2*[1,2]', None, 'val'), ('()', None, 'parse'), ('[]', None, 'parse'), ('f()', None, 'parse'),
    ('1 2', None, 'val'), ('1\t2', None, 'parse'), ('1 . 5', None, 'val'), ('1\t.5', None, 'parse'),
    ('2 k', None, 'val'), ('2\tk', None, 'val'), ('2kk', None, 'err'), ('2K', None, 'err'), ('2 %', None, 'val'),
    ('1;2', None, 'parse'), ('1=1', None, 'parse'), ('{1}', None, 'parse'), ('1_2', None, 'parse'), ('²', None, 'parse'),
    ('１', None, 'parse'), ('1,2', None, 'parse'), ('2**3', None, 'parse'), ('2//3', None, 'parse'), ('2|3', None, 'parse'),
    ('2|||3', None, 'parse'), ('2 | | 3', None, 'val'), ('!2', None, 'parse'), ('2!', None, 'parse'), ('"2"', None, 'parse'),
    ('2 3 4', None, 'val'), ('(2)(3)', None, 'parse'), ('2(3)', None, 'parse'), ('(2)3', None, 'parse'), ('x y', None, 'err'),
    (None, None, 'nan'), (None, 0, 'nan'), ('\t\n', 0, 'nan'),
]


class FrontDoor(Family):
    name = 'front_door'
    rule = ('fixed table of %d front-door cases: empty/whitespace input -> nan, max_array_dim limits, juxtaposition, '
            'foreign characters, whitespace inside vs between tokens' % len(FRONT))

    def cases(self, tier):
        return iter(range(len(FRONT)))

    def describe(self, case):
        return {'string': FRONT[case][0], 'max_array_dim': FRONT[case][1], 'expected': FRONT[case][2]}

    def check(self, case):
        s, mad, exp = FRONT[case]
        try:
            val, _ = X.evaluator(s, {'x': 2.0, 'y': 3.0}, {'f': f_user}, SUFFIXES, max_array_dim=mad)
            got = 'val'
            if isinstance(val, float) and math.isnan(val):
                got = 'nan'
        except (CE.UnableToParse, CE.UnbalancedBrackets):
            got = 'parse'
        except CE.CalcError:
            got = 'err'
        except Exception as e:
            got = 'RAW:' + type(e).__name__
        if got != exp:
            return Result(got, True, viol('front:%s-instead-of-%s' % (got, exp),
                                          'evaluator(%r, max_array_dim=%r): expected %s, got %s' % (s, mad, exp, got),
                                          exp, got))
        return Result(got, True)


# ------------------------------------------------------------------------------------------ E7: operator trees

def h_plus1(t):
    return t + 1


TREE_VAR_NAMES = ['p', 'q_1', "r'", 'T_{ab}', 'u2']
TREE_MIX_TXT = ['h(1)', '300%', 'g(3.5,1)', '5e-1', '(1.25)']
TREE_COMPLEX = [complex(2, 1), 3.0, complex(1.5, -0.5), 0.5, complex(0, 1.25)]


class Trees(Family):
    """E7: parentheses override precedence; redundant parentheses change nothing"""
    name = 'E7_trees'
    timeout = 20.0
    rule = ('every binary operator TREE with n <= 3 operator nodes (every shape x every operator assignment from '
            '{+,-,*,/,^,||}) x unary minus on subsets of its 2n+1 nodes x leaf style {number literals; variables with plain, '
            'subscripted, primed and tensor names bound to floats, to complex numbers and to int / numpy scalars; mixed atoms: '
            'calls of 1- and 2-argument functions, %-suffixed, exponent-form and parenthesised numbers}; the value is computed on '
            'the tree itself (no parser); each tree is written (a) with the fewest parentheses the documented precedence table '
            'allows and (b) with one pair around every node.  Which (negation subset, style) pairs run per tier is stated in '
            'Trees.cases; thorough adds n = 4.  non-trivial = the minimal form needs at least one pair of parentheses')

    def setup(self, tier):
        import numpy as np
        self.var_bindings = [
            ('float', list(LEAVES), list(LEAVES)),
            ('complex', list(TREE_COMPLEX), list(TREE_COMPLEX)),
            ('int/numpy', [2, np.int64(3), np.float64(1.5), 0.5, np.float64(1.25)], list(LEAVES)),
        ]
        self.funcs = {'h': h_plus1, 'g': g2}

    def isolate(self):
        X.PARSER = X.MathParser()

    def cases(self, tier):
        """
        case = (n, shape, ops, negmask, style); style 0 = number literals, 1 = variables (3 bindings), 2 = mixed atoms.
        quick:    n = 1: everything.  n = 2: literals with every negation subset, the other two styles with at most one
                  negated node.  n = 3: every tree un-negated as literals, and once more with ONE single-node negation in ONE
                  of the two other styles, both chosen by rotation over the running tree index (so every node position and
                  both styles occur for every shape; the full product is in the thorough tier).
        thorough: n = 3: literals with every negation subset of at most two nodes, the other styles with at most one negated
                  node; n = 4: literals, un-negated and one rotating single-node negation.
        """
        nmax = 4 if tier == 'thorough' else 3
        for n in range(1, nmax + 1):
            nn = 2 * n + 1
            every = list(range(2 ** nn))
            upto1 = [0] + [1 << k for k in range(nn)]
            upto2 = upto1 + [(1 << a) | (1 << b) for a in range(nn) for b in range(a + 1, nn)]
            idx = 0
            for si in range(T.n_shapes(n)):
                for ops in itertools.product(range(len(OPS)), repeat=n):
                    idx += 1
                    rot = 1 << (idx % nn)
                    if n == 1:
                        plan = [(m, st) for m in every for st in (0, 1, 2)]
                    elif n == 2:
                        plan = [(m, 0) for m in every] + [(m, st) for m in upto1 for st in (1, 2)]
                    elif n == 3 and tier == 'thorough':
                        plan = [(m, 0) for m in upto2] + [(m, st) for m in upto1 for st in (1, 2)]
                    elif n == 3:
                        plan = [(0, 0), (rot, 1 + idx % 2)]
                    else:
                        plan = [(0, 0), (rot, 0)]
                    for m, st in plan:
                        yield (n, si, ops, m, st)

    def tree(self, case):
        n, si, ops, m = case[:4]
        return T.build(T.shape(n, si), [OPS[i] for i in ops], m)

    def describe(self, case):
        node = self.tree(case)
        txt = [LEAF_TXT, TREE_VAR_NAMES, TREE_MIX_TXT][case[4]]
        d = {'minimal': T.render_min(node, txt)[0], 'full': T.render_full(node, txt)}
        if case[4] == 1:
            d['variables'] = 'bound to %r, then %r, then ints/numpy scalars of the first' % (LEAVES, TREE_COMPLEX)
        if case[4] == 2:
            d['scope'] = 'h(t)=t+1, g(a,b)=a-2b, %=0.01'
        return d

    @staticmethod
    def oracle(node, vals):
        try:
            v = T.ev(node, vals)
        except ZeroDivisionError:
            return ('err', 'zerodiv')
        except OverflowError:
            return ('err', 'overflow')
        if R.isnan(v):
            return ('err', 'nan')
        try:
            R.finite_check(v)
        except R.RefEvalError:
            return ('err', 'overflow')
        return ('val', v)

    def check(self, case):
        node = self.tree(case)
        nested_par = T.has_nested_parallel(node)
        _txt, _lvl, pairs = T.render_min(node, LEAF_TXT)
        nontrivial = pairs > 0
        # harness self-check: the independent reference parser reads the minimal form as this tree
        exp_num = self.oracle(node, LEAVES)
        try:
            ast, _, _, _ = R.parse(_txt)
            try:
                rv = ('val', R.evaluate(ast, {}, {}, {}))
            except R.RefEvalError as e:
                rv = ('err', e.kind)
        except R.RefParseError as e:
            raise HarnessError('minimal rendering %r is not in the reference grammar: %s' % (_txt, e))
        if not nested_par and exp_num[0] != 'err' and rv[0] != 'err':
            if not R.close(rv[1], exp_num[1], 1e-7):
                raise HarnessError('reference parser and tree disagree on %r: %r vs %r' % (_txt, rv, exp_num))
        st = case[4]
        if st == 0:
            runs = [('num', LEAF_TXT, {}, {}, {}, LEAVES)]
        elif st == 1:
            runs = [('var:' + bname, TREE_VAR_NAMES, dict(zip(TREE_VAR_NAMES, binding)), {}, {}, ovals)
                    for bname, binding, ovals in self.var_bindings]
        else:
            runs = [('mix', TREE_MIX_TXT, {}, self.funcs, SUFFIXES, LEAVES)]
        calls = 0
        outcome = None
        for style, txt, V, F, S, ovals in runs:
            exp = self.oracle(node, ovals)
            if exp[0] == 'err' and exp[1] == 'nan':
                continue
            for rname, s in (('minimal', T.render_min(node, txt)[0]), ('full', T.render_full(node, txt))):
                calls += 1
                try:
                    val, _ = X.evaluator(s, V, F, S)
                    got = ('val', val)
                except Exception as e:
                    got = ('err', real_kind(e), '%s: %s' % (type(e).__name__, e))
                where = '%s form %r (%s%s)' % (rname, s, style, (' ' + repr(V)) if V else '')
                if exp[0] == 'val':
                    if got[0] != 'val':
                        return Result('value', nontrivial,
                                      viol('E7:%s:error-instead-of-value' % rname,
                                           '%s: the tree evaluates to %r, got %s' % (where, exp[1], got[2]), exp[1], got[2]), calls)
                    if not R.close(exp[1], got[1]):
                        return Result('value', nontrivial,
                                      viol('E7:%s:wrong-value' % rname,
                                           '%s: the tree evaluates to %r, got %r' % (where, exp[1], got[1]), exp[1], got[1]), calls)
                    outcome = outcome or ('complex' if isinstance(exp[1], complex) else 'real')
                else:
                    if rname == 'minimal' and nested_par:
                        continue            # a||b||c is the n-ary reciprocal sum: it may exist where (a||b) alone does not
                    if got[0] == 'val':
                        return Result('err', nontrivial,
                                      viol('E7:%s:value-instead-of-error' % rname,
                                           '%s: the tree has no value (%s), got %r' % (where, exp[1], got[1]), exp[1], got[1]), calls)
                    if got[1] not in ('zerodiv', 'overflow'):
                        return Result('err', nontrivial,
                                      viol('E7:%s:wrong-error-kind' % rname,
                                           '%s: expected a %s error, got %s' % (where, exp[1], got[2]), exp[1], got[2]), calls)
                    outcome = outcome or ('err:' + exp[1])
        return Result(outcome or 'none', nontrivial, None, calls)


# ------------------------------------------------------------------------------------------ E8: one separator anywhere

WS_VARS = {'x_1': 1.5, "T_{ij}'": -0.75, 'a': 3.0, 'a_{-1}': 0.5, 'a^{2}': 41.0}
WS_FUNCS = {'g': (2, g2)}
# hand-tokenised formulas: the token boundaries are data, not computed
WS_BASES = [
    ['g', '(', '2.5e1', 'k', ',', 'x_1', ')', '^', '-', "T_{ij}'"],
    ['[', '1.5', ',', '-', 'a', ']', '*', '2', '%'],
    ['-', 'f', '(', 'a', '|', '|', '6', ')', '/', 'x_1', '+', '.5E-1'],
    ['a_{-1}', '^', '-', '2', '^', 'x', '-', '1.25e+2', '%'],
    ['(', '(', 'a', ')', ')', '*', '[', '[', '1', ',', '2', ']', ',', '[', '3', ',', '4', ']', ']', '/', '4'],
    ['2', '|', '|', '-', '3', '|', '|', 'x'],
    ['a^{2}', '-', '1e-3', 'k', '*', 'g', '(', '-', 'a', ',', '+', '2', ')'],
]
WS_SEPS = [' ', '\t', '\n', '\r', '\r\n', '  \t']
WS_DASH = ['-', '—']


class InsertedWhitespace(Family):
    """E8: where exactly may which kind of whitespace stand"""
    name = 'E8_whitespace'
    timeout = 20.0
    rule = ('%d hand-tokenised formulas (function calls with 2 arguments, vector and matrix literals, suffixed and '
            'exponent-form numbers, subscripted / tensor / primed names, all operators) written with minus as %r; ONE '
            'separator from %r inserted at ONE character position (every position), or at all token boundaries at once, or '
            'between all characters at once: a space changes nothing anywhere, a tab / line break changes nothing between '
            'tokens and makes the string invalid inside a number or a name; judged against the reference grammar like E1 '
            '(language membership + value under 3 bindings of x)' % (len(WS_BASES), WS_DASH, WS_SEPS))

    def setup(self, tier):
        self.j = make_judge(WS_VARS, WS_FUNCS)

    def isolate(self):
        X.PARSER = X.MathParser()

    def cases(self, tier):
        for b in range(len(WS_BASES)):
            n = len(''.join(WS_BASES[b]))
            for d in range(len(WS_DASH)):
                if d and '-' not in ''.join(WS_BASES[b]):
                    continue
                for sp in range(len(WS_SEPS)):
                    for pos in range(-2, n + 1):
                        yield (b, d, sp, pos)

    def text(self, case):
        b, d, sp, pos = case
        toks = [t.replace('-', WS_DASH[d]) for t in WS_BASES[b]]
        sep = WS_SEPS[sp]
        if pos == -2:       # at every token boundary
            return sep + sep.join(toks) + sep
        if pos == -1:       # between all characters
            return sep.join(''.join(toks))
        s = ''.join(toks)
        return s[:pos] + sep + s[pos:]

    def describe(self, case):
        return self.text(case)

    def check(self, case):
        b, d, sp, pos = case
        s = self.text(case)
        base = ''.join(WS_BASES[b])
        sep = WS_SEPS[sp]
        # harness self-checks on the oracle: a space anywhere and a separator at a token boundary keep the string valid
        bounds = set([0])
        k = 0
        for t in WS_BASES[b]:
            k += len(t)
            bounds.add(k)
        must_be_valid = (sep == ' ' and d == 0) or (d == 0 and (pos == -2 or pos in bounds))
        if must_be_valid:
            try:
                R.parse(s)
            except R.RefParseError as e:
                raise HarnessError('reference rejects %r although only token-boundary whitespace was added to %r: %s' % (s, base, e))
        return self.j.judge(s, 'E8')


# ------------------------------------------------------------------------------------------ E9: foreign characters

def _uni_tables():
    import unicodedata
    ascii_foreign = list('!"#$&:;<=>?@\\`~') + ['{', '}']
    controls = ['\x00', '\x07', '\x08', '\x0b', '\x0c', '\x1b', '\x1c', '\x1f', '\x7f', '\x85']
    latin1 = [chr(c) for c in range(0xA0, 0x100)]
    greek = [chr(c) for c in range(0x391, 0x3CA) if c != 0x3A2]
    selected = [
        '‐', '‑', '‒', '–', '―', '−', '﹘', '﹣', '－',      # dashes that are NOT the em-dash
        '∕', '⁄', '∗', '∙', '⋅', '∥', '‖', '√', '∞', '∣',
        ' ', ' ', '​', '‌', '‍', '⁠', '﻿', ' ', ' ', '　', ' ', ' ',
        'K', 'Å', 'ſ', 'ı', 'İ', 'ﬁ', 'ẞ',                             # case-folding traps (Kelvin K, long s, dotless i)
        '＋', '＊', '／', '＾', '（', '）', '［', '］', '．', '，', '％', '｜',
        'ｘ', 'ｅ', 'Ｅ', 'ｋ', '１',
        '⁰', '⁴', '⁺', '⁻', '₀', '₁', '⅛', '①', 'Ⅰ', '〇', '二',
        'а', 'е', 'х', 'і',                                                          # Cyrillic look-alikes of a e x i
        '\U0001d465', '\U0001d452', '\U0001d7ce', '\U0001d7d9', '\U0001f100',
    ]
    ranges = [(0xA0, 0x180), (0x370, 0x400), (0x400, 0x460), (0x2000, 0x2070), (0x2070, 0x20A0), (0x2150, 0x2190),
              (0x2200, 0x2240), (0x2460, 0x2474), (0xFF00, 0xFF5F), (0x1D400, 0x1D7FF + 1)]
    wide = []
    for lo, hi in ranges:
        wide.extend(chr(c) for c in range(lo, hi))
    wide = [c for c in wide if c != '—']
    digits = [chr(c) for c in range(0x80, 0x110000) if unicodedata.category(chr(c)) == 'Nd']
    numberlike = [chr(c) for c in range(0x80, 0x3400) if unicodedata.category(chr(c)) in ('No', 'Nl')]

    def uniq(seq):
        seen = set()
        out = []
        for c in seq:
            if c not in seen and c != '—':
                seen.add(c)
                out.append(c)
        return out
    quick = uniq(ascii_foreign + controls + latin1 + greek + selected)
    thorough = uniq(quick + wide)
    return quick, thorough, uniq(digits), uniq(digits + numberlike)


FC_QUICK, FC_THOROUGH, FC_DIGITS, FC_NUMBERLIKE = _uni_tables()
FC_INSERT_BASES = ['2+3', 'x*f(2)', '1.5e3k', '23', '[x,-2]']
FC_DIGIT_FORMS = ['%s', '1%s', '%s.5', '1e%s', '1.%se2', 'x%s', 'x_{%s}', '2^%s', '%s%%']


class ForeignCharacters(Family):
    """E9: characters outside the alphabet of the grammar"""
    name = 'E9_foreign_chars'
    timeout = 20.0
    rule = ('(a) every character of a table (ASCII punctuation outside the grammar, control characters, Latin-1, Greek, '
            'dashes other than the em-dash, Unicode operators, invisible and non-ASCII spaces, case-folding traps such as the '
            'Kelvin sign, full-width forms, look-alike letters; thorough: whole Unicode blocks) inserted at every position of '
            '%r; (b) every Unicode decimal digit outside ASCII (thorough: also every other numeric character) in the digit '
            'slot of %r: always a parse error, from parse() and from evaluator(); characters Python regards as whitespace '
            'are not tried at the two ends of the string (evaluator strips them; not constrained)'
            % (FC_INSERT_BASES, FC_DIGIT_FORMS))

    def setup(self, tier):
        self.V = {'x': 2.0}
        self.F = {'f': f_user}

    def isolate(self):
        X.PARSER = X.MathParser()

    def cases(self, tier):
        chars = FC_THOROUGH if tier == 'thorough' else FC_QUICK
        for ch in chars:
            for b in range(len(FC_INSERT_BASES)):
                for pos in range(len(FC_INSERT_BASES[b]) + 1):
                    if ch.isspace() and pos in (0, len(FC_INSERT_BASES[b])):
                        continue
                    yield ('ins', ord(ch), b, pos)
        digits = FC_NUMBERLIKE if tier == 'thorough' else FC_DIGITS
        for ch in digits:
            for f in range(len(FC_DIGIT_FORMS)):
                yield ('dig', ord(ch), f, 0)

    def text(self, case):
        mode, code, b, pos = case
        ch = chr(code)
        if mode == 'ins':
            base = FC_INSERT_BASES[b]
            return base[:pos] + ch + base[pos:]
        return FC_DIGIT_FORMS[b] % ch

    def describe(self, case):
        import unicodedata
        s = self.text(case)
        return {'string': s, 'char': 'U+%04X %s' % (case[1], unicodedata.name(chr(case[1]), '?'))}

    def check(self, case):
        import unicodedata
        s = self.text(case)
        cat = unicodedata.category(chr(case[1]))
        outcome = None
        for door in ('parse', 'evaluator'):
            try:
                if door == 'parse':
                    X.parse(s)
                    got = 'accepted'
                else:
                    val, _ = X.evaluator(s, self.V, self.F, SUFFIXES, max_array_dim=2)
                    got = 'value %r' % (to_plain(val),)
            except CE.UnbalancedBrackets:
                outcome = outcome or 'unbalanced'
                continue
            except CE.UnableToParse:
                outcome = outcome or 'unable-to-parse'
                continue
            except Exception as e:
                got = '%s: %s' % (type(e).__name__, e)
            return Result('accepted', True,
                          viol('E9:%s:foreign-character-not-a-parse-error:%s' % (case[0], cat),
                               '%s(%r) with U+%04X (%s) in it: expected a parse error, got %s'
                               % (door, s, case[1], unicodedata.name(chr(case[1]), '?'), got), 'parse error', got), 2)
        return Result(outcome, True, None, 2)


# ------------------------------------------------------------------------------------------ E10: evaluation doors with default scope

def sq_user(t):
    return t * t


GD_CONSTANTS = {'c': 299792458.0, 'Kb': 1.5}
GD_FUNCTIONS = {'f': f_user, 'Sq': sq_user}
GD_DOORS = [('evaluator', None)] + [(cls, m) for cls in ('NumericalGrader', 'FormulaGrader', 'MatrixGrader')
                                    for m in ('unset', False, True)]
_PI, _E = math.pi, math.e
# (expression, kind, value or error kind, needs)   needs: None | 'metric' (value only when metric suffixes are on) | 'user'
GD_TABLE = [
    ('2^3^2', 'val', 512.0, None), ('-2^2', 'val', -4.0, None), ('2^-2^2', 'val', 0.0625, None),
    ('2||3*4', 'val', 4.8, None), ('8/2/2', 'val', 2.0, None), ('8-2-3', 'val', 3.0, None), ('2*-3', 'val', -6.0, None),
    ('(2+3)*4', 'val', 20.0, None), ('2*(3+4)^2', 'val', 98.0, None), ('-(2-5)^3', 'val', 27.0, None),
    ('1.5e2', 'val', 150.0, None), ('.5E-1', 'val', 0.05, None), ('3.e+1', 'val', 30.0, None),
    ('1 0 0', 'val', 100.0, None), ('2\t*\n3', 'val', 6.0, None), ('2—5', 'val', -3.0, None), ('2^—1', 'val', 0.5, None),
    ('50%', 'val', 0.5, None), ('2 %', 'val', 0.02, None), ('1e2%', 'val', 1.0, None), ('-5%^2', 'val', -0.0025, None),
    ('2k', 'val', 2e3, 'metric'), ('3M', 'val', 3e6, 'metric'), ('4G', 'val', 4e9, 'metric'), ('5T', 'val', 5e12, 'metric'),
    ('6m', 'val', 6e-3, 'metric'), ('7u', 'val', 7e-6, 'metric'), ('8n', 'val', 8e-9, 'metric'), ('9p', 'val', 9e-12, 'metric'),
    ('1e3k', 'val', 1e6, 'metric'), ('2k^2', 'val', 4e6, 'metric'), ('1/4m', 'val', 250.0, 'metric'), ('2 k', 'val', 2e3, 'metric'),
    ('2K', 'err', 'undeffunc', None), ('2g', 'err', 'undeffunc', None), ('2U', 'err', 'undeffunc', None), ('2P', 'err', 'undeffunc', None),
    ('2N', 'err', 'undeffunc', None), ('2t', 'err', 'undeffunc', None), ('2kk', 'err', 'undeffunc', None), ('2%%', 'err', 'undeffunc', None),
    ('2km', 'err', 'undeffunc', None), ('2mu', 'err', 'undeffunc', None),
    ('pi', 'val', _PI, None), ('e', 'val', _E, None), ('i^2', 'val', -1.0, None), ('j*j', 'val', -1.0, None),
    ('2*pi*j', 'val', complex(0, 2 * _PI), None), ('e^(i*pi)', 'val', -1.0, None), ('(1+i)*(1-j)', 'val', 2.0, None),
    ('2e', 'err', 'undeffunc', None), ('2pi', 'err', 'undeffunc', None), ('2*e', 'val', 2 * _E, None), ('1e1*e', 'val', 10 * _E, None),
    ('PI', 'err', 'undefvar', None), ('Pi', 'err', 'undefvar', None), ('E', 'err', 'undefvar', None), ('I', 'err', 'undefvar', None),
    ('J', 'err', 'undefvar', None), ('x', 'err', 'undefvar', None), ('inf', 'err', 'undefvar', None), ('infty', 'err', 'undefvar', None),
    ('sqrt(16)', 'val', 4.0, None), ('sin(pi/6)', 'val', 0.5, None), ('cos(pi)', 'val', -1.0, None), ('ln(e^2)', 'val', 2.0, None),
    ('log10(1000)', 'val', 3.0, None), ('log2(8)', 'val', 3.0, None), ('exp(1)', 'val', _E, None), ('abs(-3)', 'val', 3.0, None),
    ('max(2,7,5)', 'val', 7.0, None), ('min(2,7,5)', 'val', 2.0, None),
    ('re(2+3*i)', 'val', 2.0, None), ('im(2+3*i)', 'val', 3.0, None),
    ('sqrt(-4)', 'val', complex(0, 2), None), ('sin(2)^2+cos(2)^2', 'val', 1.0, None), ('-sqrt(4)^-2', 'val', -0.25, None),
    ('Sqrt(16)', 'err', 'undeffunc', None), ('SIN(1)', 'err', 'undeffunc', None), ('Exp(1)', 'err', 'undeffunc', None),
    ('LN(2)', 'err', 'undeffunc', None), ('Max(1,2)', 'err', 'undeffunc', None), ('log(2)', 'err', 'undeffunc', None),
    ('pi(2)', 'err', 'undeffunc', None), ('sin', 'err', 'undefvar', None), ('sqrt 4', 'err', 'undefvar', None),
    ('c', 'val', 299792458.0, 'user'), ('Kb*2', 'val', 3.0, 'user'), ('f(3)', 'val', 6.0, 'user'), ('Sq(3)', 'val', 9.0, 'user'),
    ('Sq(f(3))-c/c', 'val', 35.0, 'user'), ('C', 'err', 'undefvar', 'user'), ('kb', 'err', 'undefvar', 'user'), ('KB', 'err', 'undefvar', 'user'),
    ('F(3)', 'err', 'undeffunc', 'user'), ('sq(3)', 'err', 'undeffunc', 'user'), ('SQ(3)', 'err', 'undeffunc', 'user'),
    ('2c', 'err', 'undeffunc', 'user'), ('c(2)', 'err', 'undeffunc', 'user'), ('f', 'err', 'undefvar', 'user'),
    ('2**3', 'err', 'parse', None), ('2 3 +', 'err', 'parse', None), ('sin()', 'err', 'parse', None), ('(2', 'err', 'parse', None),
    ('2−3', 'err', 'parse', None), ('２', 'err', 'parse', None), ('2\t3', 'err', 'parse', None), ('p\ti', 'err', 'parse', None),
    ('', 'blank', None, None), ('   ', 'blank', None, None), ('\t\n', 'blank', None, None),
    # (appended) every default function name resolves to THAT function: one characteristic value each
    ('arccot(0)', 'val', _PI / 2, None), ('arccot(1)', 'val', _PI / 4, None), ('arccot(-1)', 'val', -_PI / 4, None),
    ('arctan(1)', 'val', _PI / 4, None), ('arcsin(1)', 'val', _PI / 2, None), ('arccos(0)', 'val', _PI / 2, None),
    ('arcsec(2)', 'val', _PI / 3, None), ('arccsc(1)', 'val', _PI / 2, None), ('arccsc(2)', 'val', _PI / 6, None),
    ('sec(0)', 'val', 1.0, None), ('csc(pi/2)', 'val', 1.0, None), ('cot(pi/4)', 'val', 1.0, None), ('tan(pi/4)', 'val', 1.0, None),
    ('sinh(1)', 'val', math.sinh(1), None), ('cosh(0)', 'val', 1.0, None), ('tanh(1)', 'val', math.tanh(1), None), ('sech(0)', 'val', 1.0, None),
    ('csch(1)', 'val', 1 / math.sinh(1), None), ('coth(1)', 'val', 1 / math.tanh(1), None),
    ('arcsinh(1)', 'val', math.asinh(1), None), ('arccosh(2)', 'val', math.acosh(2), None), ('arctanh(0.5)', 'val', math.atanh(0.5), None), ('arcsech(0.5)', 'val', math.acosh(2), None),
    ('arccsch(1)', 'val', math.log(1 + math.sqrt(2)), None), ('arccoth(2)', 'val', 0.5 * math.log(3), None),
    ('floor(2.5)', 'val', 2.0, None), ('ceil(2.5)', 'val', 3.0, None), ('conj(2+3*i)', 'val', complex(2, -3), None),
    ('kronecker(2,2)', 'val', 1.0, None), ('arctan2(0,1)', 'val', _PI / 2, None),
    ('arctan2(-1,0)', 'val', _PI, None),
]


class Doors(Family):
    """E10: the same language through every door, with the scope options left at their defaults"""
    name = 'E10_doors'
    timeout = 20.0
    rule = ('a table of %d constant expressions (operator semantics, literal formats, %% and every metric suffix, every default '
            'constant, a sample of default functions, user constants and functions, wrong-case spellings of each, strings outside '
            'the grammar, blank input) x door {evaluator(formula) with NO scope arguments; NumericalGrader, FormulaGrader, '
            'MatrixGrader each with metric_suffixes unset / False / True}: a grader whose answer is the literal value must mark '
            'the expression correct and one whose answer is off by 1e-4 (relative) must mark it incorrect, in both roles '
            '(expression as student input, expression as author answer); a metric suffix is a value only when metric_suffixes '
            'is on; a name outside the scope is an undefined-name error, a string outside the grammar a parse error; blank '
            'input is incorrect, not an error' % len(GD_TABLE))

    def cases(self, tier):
        for d in range(len(GD_DOORS)):
            for e in range(len(GD_TABLE)):
                if GD_DOORS[d][0] == 'evaluator' and GD_TABLE[e][3] == 'user':
                    continue
                yield (d, e)

    def describe(self, case):
        d, e = case
        return {'door': GD_DOORS[d][0], 'metric_suffixes': GD_DOORS[d][1], 'expression': GD_TABLE[e][0],
                'expected': GD_TABLE[e][1:3]}

    @staticmethod
    def literal(v):
        if isinstance(v, complex):
            return '(%r)+(%r)*i' % (v.real, v.imag)
        return repr(float(v))

    def make(self, door, metric, answers):
        import mitxgraders as MG
        kw = {'answers': answers, 'tolerance': '0.00001%', 'user_constants': dict(GD_CONSTANTS),
              'user_functions': dict(GD_FUNCTIONS)}
        if metric != 'unset':
            kw['metric_suffixes'] = metric
        return getattr(MG, door)(**kw)

    def check(self, case):
        d, e = case
        door, metric = GD_DOORS[d]
        expr, kind, target, needs = GD_TABLE[e]
        if needs == 'metric' and metric is not True:
            kind, target = 'err', 'undeffunc'
        where = '%s%s on %r' % (door, '' if metric in (None, 'unset') else '(metric_suffixes=%r)' % metric, expr)
        calls = 0

        def run(fn):
            try:
                return ('ret', fn())
            except Exception as ex:
                return ('err', real_kind(ex), '%s: %s' % (type(ex).__name__, ex))

        if door == 'evaluator':
            calls += 1
            got = run(lambda: X.evaluator(expr)[0])
            if kind == 'blank':
                if got[0] == 'ret' and isinstance(got[1], float) and math.isnan(got[1]):
                    return Result('blank', True, None, calls)
                return Result('blank', True, viol('E10:evaluator:blank-not-nan', '%s: expected nan, got %r' % (where, got)), calls)
            if kind == 'val':
                if got[0] != 'ret':
                    return Result('value', True, viol('E10:evaluator:error-instead-of-value',
                                                      '%s: expected %r, got %s' % (where, target, got[2]), target, got[2]), calls)
                if not R.close(target, to_plain(got[1])):
                    return Result('value', True, viol('E10:evaluator:wrong-value',
                                                      '%s: expected %r, got %r' % (where, target, got[1]), target, got[1]), calls)
                return Result('value', True, None, calls)
            if got[0] == 'ret':
                return Result('err', True, viol('E10:evaluator:value-instead-of-error',
                                                '%s: expected a %s error, got %r' % (where, target, got[1]), target, got[1]), calls)
            if got[1] != target:
                return Result('err', True, viol('E10:evaluator:wrong-error-kind',
                                                '%s: expected a %s error, got %s' % (where, target, got[2]), target, got[2]), calls)
            return Result('err:' + target, True, None, calls)

        if kind == 'blank':
            calls += 1
            got = run(lambda: self.make(door, metric, '1')(None, expr))
            if got[0] == 'ret' and got[1].get('ok') is False:
                return Result('blank', True, None, calls)
            return Result('blank', True, viol('E10:grader:blank-input-not-incorrect',
                                              '%s: expected an incorrect verdict, got %r' % (where, got)), calls)
        if kind == 'err':
            calls += 1
            got = run(lambda: self.make(door, metric, '1')(None, expr))
            if got[0] == 'ret':
                return Result('err', True, viol('E10:grader:verdict-instead-of-error',
                                                '%s: expected a %s error, got the verdict %r' % (where, target, got[1]), target, got[1]), calls)
            if got[1] != target:
                return Result('err', True, viol('E10:grader:wrong-error-kind',
                                                '%s: expected a %s error, got %s' % (where, target, got[2]), target, got[2]), calls)
            return Result('err:' + target, True, None, calls)
        lit = self.literal(target)
        miss = self.literal(target * (1 + 1e-4))
        plan = [('student', lit, expr, True), ('student', miss, expr, False),
                ('author', expr, lit, True), ('author', expr, miss, False)]
        for role, answers, student, want in plan:
            calls += 1
            got = run(lambda: self.make(door, metric, answers)(None, student))
            if got[0] != 'ret':
                return Result('value', True,
                              viol('E10:grader:error-instead-of-verdict',
                                   '%s (expression as %s input, other side %r): %s' % (where, role, answers if role == 'student' else student, got[2]),
                                   want, got[2]), calls)
            if got[1].get('ok') is not want:
                return Result('value', True,
                              viol('E10:grader:wrong-verdict:%s' % ('rejects-equal' if want else 'accepts-different'),
                                   '%s = %r (expression as %s input): answers=%r, student input %r gave ok=%r, expected %r'
                                   % (where, target, role, answers, student, got[1].get('ok'), want), want, got[1].get('ok')), calls)
        return Result('value', True, None, calls)


# ------------------------------------------------------------------------------------------ E11: depth and length

DEPTHS = [1, 2, 3, 4, 5, 6, 8, 13, 21, 34]
# PENDING-FINDING: at depth 55 and 89 the four nesting schemes (parentheses around a leaf / a sum, nested negated
# parentheses, nested calls) make evaluator() raise a raw RecursionError (interpreter stack exhausted inside pyparsing;
# the threshold is about 50 levels of '(' and about 35 levels of 'h('); through a grader it becomes the generic
# "Could not check input" error.  Skipped until it is decided whether unbounded redundant nesting is in scope.
DEPTHS_PENDING = [55, 89]


def _fold_right_pow(base, exps):
    v = exps[-1]
    for b in reversed(exps[:-1]):
        v = b ** v
    return base ** v


DEPTH_KINDS = [
    # name, text(d), value(d)
    ('parentheses around a leaf', lambda d: '3*' + '(' * d + '2' + ')' * d + '^2', lambda d: 12.0),
    ('parentheses around a sum', lambda d: '(' * d + '2+3' + ')' * d + '*2', lambda d: 10.0),
    ('nested negated parentheses', lambda d: '-(' * d + '2' + ')' * d, lambda d: 2.0 * (-1) ** d),
    ('nested function calls', lambda d: 'h(' * d + '1' + ')' * d, lambda d: 1.0 + d),
    ('nested 2-argument calls', lambda d: 'g(' * d + '1' + ',1)' * d, lambda d: 1.0 - 2.0 * d),
    ('power tower with signed exponents', lambda d: '2' + '^-1' * d, lambda d: 0.5),
    ('power tower, sign on the last exponent only', lambda d: '4' + '^0.5' * d + '^-1', lambda d: _fold_right_pow(4.0, [0.5] * d + [-1.0])),
    ('power tower, sign on the first exponent only', lambda d: '4^-0.5' + '^0.5' * d, lambda d: 4.0 ** -(_fold_right_pow(0.5, [0.5] * d))),
    ('sum chain', lambda d: '1' + '+1' * d, lambda d: 1.0 + d),
    ('difference chain', lambda d: '1' + '-1' * d, lambda d: 1.0 - d),
    ('alternating sum chain', lambda d: '1' + ''.join('-+'[k % 2] + str(k + 2) for k in range(d)),
     lambda d: 1.0 + sum((-1) ** (k + 1) * (k + 2) for k in range(d))),
    ('product chain', lambda d: '1' + '*2' * d, lambda d: 2.0 ** d),
    ('quotient chain', lambda d: '1024' + '/2' * d, lambda d: 1024.0 / 2.0 ** d),
    ('alternating product chain', lambda d: '3' + ''.join('*/'[k % 2] + '2' for k in range(d)), lambda d: 3.0 * 2.0 ** (d % 2)),
    ('parallel chain', lambda d: '1' + '||1' * d, lambda d: 1.0 / (d + 1)),
    ('parallel chain with negations', lambda d: '-2' + '||-2' * d, lambda d: -2.0 / (d + 1)),
    ('negation after every operator', lambda d: '1' + ''.join('+*-/'[k % 4] + '-2' for k in range(d)), None),
]


def _neg_after_every(d):
    # 1 + -2 * -2 - -2 / -2 + -2 ...   evaluated by precedence with exact small arithmetic
    terms = [[1.0]]
    signs = [1]
    for k in range(d):
        op = '+*-/'[k % 4]
        if op == '+':
            terms.append([-2.0])
            signs.append(1)
        elif op == '-':
            terms.append([-2.0])
            signs.append(-1)
        elif op == '*':
            terms[-1].append(('*', -2.0))
        else:
            terms[-1].append(('/', -2.0))
    total = 0.0
    for sg, t in zip(signs, terms):
        v = t[0]
        for op, x in t[1:]:
            v = v * x if op == '*' else v / x
        total += sg * v
    return total


class Depth(Family):
    """E11: nesting depth and chain length beyond the exhaustive bounds of E1/E2/E7"""
    name = 'E11_depth'
    rule = ('%d one-parameter formula schemes (redundant parentheses around a leaf / a sum, nested negations, nested 1- and '
            '2-argument calls, power towers with signs on every / the last / the first exponent, chains of each operator and '
            'mixed chains) at depth or length d in %r with closed-form values' % (len(DEPTH_KINDS), DEPTHS))

    def cases(self, tier):
        for k in range(len(DEPTH_KINDS)):
            for d in DEPTHS:
                yield (k, d)

    def describe(self, case):
        return {'scheme': DEPTH_KINDS[case[0]][0], 'text': DEPTH_KINDS[case[0]][1](case[1])}

    def isolate(self):
        X.PARSER = X.MathParser()

    def check(self, case):
        k, d = case
        name, mk, val = DEPTH_KINDS[k]
        s = mk(d)
        exp = val(d) if val is not None else _neg_after_every(d)
        try:
            got, _ = X.evaluator(s, {}, {'h': h_plus1, 'g': g2}, {})
        except Exception as e:
            return Result('error', True, viol('E11:error-instead-of-value:' + name,
                                              '%r (%s, d=%d): expected %r, got %s: %s' % (s, name, d, exp, type(e).__name__, e),
                                              exp, repr(e)))
        if not R.close(exp, to_plain(got)):
            return Result('wrong', True, viol('E11:wrong-value:' + name,
                                              '%r (%s, d=%d): expected %r, got %r' % (s, name, d, exp, got), exp, got))
        return Result('value' if d <= 4 else 'value-beyond-exhaustive-bound', True)


def families(tier):
    return [
        TokenStrings('E1', E1_TOKENS, {'quick': 5, 'thorough': 6}),
        TokenStrings('E3', E3_CHARS, {'quick': 5, 'thorough': 6}, extra_vars={'e': math.e},
                     note=' (number-literal characters; % and k are suffixes, e is also a constant)'),
        Chains(),
        Names(),
        Literals(),
        ArrayProducts(),
        FrontDoor(),
        Trees(),
        InsertedWhitespace(),
        ForeignCharacters(),
        Doors(),
        Depth(),
        TokenStrings('E1s', E1S_TOKENS, {'quick': 4, 'thorough': 5},
                     note=' (suffix characters % and k next to names, calls, parentheses and operators)'),
    ]
