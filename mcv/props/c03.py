"""
C03 -- formula strings evaluate to the value mathematics assigns them.

Every string of several finite families is (1) parsed and (2) evaluated by the real
`parse` / `evaluator`, and compared with the independent reference in mcv/refs/expr.py:
language membership must agree exactly, accepted strings must give the reference value
(or the same kind of error), under three variable bindings.
"""
import itertools
import math
from ..core import Family, Result, viol, HarnessError
from ..refs import expr as R

import mitxgraders.helpers.calc.expressions as X
from mitxgraders.helpers.calc import exceptions as CE
from mitxgraders.helpers.calc.math_array import MathArray
from mitxgraders.exceptions import MITxError, StudentFacingError

PROPERTY = 'C03'
RULE = ('all token strings up to a length bound (E1), all literal-character strings up to a length bound (E3), '
        'all operator chains x sign subsets x renderings (E2), name tables (E4); a string is non-trivial when it '
        'is in the language; a chain when at least one plausible wrong grammar gives a different value')
EXPLANATION = ('states = distinct strings/chains enumerated; transitions = calls of the real parse()/evaluator(); '
               'the reference parser/evaluator is an oracle only, every case runs the implementation')
ASSUMPTIONS = ['reference grammar transcribed from the documentation and the property statement (mcv/refs/expr.py)',
               'numeric agreement within relative 1e-9',
               'array arithmetic beyond + - scalar* /scalar is not constrained here (C14 does that)',
               'which of several applicable error kinds is reported is not constrained, except parse errors']


def f_user(t):
    return t * t - 3


SCOPES = [
    {'x': -1.5},
    {'x': 0.0},
    {'x': complex(0.5, 2.0)},
]
SUFFIXES = {'%': 0.01, 'k': 1000.0}


def real_kind(e):
    if isinstance(e, (CE.UnableToParse, CE.UnbalancedBrackets)):
        return 'parse'
    if isinstance(e, CE.UndefinedVariable):
        return 'undefvar'
    if isinstance(e, CE.UndefinedFunction):
        return 'undeffunc'
    if isinstance(e, CE.CalcZeroDivisionError):
        return 'zerodiv'
    if isinstance(e, CE.CalcOverflowError):
        return 'overflow'
    if isinstance(e, CE.MathArrayError):
        return 'shape'
    if isinstance(e, CE.DomainError) or isinstance(e, CE.FunctionEvalError):
        return 'domain'
    if isinstance(e, CE.CalcError):
        return 'calc'
    if isinstance(e, StudentFacingError):
        return 'student'
    return 'RAW:' + type(e).__name__


def to_plain(v):
    if isinstance(v, MathArray) or hasattr(v, 'tolist'):
        return v.tolist()
    return v


class StringJudge(object):
    """shared by E1/E3/E4: compares one string between implementation and reference"""

    def __init__(self, variables_list, functions_real, functions_ref, suffixes):
        self.variables_list = variables_list
        self.functions_real = functions_real
        self.functions_ref = functions_ref
        self.suffixes = suffixes
        self.n = 0

    def fresh_parser_sometimes(self):
        # the shared parser caches every accepted string; keep worker memory bounded
        self.n += 1
        if self.n % 20000 == 0:
            X.PARSER = X.MathParser()

    def judge(self, s, tag):
        self.fresh_parser_sometimes()
        calls = 1
        try:
            ast, rv, rf, rs = R.parse(s)
            ref_ok = True
        except R.RefParseError:
            ref_ok = False
        try:
            X.parse(s)
            real_ok = True
        except (CE.UnableToParse, CE.UnbalancedBrackets):
            real_ok = False
        except RecursionError:
            raise
        except Exception as e:
            return Result('parse-raised', True,
                          viol(tag + ':parse-raises-%s' % type(e).__name__,
                               'parse(%r) raised %s: %s' % (s, type(e).__name__, e),
                               'accept' if ref_ok else 'parse error', repr(e)))
        if ref_ok != real_ok:
            if real_ok:
                return Result('accepts-invalid', True,
                              viol(tag + ':accepts-invalid', '%r is outside the grammar but was parsed' % s,
                                   'parse error', 'accepted'))
            return Result('rejects-valid', True,
                          viol(tag + ':rejects-valid', '%r is in the grammar but was rejected' % s,
                               'accepted', 'parse error'))
        if not ref_ok:
            return Result('reject', False, None, calls)
        outcome = None
        for V in self.variables_list:
            calls += 1
            kinds = R.scope_errors(rv, rf, rs, V, self.functions_ref, self.suffixes)
            exp = None
            if kinds:
                exp = ('err', kinds)
            else:
                try:
                    exp = ('val', R.evaluate(ast, V, self.functions_ref, self.suffixes))
                except R.RefEvalError as e:
                    exp = ('err', {e.kind})
                except R.AnyOutcome:
                    exp = ('any', None)
            try:
                val, _meta = X.evaluator(s, V, self.functions_real, self.suffixes)
                got = ('val', to_plain(val))
            except Exception as e:
                got = ('err', real_kind(e), '%s: %s' % (type(e).__name__, e))
            o, v = self.compare(s, V, exp, got, tag)
            outcome = outcome or o
            if v:
                return Result(o, True, v, calls)
        return Result(outcome, True, None, calls)

    def compare(self, s, V, exp, got, tag):
        where = '%r with %s' % (s, {k: V[k] for k in sorted(V)})
        if exp[0] == 'any':
            if got[0] == 'err' and got[1].startswith('RAW:'):
                return 'any', None          # raw failures on array arithmetic are judged by C02/C14
            return 'any', None
        if exp[0] == 'val':
            if got[0] != 'val':
                return 'value', viol(tag + ':error-instead-of-value',
                                     '%s: expected %r, got %s' % (where, exp[1], got[2]), exp[1], got[2])
            if not R.close(exp[1], got[1]):
                return 'value', viol(tag + ':wrong-value', '%s: expected %r, got %r' % (where, exp[1], got[1]),
                                     exp[1], got[1])
            if R.is_arr(exp[1]):
                return 'array-value', None
            return ('complex-value' if isinstance(exp[1], complex) else 'value'), None
        kinds = exp[1]
        if got[0] == 'val':
            return 'err', viol(tag + ':value-instead-of-error',
                               '%s: expected an error of kind %s, got value %r' % (where, sorted(kinds), got[1]),
                               sorted(kinds), got[1])
        k = got[1]
        if kinds & {'undefvar', 'undeffunc'}:
            ok = k in kinds
        elif kinds & {'zerodiv', 'overflow'}:
            ok = k in ('zerodiv', 'overflow', 'domain')
            # which of the two float failures is reported first is arithmetic-order dependent; both are CalcErrors
        elif 'shape' in kinds:
            ok = not k.startswith('RAW:') or True     # array failures: class judged by C14/C02
        elif 'domain' in kinds:
            ok = k in ('domain',)
        else:
            ok = True
        if not ok:
            return 'err', viol(tag + ':wrong-error-kind', '%s: expected error kind %s, got %s' % (where, sorted(kinds), got[2]),
                               sorted(kinds), got[2])
        return 'err:' + '/'.join(sorted(kinds)), None


def make_judge(extra_vars=None, extra_funcs=None):
    vl = []
    for sc in SCOPES:
        d = dict(sc)
        if extra_vars:
            d.update(extra_vars)
        vl.append(d)
    fr = {'f': f_user}
    fref = {'f': (1, f_user)}
    if extra_funcs:
        for k, (ar, fn) in extra_funcs.items():
            fr[k] = fn
            fref[k] = (ar, fn)
    return StringJudge(vl, fr, fref, SUFFIXES)


class TokenStrings(Family):
    """E1 / E3: all strings over a token alphabet up to a length"""
    timeout = 20.0

    def __init__(self, name, tokens, maxlen, extra_vars=None, note=''):
        self.name = name
        self.tokens = tokens
        self.maxlen = maxlen
        self.extra_vars = extra_vars
        self.rule = ('every concatenation of 1..%s tokens from %s%s; judged by language membership + value under '
                     '3 bindings of x; non-trivial = in the language' % (maxlen, tokens, note))

    def setup(self, tier):
        self.j = make_judge(self.extra_vars)

    def isolate(self):
        X.PARSER = X.MathParser()

    def cases(self, tier):
        n = self.maxlen[tier] if isinstance(self.maxlen, dict) else self.maxlen
        idx = range(len(self.tokens))
        for L in range(1, n + 1):
            for tup in itertools.product(idx, repeat=L):
                yield tup

    def describe(self, case):
        return ''.join(self.tokens[i] for i in case)

    def check(self, case):
        s = ''.join(self.tokens[i] for i in case)
        return self.j.judge(s, self.name)


E1_TOKENS = ['2', '.5', 'x', 'f', '+', '-', '*', '/', '^', '||', '(', ')', '[', ']', ',']
E3_CHARS = ['1', '0', '.', 'e', 'E', '+', '-', '%', 'k', ' ']

OPS = ['+', '-', '*', '/', '^', '||']
LEAVES = [2.0, 3.0, 1.5, 0.5, 1.25]
LEAF_TXT = ['2', '3', '1.5', '0.5', '1.25']


def render(tokens, style):
    if style == 'plain':
        return ''.join(tokens)
    if style == 'spaced':
        return ' '.join(' '.join(t) for t in tokens) + ' '
    if style == 'tabs':
        seps = ['\t', '\n', '\r', '\r\n', ' \t ']
        out = []
        for k, t in enumerate(tokens):
            out.append(t)
            out.append(seps[k % len(seps)])
        return '\t' + ''.join(out)
    if style == 'parens':
        out = []
        for t in tokens:
            if t[0].isdigit():
                out.append('((' + t + '))')
            else:
                out.append(t)
        return '(' + ''.join(out) + ')'
    if style == 'emdash':
        return ''.join('—' if t == '-' else t for t in tokens)
    raise ValueError(style)


STYLES = ['plain', 'spaced', 'tabs', 'parens', 'emdash']


class Chains(Family):
    """E2: precedence and associativity"""
    name = 'E2_chains'
    timeout = 20.0
    rule = ('every chain [-]l0 o1 [-]l1 ... o_n [-]l_n, n<=4 (quick 3), o in {+,-,*,/,^,||}, every subset of unary '
            'minus slots, leaves (2,3,1.5,0.5,1.25), in 5 renderings (plain, a space between all characters, '
            'tab/CR/LF between tokens, redundant parentheses, em-dash minus); non-trivial = some wrong grammar '
            '(swapped levels, flipped associativity, 9 dialects) gives a different value')

    def setup(self, tier):
        self.nfresh = 0

    def isolate(self):
        X.PARSER = X.MathParser()

    def cases(self, tier):
        nmax = 4 if tier == 'thorough' else 3
        for n in range(1, nmax + 1):
            for ops in itertools.product(range(len(OPS)), repeat=n):
                for negmask in range(2 ** (n + 1)):
                    yield (ops, negmask)

    def describe(self, case):
        ops, negmask = case
        return ''.join(self.tokens(ops, negmask))

    def tokens(self, ops, negmask):
        toks = []
        for k in range(len(ops) + 1):
            if negmask >> k & 1:
                toks.append('-')
            toks.append(LEAF_TXT[k])
            if k < len(ops):
                toks.append(OPS[ops[k]])
        return toks

    def check(self, case):
        ops, negmask = case
        opsyms = [OPS[i] for i in ops]
        n = len(ops)
        negs = [bool(negmask >> k & 1) for k in range(n + 1)]
        toks = self.tokens(ops, negmask)
        plain = ''.join(toks)
        # reference value, two independent routes that must agree (harness self-check)
        ast, _, _, _ = R.parse(plain)
        try:
            ref = ('val', R.evaluate(ast, {}, {}, {}))
        except R.RefEvalError as e:
            ref = ('err', e.kind)
        alt = R.eval_chain(LEAVES[:n + 1], opsyms, negs)
        if (ref[0] == 'val') != (alt is not None) or (alt is not None and not R.close(ref[1], alt)):
            raise HarnessError('reference routes disagree on %r: %r vs %r' % (plain, ref, alt))
        nontrivial = False
        if alt is not None:
            for d in R.WRONG_DIALECTS.values():
                w = R.eval_chain(LEAVES[:n + 1], opsyms, negs, d)
                if w is None or not R.close(w, alt, 1e-6):
                    nontrivial = True
                    break
        self.nfresh += 1
        if self.nfresh % 5000 == 0:
            X.PARSER = X.MathParser()
        calls = 0
        for style in STYLES:
            s = render(toks, style)
            calls += 1
            try:
                val, _ = X.evaluator(s, {}, {}, {})
                got = ('val', val)
            except Exception as e:
                got = ('err', real_kind(e), '%s: %s' % (type(e).__name__, e))
            if ref[0] == 'val':
                if got[0] != 'val':
                    return Result('value', nontrivial,
                                  viol('E2:%s:error-instead-of-value' % style,
                                       '%r: expected %r, got %s' % (s, ref[1], got[2]), ref[1], got[2]), calls)
                if not R.close(ref[1], got[1]):
                    return Result('value', nontrivial,
                                  viol('E2:%s:wrong-value' % style,
                                       '%r: expected %r, got %r' % (s, ref[1], got[1]), ref[1], got[1]), calls)
            else:
                if got[0] == 'val':
                    return Result('err', nontrivial,
                                  viol('E2:%s:value-instead-of-error' % style,
                                       '%r: expected %s error, got %r' % (s, ref[1], got[1]), ref[1], got[1]), calls)
                if got[1] not in ('zerodiv', 'overflow'):
                    return Result('err', nontrivial,
                                  viol('E2:%s:wrong-error-kind' % style,
                                       '%r: expected %s error, got %s' % (s, ref[1], got[2]), ref[1], got[2]), calls)
        if ref[0] == 'val':
            return Result('complex' if isinstance(ref[1], complex) else 'real', nontrivial, None, calls)
        return Result('err:' + ref[1], nontrivial, None, calls)


NAMES_VARS = {'X': 7.0, 'x1': 11.0, 'x_1': 13.0, "x'": 17.0, 'a_{1}^{2}': 19.0, 'T_{ij}': 23.0, 'sin': 29.0,
              "x''": 31.0, 'a_{1}': 37.0, 'a^{2}': 41.0, 'a_{-1}': 43.0, 'xy_z_2': 47.0, 'a': 53.0}


def F_upper(t):
    return t + 100


def fprime(t):
    return t + 1000


def g2(a, b):
    return a - 2 * b


NAMES_FUNCS = {'F': (1, F_upper), "f'": (1, fprime), 'g': (2, g2), 'sin': (1, math.sin)}
E4_ATOMS = ['x', 'X', 'x1', 'x_1', "x'", "x''", 'a_{1}^{2}', 'T_{ij}', 'sin', 'a_{1}', 'a^{2}', 'a_{-1}', 'xy_z_2',
            'a', 'f(2)', 'F(2)', "f'(2)", 'g(2,3)', 'g(3,2)', 'sin(2)', 'sin(sin)', 'f(x)', 'F(X)',
            # not in scope / confusable / malformed
            'Sin(2)', 'y', 'x2', 'x_', "x'1", 'a_{1', 'a_{}', 'a_{1}_{2}', 'a_b_{1}', "f''(2)", 'G(2,3)', 'g(2)', 'f(2,3)',
            'a^{2}^{3}', 'a_{1}^{2}^{3}', 'T_{i j}', 'a_{i+1}', '2x', '2X', 'x 1', 'x(2)', 'X (2)', 'sin 2', 'f f(2)']
E4_OPS = ['+', '*', '^', '||', '-', '/']


class Names(Family):
    name = 'E4_names'
    timeout = 20.0
    rule = ('each atom of a %d-entry name table (subscripted, tensor-indexed, primed, case variants, variable named '
            'like a function, functions of 1 and 2 arguments, out-of-scope and malformed names) alone and in every '
            'atom op atom combination, op in %s; scope values pairwise distinct; judged like E1' % (len(E4_ATOMS), E4_OPS))

    def setup(self, tier):
        self.j = make_judge(NAMES_VARS, NAMES_FUNCS)

    def isolate(self):
        X.PARSER = X.MathParser()

    def cases(self, tier):
        for a in range(len(E4_ATOMS)):
            yield (a,)
        for a in range(len(E4_ATOMS)):
            for o in range(len(E4_OPS)):
                for b in range(len(E4_ATOMS)):
                    yield (a, o, b)

    def describe(self, case):
        if len(case) == 1:
            return E4_ATOMS[case[0]]
        return E4_ATOMS[case[0]] + E4_OPS[case[1]] + E4_ATOMS[case[2]]

    def check(self, case):
        return self.j.judge(self.describe(case), 'E4')


LIT_MANT = ['1', '1.2345', '4.75', '.5', '3.', '007', '12345678.9', '0.000123', '0']
LIT_EXP = ['', 'e0', 'E-3', 'e-7', 'e-14', 'E-20', 'e+5', 'E12', 'e-300', 'e300', 'e-320']
LIT_SUFFIX = ['', '%', 'k', 'M', 'G', 'T', 'm', 'u', 'n', 'p']
ALL_SUFFIXES = {'%': 0.01, 'k': 1e3, 'M': 1e6, 'G': 1e9, 'T': 1e12, 'm': 1e-3, 'u': 1e-6, 'n': 1e-9, 'p': 1e-12}
LIT_FORMS = ['%s', '-%s', '2*%s', '(%s)^1', '%s/7', ' %s ']


class Literals(Family):
    """number literals of every magnitude with every suffix multiplier"""
    name = 'E5_literals'
    rule = ('mantissa %r x exponent part %r x suffix %r (all metric suffixes and %% in scope) x forms %r: the value is '
            'literal x multiplier computed exactly with fractions, compared within relative 1e-12 (results beyond the float '
            'range: an error or infinity; below it: zero or a denormal)' % (LIT_MANT, LIT_EXP, LIT_SUFFIX, LIT_FORMS))

    def cases(self, tier):
        for a in range(len(LIT_MANT)):
            for b in range(len(LIT_EXP)):
                for c in range(len(LIT_SUFFIX)):
                    for f in range(len(LIT_FORMS)):
                        yield (a, b, c, f)

    def text(self, case):
        a, b, c, f = case
        return LIT_FORMS[f] % (LIT_MANT[a] + LIT_EXP[b] + LIT_SUFFIX[c])

    def describe(self, case):
        return self.text(case)

    def check(self, case):
        from fractions import Fraction
        a, b, c, f = case
        s = self.text(case)
        exact = Fraction(LIT_MANT[a] if not LIT_MANT[a].endswith('.') else LIT_MANT[a] + '0')
        if LIT_EXP[b]:
            exact *= Fraction(10) ** int(LIT_EXP[b][1:])
        if LIT_SUFFIX[c]:
            exact *= Fraction(ALL_SUFFIXES[LIT_SUFFIX[c]])        # the float multiplier, exactly
        literal = exact
        exact = [exact, -exact, 2 * exact, exact, exact / 7, exact][f]
        try:
            val, _ = X.evaluator(s, {}, {}, ALL_SUFFIXES)
            got = ('val', val)
        except CE.CalcError as e:
            got = ('err', type(e).__name__)
        except Exception as e:
            return Result('raw', True, viol('E5:raw-exception', '%r raised %s: %s' % (s, type(e).__name__, e)))
        maxf = Fraction(17976931348623157, 10 ** 16) * Fraction(10) ** 308
        big = abs(exact) > maxf or abs(literal) > maxf          # the literal itself may overflow before it is divided
        tiny = exact != 0 and abs(exact) < Fraction(1, 10 ** 300)
        if big:
            if got[0] == 'val' and not (isinstance(got[1], float) and math.isinf(got[1])):
                return Result('big', True, viol('E5:finite-value-for-overflow', '%r gave %r' % (s, got[1])))
            return Result('overflow', True)
        if got[0] != 'val':
            return Result('err', True, viol('E5:error-for-valid-literal', '%r raised %s' % (s, got[1]), float(exact), got))
        v = got[1]
        if not isinstance(v, (int, float)) or isinstance(v, bool):
            return Result('type', True, viol('E5:not-a-real-number', '%r gave %r' % (s, v), float(exact), repr(v)))
        if tiny:
            ok = abs(v) <= 1e-299
        elif exact == 0:
            ok = (v == 0)
        else:
            ok = abs(Fraction(v) - exact) <= abs(exact) * Fraction(1, 10 ** 12)
        if not ok:
            return Result('wrong', True, viol('E5:wrong-value', '%r evaluates to %r, literal x multiplier is %r' % (s, v, float(exact)),
                                              float(exact), v))
        return Result('tiny' if tiny else 'value', True)


AP_OPERANDS = {
    's': 2.0, 't': -0.5,
    'v': [1.0, 2.0], 'w': [3.0, -1.0],
    'M': [[1.0, 2.0], [3.0, 4.0]], 'N': [[0.0, 1.0], [1.0, 1.0]],
}
AP_ORDER = ['s', 'v', 'w', 'M', 'N', 't']


def _ap_mul(a, b):
    """product of two operands by the documented rules (scalar, vector, matrix); raises ValueError on a shape error"""
    da = 0 if not isinstance(a, list) else (2 if isinstance(a[0], list) else 1)
    db = 0 if not isinstance(b, list) else (2 if isinstance(b[0], list) else 1)
    if da == 0 and db == 0:
        return a * b
    if da == 0:
        return [[a * x for x in r] for r in b] if db == 2 else [a * x for x in b]
    if db == 0:
        return [[x * b for x in r] for r in a] if da == 2 else [x * b for x in a]
    if da == 1 and db == 1:
        if len(a) != len(b):
            raise ValueError('shape')
        return sum(x * y for x, y in zip(a, b))
    if da == 2 and db == 1:
        if len(a[0]) != len(b):
            raise ValueError('shape')
        return [sum(x * y for x, y in zip(r, b)) for r in a]
    if da == 1 and db == 2:
        if len(a) != len(b):
            raise ValueError('shape')
        return [sum(a[i] * b[i][j] for i in range(len(a))) for j in range(len(b[0]))]
    if len(a[0]) != len(b):
        raise ValueError('shape')
    return [[sum(a[i][k] * b[k][j] for k in range(len(b))) for j in range(len(b[0]))] for i in range(len(a))]


class ArrayProducts(Family):
    """E6: '*' is left-associative over scalar, vector and matrix operands too"""
    name = 'E6_array_products'
    timeout = 20.0
    rule = ('every chain a1*a2*...*an, n <= 4, of operands from {scalars s, t; vectors v, w; 2x2 matrices M, N} written flat, '
            'with variables and with literals: the value is the left-to-right product (dot product for two vectors, matrix-vector, '
            'vector-matrix, matrix-matrix), i.e. the same as the fully left-parenthesised form; a chain in which a '
            'vector*vector product is followed by a further vector operand is refused as ambiguous (documented); the explicitly '
            'left-parenthesised form is never refused for that reason')

    def cases(self, tier):
        for n in range(2, 5):
            for combo in itertools.product(range(len(AP_ORDER)), repeat=n):
                for form in ('var', 'lit'):
                    if form == 'lit' and n == 4 and tier == 'quick':
                        continue
                    yield (combo, form)

    def text(self, combo, form, paren):
        def one(k):
            name = AP_ORDER[k]
            if form == 'var':
                return name
            val = AP_OPERANDS[name]
            return R_num(val)
        parts = [one(k) for k in combo]
        if not paren:
            return '*'.join(parts)
        out = parts[0]
        for q in parts[1:]:
            out = '(%s*%s)' % (out, q)
        return out

    def describe(self, case):
        combo, form = case
        return {'flat': self.text(combo, form, False), 'left-parenthesised': self.text(combo, form, True)}

    def check(self, case):
        combo, form = case
        vals = [AP_OPERANDS[AP_ORDER[k]] for k in combo]
        # oracle: left fold; the documented ambiguity rule for the FLAT form
        expected, ambiguous = None, False
        try:
            acc = vals[0]
            dotted = False
            for b in vals[1:]:
                b_is_vec = isinstance(b, list) and not isinstance(b[0], list)
                a_is_vec = isinstance(acc, list) and not isinstance(acc[0], list)
                if b_is_vec and dotted:
                    ambiguous = True
                if b_is_vec and a_is_vec:
                    dotted = True
                acc = _ap_mul(acc, b)
            expected = ('val', acc)
        except ValueError:
            expected = ('err', 'shape')
        V = {k: (MathArray(v) if isinstance(v, list) else v) for k, v in AP_OPERANDS.items()}
        outs = []
        for paren in (False, True):
            s = self.text(combo, form, paren)
            try:
                val, _ = X.evaluator(s, V, {}, {}, max_array_dim=2)
                outs.append(('val', to_plain(val)))
            except CE.CalcError as e:
                outs.append(('err', type(e).__name__, str(e)[:120]))
            except MITxError as e:
                outs.append(('err', type(e).__name__, str(e)[:120]))
            except Exception as e:
                return Result('raw', True, viol('E6:raw-exception', '%r raised %s: %s' % (s, type(e).__name__, e)))
        flat, par = outs

        def same(a, b):
            if isinstance(a, list) != isinstance(b, list):
                return False
            if isinstance(a, list):
                return len(a) == len(b) and all(same(x, y) for x, y in zip(a, b))
            return abs(a - b) <= 1e-9 * max(1.0, abs(a), abs(b))
        where = 'flat %r / parenthesised %r' % (self.text(combo, form, False), self.text(combo, form, True))
        if expected[0] == 'err':
            for o in outs:
                if o[0] == 'val':
                    return Result('value-for-shape-error', True,
                                  viol('E6:value-for-shape-error', '%s: the shapes do not multiply but a value came back: %r' % (where, o[1])))
            return Result('shape-error', True)
        if par[0] != 'val' or not same(par[1], expected[1]):
            return Result('paren-wrong', True,
                          viol('E6:left-parenthesised-product-wrong', '%s: parenthesised form gives %r, left-to-right product is %r'
                               % (where, par, expected[1]), expected[1], par))
        if ambiguous:
            if flat[0] == 'val' and not same(flat[1], expected[1]):
                return Result('ambiguous-wrong-value', True,
                              viol('E6:flat-product-wrong', '%s: flat form gives %r, left-to-right product is %r' % (where, flat, expected[1]),
                                   expected[1], flat))
            return Result('ambiguous:' + flat[0], False)
        if flat[0] != 'val' or not same(flat[1], expected[1]):
            return Result('flat-wrong', True,
                          viol('E6:flat-product-differs-from-left-parenthesised',
                               '%s: flat form gives %r, left-to-right product is %r' % (where, flat, expected[1]), expected[1], flat))
        return Result('value', True)


def R_num(val):
    if isinstance(val, list):
        return '[' + ','.join(R_num(x) for x in val) + ']'
    return ('(%r)' % val) if val < 0 else repr(val)


FRONT = [
    ('', None, 'nan'), ('   ', None, 'nan'), (' \t ', None, 'nan'), ('\n', None, 'nan'),
    ('[1,2]', 0, 'parse'), ('[1,2]', 1, 'val'), ('[[1,2],[3,4]]', 1, 'parse'), ('[[1,2],[3,4]]', 2, 'val'),
    ('[[[1]]]', 2, 'parse'), ('[[[1]]]', 3, 'val'), ('1+1', 0, 'val'), ('[1,2]*[3,4]', 0, 'parse'),
    ('2*[1,2]', None, 'val'), ('()', None, 'parse'), ('[]', None, 'parse'), ('f()', None, 'parse'),
    ('1 2', None, 'val'), ('1\t2', None, 'parse'), ('1 . 5', None, 'val'), ('1\t.5', None, 'parse'),
    ('2 k', None, 'val'), ('2\tk', None, 'val'), ('2kk', None, 'err'), ('2K', None, 'err'), ('2 %', None, 'val'),
    ('1;2', None, 'parse'), ('1=1', None, 'parse'), ('{1}', None, 'parse'), ('1_2', None, 'parse'), ('²', None, 'parse'),
    ('１', None, 'parse'), ('1,2', None, 'parse'), ('2**3', None, 'parse'), ('2//3', None, 'parse'), ('2|3', None, 'parse'),
    ('2|||3', None, 'parse'), ('2 | | 3', None, 'val'), ('!2', None, 'parse'), ('2!', None, 'parse'), ('"2"', None, 'parse'),
    ('2 3 4', None, 'val'), ('(2)(3)', None, 'parse'), ('2(3)', None, 'parse'), ('(2)3', None, 'parse'), ('x y', None, 'err'),
]


class FrontDoor(Family):
    name = 'front_door'
    rule = ('fixed table of %d front-door cases: empty/whitespace input -> nan, max_array_dim limits, juxtaposition, '
            'foreign characters, whitespace inside vs between tokens' % len(FRONT))

    def cases(self, tier):
        return iter(range(len(FRONT)))

    def describe(self, case):
        return {'string': FRONT[case][0], 'max_array_dim': FRONT[case][1], 'expected': FRONT[case][2]}

    def check(self, case):
        s, mad, exp = FRONT[case]
        try:
            val, _ = X.evaluator(s, {'x': 2.0, 'y': 3.0}, {'f': f_user}, SUFFIXES, max_array_dim=mad)
            got = 'val'
            if isinstance(val, float) and math.isnan(val):
                got = 'nan'
        except (CE.UnableToParse, CE.UnbalancedBrackets):
            got = 'parse'
        except CE.CalcError:
            got = 'err'
        except Exception as e:
            got = 'RAW:' + type(e).__name__
        if got != exp:
            return Result(got, True, viol('front:%s-instead-of-%s' % (got, exp),
                                          'evaluator(%r, max_array_dim=%r): expected %s, got %s' % (s, mad, exp, got),
                                          exp, got))
        return Result(got, True)


def families(tier):
    return [
        TokenStrings('E1', E1_TOKENS, {'quick': 5, 'thorough': 6}),
        TokenStrings('E3', E3_CHARS, {'quick': 5, 'thorough': 6}, extra_vars={'e': math.e},
                     note=' (number-literal characters; % and k are suffixes, e is also a constant)'),
        Chains(),
        Names(),
        Literals(),
        ArrayProducts(),
        FrontDoor(),
    ]
