"""
C14 -- array arithmetic follows strict linear-algebra shape rules and values.

ENUM: every operand pair of the stated shape lattice x the five operators x the call forms
(MathArray operator, reflected operator, in-place operator, formula string with array literals,
formula string with array-valued variables, MatrixGrader alone and inside list graders) is executed on the REAL library and
compared with a pure-Python nested-list reference (mcv/refs/c14_ref.py) written from the
statement and the "Allowed operations" tables of docs/grading_math/matrix_grader/matrix_grader.md.
"""
import itertools
import json
import operator
import warnings
from numbers import Number

import numpy as np

from ..core import Family, Result, viol
from ..refs import c14_ref as R

PROPERTY = 'C14'
RULE = ('operands are drawn from a lattice of 22 array shapes (vectors 2-4, every m x n matrix with m,n in 1..4 and '
        'mn>1, four 3-axis tensors) plus scalars; every ordered pair x {+,-,*,/,^} x call form is one case. '
        'Entries come from fixed small-integer / dyadic-float / complex fill patterns, squares in non-singular and '
        'singular variants. A case is non-trivial when the un-guarded numpy operator on the same operands would NOT '
        'give what the oracle requires (it broadcasts where an error is required, or returns an elementwise value '
        'where a matrix product / matrix power / inverse is required). Further families leave the lattice along one dimension '
        'each: shapes just beyond it, power-of-two scaled matrices, large exponents, integer dtype near the int64 limit, numpy-typed '
        'scalars, arrays that are function results, un-parenthesised formulas, the grader option left at its default and the '
        'MatrixGrader used as a subgrader of list graders.')
EXPLANATION = ('states = distinct (operator, call form, left operand, right operand) cases; transitions = executions of '
               'the real MathArray operator / evaluator / MatrixGrader; every execution runs the implementation itself')
ASSUMPTIONS = ['reference = nested-list linear algebra in mcv/refs/c14_ref.py (Leibniz determinant, adjugate inverse)',
               'values compared with relative tolerance 1e-9 (entries are small integers / dyadic floats)',
               'size-1 operands (treated as scalars by the library) are outside the statement\'s shape set; not used',
               'a product whose mathematical result has one entry may come back as a plain number',
               'vector * vector is the bilinear dot product (no conjugation), as in a row-times-column product',
               'division by the number zero, 0**negative and complex-typed integer exponents are left open',
               'exact exception subclass and wording are free; the error must be a StudentFacingError',
               'numpy scalars on the LEFT of a bare MathArray operator (np.float64(2) + MathArray: numpy\'s own dispatch, upstream '
               'issue 124) are not exercised; as right operands and as values of formula variables they are (numpy_typed_scalars)',
               'scaled / large-power families compare after an exact rescaling (power-of-two scale, division by the largest exact '
               'entry), so the tolerance there is relative to the magnitude of the entries',
               'arrays computed by library functions (trans, ctrans, adj, conj, re, im, cross) obey the same rules as variables',
               'un-parenthesised formulas follow the documented precedence: ^ (right-associative) > unary minus > * / > + -',
               'PENDING-FINDING (cases skipped until decided): integer-dtype MathArrays wrap around int64 silently in products, '
               'sums and powers (large_integer_powers, integer_dtype_magnitudes); MathArray.__pow__ refuses numpy integer and '
               'float32 exponents as "non-integer" (numpy_typed_scalars)']

# ----------------------------------------------------------------------------- operand universe

VECS = [(2,), (3,), (4,)]
MATS = [(m, n) for m in (1, 2, 3, 4) for n in (1, 2, 3, 4) if m * n > 1]
TENS = [(2, 2, 2), (2, 1, 2), (1, 2, 2), (2, 2, 1)]
ARR_SHAPES = VECS + MATS + TENS
SQUARES = [(2, 2), (3, 3), (4, 4)]

SEQ_A = [1, 2, -1, 3, 2, -2, 1, 4, -3, 2, 1, -1, 3, 1, 2, -2]
SEQ_B = [2, -1, 3, 1, -2, 1, 1, -3, 2, 2, -1, 1, 4, -2, 1, 3]

SCALARS = {
    '0': 0, '0.0': 0.0, '-0.0': -0.0, '0j': 0j,
    '1': 1, '2': 2, '-1': -1, '3': 3, '-2': -2, '-3': -3,
    '2.0': 2.0, '-1.0': -1.0, '3.0': 3.0, '-2.0': -2.0,
    '0.5': 0.5, '-0.5': -0.5, '2.5': 2.5, '-1.5': -1.5,
    '1+2j': 1 + 2j, '1+1j': 1 + 1j, '2j': 2j, '2+0j': 2 + 0j, '1e-09': 1e-09, '1e-09j': 1e-09j,
    # non-integers that are within rounding distance of an integer (e.g. (1-0.9)*10): still non-integer exponents
    '1.999999999999': 1.999999999999, '0.9999999999999998': 0.9999999999999998, '3.0000000000000004': 3.0000000000000004,
    '-1.0000000000001': -1.0000000000001, '1e-12': 1e-12,
    # non-zero numbers of very small magnitude are still non-zero
    '1e-13': 1e-13, '-3e-13': -3e-13, '5e-324': 5e-324, '2e-14j': 2e-14j, '5.551115123125783e-17': 0.1 + 0.2 - 0.3,
}


def _build(shape, flat):
    if len(shape) == 1:
        return list(flat[:shape[0]])
    step = 1
    for d in shape[1:]:
        step *= d
    return [_build(shape[1:], flat[i * step:(i + 1) * step]) for i in range(shape[0])]


def fill(shape, kind):
    """deterministic entries; squares of the regular kinds are non-singular, 'sg'/'csg' are singular"""
    shape = tuple(shape)
    n = 1
    for d in shape:
        n *= d
    base = {'ra': lambda t: SEQ_A[t % 16],
            'rb': lambda t: SEQ_B[t % 16],
            'rf': lambda t: SEQ_A[t % 16] + 0.5,
            'ca': lambda t: complex(SEQ_A[t % 16], SEQ_B[t % 16]),
            'cb': lambda t: complex(SEQ_B[t % 16], -SEQ_A[t % 16]),
            'sg': lambda t: SEQ_A[t % 16],
            'csg': lambda t: complex(SEQ_A[t % 16], SEQ_B[t % 16])}[kind]
    arr = _build(shape, [base(t) for t in range(n)])
    if len(shape) == 2 and shape[0] == shape[1]:
        if kind in ('sg', 'csg'):
            arr[-1] = [(2 * x) for x in arr[0]]
        else:
            for i in range(shape[0]):
                arr[i][i] = arr[i][i] + 2 * shape[0]
    return arr


for _s in SQUARES:
    for _k in ('ra', 'rb', 'rf', 'ca', 'cb'):
        assert abs(R.det(fill(_s, _k))) >= 1, ('fill must be non-singular', _s, _k)
    for _k in ('sg', 'csg'):
        assert R.det(fill(_s, _k)) == 0, ('fill must be singular', _s, _k)


def spec_arr(shape, kind):
    return 'a:%s:%s' % ('x'.join(str(d) for d in shape), kind)


def spec_sc(sid):
    return 's:' + sid


def decode(spec):
    """spec string -> plain value (number or nested list)"""
    parts = spec.split(':')
    if parts[0] == 's':
        return SCALARS[parts[1]]
    shape = tuple(int(d) for d in parts[1].split('x'))
    return fill(shape, parts[2])


def operand_class(x, zero_matters=False):
    if R.is_num(x):
        return 'zero' if (zero_matters and x == 0) else 'number'
    s = R.shape(x)
    if len(s) == 1:
        return 'vector'
    if len(s) == 2:
        if s[0] == s[1]:
            return 'singular-sqmatrix' if R.is_singular(x) else 'sqmatrix'
        return 'matrix'
    return 'tensor'


def exponent_class(k):
    if not R.is_num(k):
        return operand_class(k)
    if isinstance(k, complex):
        return 'complex'
    if isinstance(k, float) and k != int(k):
        return 'nonint'
    tag = 'int' if isinstance(k, int) else 'intfloat'
    return ('neg' if k < 0 else ('zero' if k == 0 else 'pos')) + tag


def site_of(op, a, b):
    if op == '^':
        return '^:%s,%s' % (operand_class(a), exponent_class(b))
    zm = op in '+-'
    return '%s:%s,%s' % (op, operand_class(a, zm), operand_class(b, zm))


# ----------------------------------------------------------------------------- formula rendering

def num_lit(z):
    if isinstance(z, complex):
        re, im = z.real, z.imag
        re_s = repr(int(re)) if re == int(re) else repr(re)
        im_s = repr(int(abs(im))) if im == int(im) else repr(abs(im))
        return '(%s%s%s*i)' % (re_s, '-' if (im < 0 or str(im).startswith('-')) else '+', im_s)
    if isinstance(z, float):
        s = repr(z)
        return '(%s)' % s if s.startswith('-') else s
    return '(%d)' % z if z < 0 else '%d' % z


def lit(x):
    if R.is_num(x):
        return num_lit(x)
    return '[' + ','.join(lit(y) for y in x) + ']'


# ----------------------------------------------------------------------------- running the real code

PYOP = {'+': operator.add, '-': operator.sub, '*': operator.mul, '/': operator.truediv, '^': operator.pow}
PYIOP = {'+': operator.iadd, '-': operator.isub, '*': operator.imul, '/': operator.itruediv, '^': operator.ipow}


class Lib(object):
    """lazy handles on the library (imported after bind_repo)"""
    ready = False

    @classmethod
    def load(cls):
        if cls.ready:
            return
        from mitxgraders.helpers.calc.math_array import MathArray
        from mitxgraders.helpers.calc.expressions import evaluator
        from mitxgraders.exceptions import StudentFacingError
        from mitxgraders import MatrixGrader
        cls.MathArray = MathArray
        cls.evaluator = staticmethod(evaluator)
        cls.StudentFacingError = StudentFacingError
        cls.MatrixGrader = MatrixGrader
        from .. import libstate
        cls._libstate = libstate
        cls._switches = libstate.class_scalars([MathArray])      # pristine class-level switches of MathArray
        cls.ready = True

    @classmethod
    def restore_switches(cls):
        cls._libstate.restore_class_scalars(cls._switches, [cls.MathArray])


def to_lib(x):
    return x if R.is_num(x) else Lib.MathArray(x)


def attempt(fn):
    with warnings.catch_warnings():
        warnings.simplefilter('ignore')
        try:
            return ('val', fn())
        except Exception as e:      # noqa -- judged below
            return ('err', e)


def expected_of(thunk):
    try:
        return ('val', thunk())
    except R.RefError as e:
        return ('err', str(e))
    except R.RefOpen as e:
        return ('open', str(e))


def obs_summary(x):
    if isinstance(x, np.ndarray):
        return {'type': type(x).__name__, 'shape': list(x.shape), 'value': x.tolist()}
    return {'type': type(x).__name__, 'value': x}


def value_kind(x):
    if isinstance(x, np.ndarray):
        return {0: 'number0d', 1: 'vector', 2: 'matrix'}.get(x.ndim, 'tensor')
    return 'number'


SINGULAR_WHY = 'negative power of a singular matrix'


def judge(exp, got, site, nontrivial, calls=1):
    """exp = ('val', v)|('err', why)|('open', why); got = ('val', x)|('err', exc).  Returns Result."""
    Lib.load()
    if exp[0] == 'open':
        return Result('open:' + got[0], False, None, calls)
    if got[0] == 'err':
        e = got[1]
        name = type(e).__name__
        if exp[0] == 'val':
            return Result('refused', nontrivial,
                          viol('legal-op-refused:' + site, 'a legal operation raised %s: %s' % (name, e),
                               exp[1], '%s: %s' % (name, e)), calls)
        if not isinstance(e, Lib.StudentFacingError):
            return Result('raw-error', nontrivial,
                          viol('error-not-student-facing:' + site,
                               'illegal operation (%s) raised %s, not a student-facing error: %s' % (exp[1], name, e),
                               'StudentFacingError', '%s: %s' % (name, e)), calls)
        return Result('error:' + name, nontrivial, None, calls)
    x = got[1]
    if exp[0] == 'err':
        if exp[1] == SINGULAR_WHY and isinstance(x, np.ndarray) and x.size and np.max(np.abs(x)) > 1e10:
            # the tell-tale of a rounded (not exactly zero) pivot: "inverse" entries of order 1/epsilon
            site += ':huge-entries'
        return Result('value-for-illegal', nontrivial,
                      viol('returned-value-for-illegal:' + site,
                           'the statement requires an error (%s) but a value came back' % exp[1],
                           'a student-facing error', obs_summary(x)), calls)
    want = exp[1]
    if R.is_num(want) or (R.size(want) == 1 and not isinstance(x, np.ndarray)):
        target = want if R.is_num(want) else R.flat(want)[0]
        if isinstance(x, np.ndarray) and x.ndim == 0:
            x = x.item()
        if isinstance(x, bool) or not isinstance(x, Number):
            return Result('wrong-shape', nontrivial,
                          viol('wrong-shape:' + site, 'expected a number', target, obs_summary(x)), calls)
        if not R.close(target, complex(x)):
            return Result('wrong-value', nontrivial,
                          viol('wrong-value:' + site, 'number differs from the reference', target, obs_summary(x)),
                          calls)
        return Result('value:number', nontrivial, None, calls)
    if not isinstance(x, np.ndarray) or tuple(x.shape) != R.shape(want):
        return Result('wrong-shape', nontrivial,
                      viol('wrong-shape:' + site, 'expected an array of shape %r' % (R.shape(want),),
                           {'shape': list(R.shape(want)), 'value': want}, obs_summary(x)), calls)
    if not isinstance(x, Lib.MathArray):
        return Result('not-matharray', nontrivial,
                      viol('result-not-MathArray:' + site, 'array result is a plain %s (later operators would broadcast)'
                           % type(x).__name__, 'MathArray', obs_summary(x)), calls)
    if not R.same_value(want, x.tolist()):
        return Result('wrong-value', nontrivial,
                      viol('wrong-value:' + site, 'array entries differ from the reference', want, obs_summary(x)),
                      calls)
    return Result('value:' + value_kind(x), nontrivial, None, calls)


def numpy_would_agree(op, a, b, exp):
    """True when the plain (un-guarded) numpy operator already gives what the oracle requires."""
    if exp[0] != 'val':
        got = attempt(lambda: PYOP[op](np.asarray(a) if not R.is_num(a) else a,
                                       np.asarray(b) if not R.is_num(b) else b))
        return got[0] == 'err'
    got = attempt(lambda: PYOP[op](np.asarray(a) if not R.is_num(a) else a,
                                   np.asarray(b) if not R.is_num(b) else b))
    if got[0] == 'err':
        return False
    x = got[1]
    want = exp[1]
    if R.is_num(want):
        return not isinstance(x, np.ndarray) and R.close(want, complex(x))
    return isinstance(x, np.ndarray) and tuple(x.shape) == R.shape(want) and R.same_value(want, x.tolist())


def execute_binop(form, op, a, b):
    """run the real library on plain operands a, b in the given call form"""
    Lib.load()
    if form == 'op':
        la, lb = to_lib(a), to_lib(b)
        return attempt(lambda: PYOP[op](la, lb))
    if form == 'iop':
        la, lb = to_lib(a), to_lib(b)
        return attempt(lambda: PYIOP[op](la, lb))
    if form == 'refl':      # the reflected special method called explicitly (number on the left)
        name = {'+': '__radd__', '-': '__rsub__', '*': '__rmul__', '/': '__rtruediv__', '^': '__rpow__'}[op]
        lb = to_lib(b)
        return attempt(lambda: getattr(lb, name)(a))
    if form == 'lit':
        text = '%s%s%s' % (lit(a), op, lit(b))
        return attempt(lambda: Lib.evaluator(text, {'i': 1j}, {}, {})[0])
    if form == 'var':
        text = 'a%sb' % op
        return attempt(lambda: Lib.evaluator(text, {'a': to_lib(a), 'b': to_lib(b)}, {}, {})[0])
    raise ValueError(form)


class BinopFamily(Family):
    """cases are (op, form, left spec, right spec[, 'off'])"""
    timeout = 20.0

    def setup(self, tier):
        Lib.load()

    def describe(self, case):
        op, form, ls, rs = case[:4]
        a, b = decode(ls), decode(rs)
        return {'op': op, 'form': form, 'left': a, 'right': b, 'formula': '%s%s%s' % (lit(a), op, lit(b)),
                'negative_powers': not (len(case) > 4 and case[4] == 'off')}

    def check(self, case):
        op, form, ls, rs = case[:4]
        negpow = not (len(case) > 4 and case[4] == 'off')
        a, b = decode(ls), decode(rs)
        exp = expected_of(lambda: R.binop(op, a, b, negpow))
        if negpow:
            got = execute_binop(form, op, a, b)
        else:
            with Lib.MathArray.enable_negative_powers(False):
                got = execute_binop(form, op, a, b)
        res = judge(exp, got, site_of(op, a, b) + ('' if negpow else ':disabled'),
                    not numpy_would_agree(op, a, b, exp))
        if not negpow and res.violation is None:
            leak = check_restored()
            if leak is not None:
                res.violation = leak
        return res


def check_restored():
    """after a disabled episode, a plain negative power must work again"""
    Lib.load()
    got = attempt(lambda: Lib.MathArray([[2, 0], [0, 4]]) ** -1)
    Lib.restore_switches()                      # harness hygiene: never let a leak poison later cases
    if got[0] == 'err' or not R.same_value([[0.5, 0], [0, 0.25]], got[1].tolist()):
        return viol('negative-powers-stay-disabled', 'after the disabling episode ended, A**-1 is still refused',
                    [[0.5, 0], [0, 0.25]], repr(got[1]))
    return None


OPS5 = ['+', '-', '*', '/', '^']


class ArrArr(BinopFamily):
    def __init__(self, name, plan_by_tier, what):
        self.name = name
        self.plan_by_tier = plan_by_tier
        self.rule = ('every ordered pair of the 22 array shapes x {+,-,*,/,^} x (call form, fill pairs) of the plan %s '
                     '(ra/rb = real integers, rf = dyadic floats, ca/cb = complex); %s; non-trivial = plain numpy would '
                     'not give the required outcome' % (plan_by_tier, what))

    def cases(self, tier):
        for op in OPS5:
            for form, pairs in self.plan_by_tier[tier]:
                for sa in ARR_SHAPES:
                    for sb in ARR_SHAPES:
                        for ka, kb in pairs:
                            yield (op, form, spec_arr(sa, ka), spec_arr(sb, kb))


SC_ADD = ['0', '0.0', '-0.0', '0j', '2', '-1.5', '1+2j', '0.5', '1e-09', '1e-09j', '1e-13', '-3e-13', '5e-324', '2e-14j',
          '5.551115123125783e-17']
SC_MUL = ['0', '1', '2', '-1.5', '1+2j', '0.5']
SC_DIV = ['0', '1', '2', '-1.5', '1+2j', '0.5']      # 0 / array is an error like any number / array; array / 0 is left open
SC_BASE = ['0', '1', '2', '-1.5', '1+2j']


class ScalarArr(BinopFamily):
    def __init__(self, name, plan_by_tier):
        self.name = name
        self.plan_by_tier = plan_by_tier
        forms = plan_by_tier
        self.rule = ('scalar (int/float/complex Python numbers incl. 0, 0.0, -0.0, 0j and non-zero) on either side of '
                     'every array shape x {+,-,*,/} plus scalar^array; call forms %s (refl = the reflected special '
                     'method called explicitly, iop only with the array on the left); zero scalar must leave the '
                     'array unchanged, non-zero must be refused for +,-' % (forms,))

    def cases(self, tier):
        for op, scs in (('+', SC_ADD), ('-', SC_ADD), ('*', SC_MUL), ('/', SC_DIV), ('^', SC_BASE)):
            for form, kinds in self.plan_by_tier[tier]:
                for sh in ARR_SHAPES:
                    for kind in kinds:
                        for sid in scs:
                            if op != '^' and form != 'refl':
                                yield (op, form, spec_arr(sh, kind), spec_sc(sid))
                            if form != 'iop':
                                yield (op, form, spec_sc(sid), spec_arr(sh, kind))


EXPONENTS = ['0', '1', '2', '3', '-1', '-2', '-3', '2.0', '3.0', '-1.0', '-2.0', '0.0', '-0.0',
             '0.5', '-0.5', '2.5', '-1.5', '1+1j', '2j', '2+0j',
             '1.999999999999', '0.9999999999999998', '3.0000000000000004', '-1.0000000000001', '1e-12']


class Powers(BinopFamily):
    def __init__(self, name, plan_by_tier):
        self.name = name
        self.plan_by_tier = plan_by_tier
        forms = plan_by_tier
        self.rule = ('every array shape (squares also in singular variants) ^ every exponent of %s, with negative powers '
                     'enabled and disabled (MathArray.enable_negative_powers(False)); call forms %s; after a disabled '
                     'episode a plain A**-1 must work again' % (EXPONENTS, forms))

    def cases(self, tier):
        for form, kinds in self.plan_by_tier[tier]:
            for sh in ARR_SHAPES:
                ks = list(kinds)
                if sh in SQUARES:
                    ks += ['sg'] if ks == ['ra'] else ['sg', 'csg']
                for kind in ks:
                    for ex in EXPONENTS:
                        yield ('^', form, spec_arr(sh, kind), spec_sc(ex))
                        yield ('^', form, spec_arr(sh, kind), spec_sc(ex), 'off')


# ----------------------------------------------------------------------------- formula syntax for powers

class PowerSyntax(Family):
    name = 'power_formula_syntax'
    timeout = 20.0
    rule = ('formula strings "<base>^<exponent text>" for bases {vector, 2x3, 2x2 real/complex/singular, 3x3, the numbers 2 and -1.5} given as '
            'literal and as variable, exponent texts incl. the bare-minus syntax (^-1, ^-2, ^-0.5, ^2^1, ^-1^3, '
            '^(1+i), ^[1,2], ^(0*2)); oracle parses the exponent text by the documented right-associative rule')
    TEXTS = [('-1', -1.0), ('-2', -2.0), ('(-1)', -1.0), ('-0.5', -0.5), ('0.5', 0.5), ('2', 2.0),
             ('0', 0.0), ('2^1', 2.0), ('-1^3', -1.0), ('-2^0', -1.0), ('(1+i)', 1 + 1j), ('[1,2]', [1.0, 2.0]),
             ('(0*2)', 0.0), ('3', 3.0), ('-3', -3.0), ('(1/2)', 0.5), ('(4/2)', 2.0), ('(-4/2)', -2.0), ('1.5', 1.5),
             ('((1-0.9)*10)', (1 - 0.9) * 10), ('(0.3/0.1)', 0.3 / 0.1), ('1.999999999999', 1.999999999999)]
    # exponents written as ONE-ELEMENT arrays: the library may refuse them as array exponents or read them as the number they
    # hold (both accepted) -- but whichever it does, a disabled negative power must stay refused
    ONE_ELEMENT = [('[-1]', -1.0), ('-[1]', -1.0), ('(-[2])', -2.0), ('[[-1]]', -1.0), ('[2]', 2.0), ('[-0.5]', -0.5)]
    TEXTS = TEXTS + [(t, ('one-element', v)) for t, v in ONE_ELEMENT]
    BASES = [spec_arr((2,), 'ra'), spec_arr((2, 3), 'ra'), spec_arr((2, 2), 'ra'), spec_arr((2, 2), 'ca'),
             spec_arr((2, 2), 'sg'), spec_arr((3, 3), 'rb'), spec_arr((3, 3), 'sg'), spec_arr((2, 2, 2), 'ra'),
             spec_arr((1, 2), 'ra'), spec_arr((4, 4), 'rf'),
             # scalar bases: a disabled negative MATRIX power must not refuse negative powers of numbers
             spec_sc('2'), spec_sc('-1.5')]

    def setup(self, tier):
        Lib.load()

    def cases(self, tier):
        for b in self.BASES:
            for mode in ('lit', 'var'):
                for flag in ('on', 'off'):
                    for i in range(len(self.TEXTS)):
                        yield (b, mode, flag, i)

    def describe(self, case):
        b, mode, flag, i = case
        return {'formula': '%s^%s' % (lit(decode(b)) if mode == 'lit' else 'A', self.TEXTS[i][0]),
                'negative_powers': flag}

    def check(self, case):
        b, mode, flag, i = case
        a = decode(b)
        text, k = self.TEXTS[i]
        negpow = flag == 'on'
        one_element = isinstance(k, tuple)
        if one_element:
            k = k[1]
        exp = expected_of(lambda: R.power(a, k, negpow))
        formula = '%s^%s' % (lit(a) if mode == 'lit' else 'A', text)
        variables = {'i': 1j, 'A': to_lib(a)}
        if negpow:
            got = attempt(lambda: Lib.evaluator(formula, variables, {}, {})[0])
        else:
            with Lib.MathArray.enable_negative_powers(False):
                got = attempt(lambda: Lib.evaluator(formula, variables, {}, {})[0])
        res = judge(exp, got, site_of('^', a, k) + (':one-element-exponent' if one_element else '') + ('' if negpow else ':disabled'), True)
        if one_element and res.violation is not None:
            # read as an array exponent it is refused
            alt = judge(expected_of(lambda: R.power(a, [k], negpow)), got, site_of('^', a, k), True)
            if alt.violation is None:
                res = alt
        if not negpow and res.violation is None:
            res.violation = check_restored()
        return res


# ----------------------------------------------------------------------------- exhaustive small integer matrices

class InverseSweep(Family):
    timeout = 20.0

    def __init__(self, name, n, palette, exps, tiers):
        self.name = name
        self.n = n
        self.palette = palette
        self.exps = exps
        self.tiers = tiers
        self.rule = ('EVERY %dx%d matrix over the palette %s raised to %s: exact determinant 0 => must be refused, '
                     'otherwise the value must equal the exact adjugate/determinant inverse (power); every case is '
                     'non-trivial (numpy\'s elementwise power never refuses by singularity and never equals the inverse)'
                     % (n, n, palette, exps))

    def setup(self, tier):
        Lib.load()

    def cases(self, tier):
        if tier not in self.tiers:
            return
        for idx in range(len(self.palette) ** (self.n * self.n)):
            for k in self.exps:
                yield (idx, k)

    def matrix(self, idx):
        vals = []
        b = len(self.palette)
        for _ in range(self.n * self.n):
            idx, d = divmod(idx, b)
            v = self.palette[d]
            vals.append(complex(*v) if isinstance(v, (list, tuple)) else v)
        return _build((self.n, self.n), vals)

    def describe(self, case):
        return {'matrix': self.matrix(case[0]), 'exponent': case[1]}

    def check(self, case):
        idx, k = case
        m = self.matrix(idx)
        exp = expected_of(lambda: R.power(m, k))
        la = Lib.MathArray(m)
        got = attempt(lambda: la ** k)
        return judge(exp, got, site_of('^', m, k), True)


# ----------------------------------------------------------------------------- chained products

CHAIN_ALPHABET = {
    's': 2, 't': -0.5,
    'v': [1, 2], 'w': [2, -1], 'u': [1, -1, 2],
    'M': [[1, 2], [3, 5]], 'N': [[2, -1, 1], [1, 3, -2]], 'C': [[1 + 1j, 2], [1, 1 - 1j]],
}


class Chains(Family):
    timeout = 20.0

    def __init__(self, name, letters_by_tier, maxlen_by_tier):
        self.name = name
        self.letters_by_tier = letters_by_tier
        self.maxlen_by_tier = maxlen_by_tier      # tier -> {mode: maximal chain length}
        self.rule = ('every flat chain f0 o f1 o ... of 2..L factors over the alphabet %s with o in {*, /}, as a formula '
                     'with literals and with variables; oracle: three or more vector factors => refused, otherwise '
                     'left-to-right reference evaluation; plus the parenthesised forms (x*y)*z and x*(y*z) of every '
                     'triple, which are never ambiguous; non-trivial = chain containing >=2 arrays'
                     % (sorted(CHAIN_ALPHABET),))

    def setup(self, tier):
        Lib.load()

    def cases(self, tier):
        letters = self.letters_by_tier[tier]
        maxlen = self.maxlen_by_tier[tier]
        for n in range(2, max(maxlen.values()) + 1):
            for fs in itertools.product(letters, repeat=n):
                for ops in itertools.product('*/', repeat=n - 1):
                    for mode in ('var', 'lit'):
                        if n <= maxlen[mode]:
                            yield (''.join(fs), ''.join(ops), mode, 'flat')
        for fs in itertools.product(letters, repeat=3):
            for mode in ('var', 'lit'):
                yield (''.join(fs), '**', mode, 'left')
                yield (''.join(fs), '**', mode, 'right')

    def text(self, case):
        fs, ops, mode, paren = case
        # variable mode binds the fixed names p, q, r, s to the factors (one parse per operator pattern)
        names = ['pqrs'[k] if mode == 'var' else lit(CHAIN_ALPHABET[f]) for k, f in enumerate(fs)]
        if paren == 'left':
            return '(%s*%s)*%s' % tuple(names)
        if paren == 'right':
            return '%s*(%s*%s)' % tuple(names)
        out = names[0]
        for o, nme in zip(ops, names[1:]):
            out += o + nme
        return out

    def describe(self, case):
        return {'formula': self.text(case), 'values': [CHAIN_ALPHABET[f] for f in case[0]]}

    def check(self, case):
        fs, ops, mode, paren = case
        vals = [CHAIN_ALPHABET[f] for f in fs]
        if paren == 'left':
            exp = expected_of(lambda: R.mul(R.mul(vals[0], vals[1]), vals[2]))
        elif paren == 'right':
            exp = expected_of(lambda: R.mul(vals[0], R.mul(vals[1], vals[2])))
        else:
            exp = expected_of(lambda: R.chain(vals, list(ops)))
        variables = {'i': 1j}
        variables.update({'pqrs'[k]: to_lib(v) for k, v in enumerate(vals)})
        text = self.text(case)
        got = attempt(lambda: Lib.evaluator(text, variables, {}, {})[0])
        nvec = sum(1 for v in vals if len(R.shape(v)) == 1)
        narr = sum(1 for v in vals if not R.is_num(v))
        site = 'chain:%s:%dvec' % (paren, min(nvec, 3))
        return judge(exp, got, site, narr >= 2)


# ----------------------------------------------------------------------------- depth-2 expressions

EXPR_ALPHABET = {
    'z': 0, 's': 2, 't': -0.5,
    'v': [1, 2], 'w': [2, -1], 'u': [1, -1, 2],
    'M': [[1, 2], [3, 5]], 'S': [[1, 2], [2, 4]], 'N': [[2, -1, 1], [1, 3, -2]], 'K': [[1, 0, 2], [0, 1, 1], [1, 1, 0]],
    'T': [[[1, 2], [3, 4]], [[0, 1], [1, 0]]],
}


class Depth2(Family):
    timeout = 20.0

    def __init__(self, name, letters_by_tier):
        self.name = name
        self.letters_by_tier = letters_by_tier
        self.rule = ('every fully parenthesised expression (x o1 y) o2 z and x o1 (y o2 z) with x,y,z over the alphabet '
                     '%s (z=0, v.w=0 so computed zero scalars occur; S singular) and o1,o2 in {+,-,*,/,^}, evaluated as a '
                     'formula with variables; oracle = the reference applied recursively (an inner refusal refuses the '
                     'whole); non-trivial = at least two array operands' % (sorted(EXPR_ALPHABET),))

    def setup(self, tier):
        Lib.load()

    def cases(self, tier):
        letters = self.letters_by_tier[tier]
        for side in ('L', 'R'):
            for o1 in OPS5:
                for o2 in OPS5:
                    for xyz in itertools.product(letters, repeat=3):
                        yield (side, o1, o2, ''.join(xyz))

    def text(self, case):
        side, o1, o2, xyz = case
        if side == 'L':
            return '(a%sb)%sc' % (o1, o2)
        return 'a%s(b%sc)' % (o1, o2)

    def describe(self, case):
        return {'formula': self.text(case), 'values': dict(zip('abc', [EXPR_ALPHABET[f] for f in case[3]]))}

    def check(self, case):
        side, o1, o2, xyz = case
        x, y, z = [EXPR_ALPHABET[f] for f in xyz]
        if side == 'L':
            exp = expected_of(lambda: R.binop(o2, R.binop(o1, x, y), z))
        else:
            exp = expected_of(lambda: R.binop(o1, x, R.binop(o2, y, z)))
        variables = {'a': to_lib(x), 'b': to_lib(y), 'c': to_lib(z)}
        text = self.text(case)
        got = attempt(lambda: Lib.evaluator(text, variables, {}, {})[0])
        narr = sum(1 for v in (x, y, z) if not R.is_num(v))
        # the site is the failing top-level or inner operator class: derive it from the reference
        site = 'expr:' + self.site(side, o1, o2, x, y, z)
        return judge(exp, got, site, narr >= 2)

    @staticmethod
    def site(side, o1, o2, x, y, z):
        try:
            if side == 'L':
                inner = R.binop(o1, x, y)
                return site_of(o2, inner, z)
            inner = R.binop(o2, y, z)
            return site_of(o1, x, inner)
        except R.RefError:
            return site_of(o1, x, y) if side == 'L' else site_of(o2, y, z)
        except R.RefOpen:
            return 'open'


# ----------------------------------------------------------------------------- array literals (eval_array)

def literal_trees(depth, maxkids):
    """all nested-list structures of the given maximal depth; leaves are the marker None"""
    if depth == 0:
        return [None]
    sub = literal_trees(depth - 1, maxkids)
    out = [None]
    for n in range(1, maxkids + 1):
        for kids in itertools.product(sub, repeat=n):
            out.append(list(kids))
    return out


def tree_shape(t):
    """shape tuple if rectangular, else None"""
    if t is None:
        return ()
    shapes = [tree_shape(k) for k in t]
    if any(s is None for s in shapes) or any(s != shapes[0] for s in shapes):
        return None
    return (len(t),) + shapes[0]


def number_leaves(t, counter):
    if t is None:
        counter[0] += 1
        v = SEQ_A[counter[0] % 16]
        return complex(v, 1) if counter[1] and counter[0] % 3 == 0 else v
    return [number_leaves(k, counter) for k in t]


class Literals(Family):
    timeout = 20.0

    def __init__(self, name, bounds_by_tier):
        self.name = name
        self.bounds_by_tier = bounds_by_tier
        self.rule = ('every bracket structure up to the bounds (depth, max children[, slim = real leaves, alone only]) %s, leaves numbered with distinct small '
                     'integers (and a variant with complex leaves), given to the evaluator as an array literal alone and as '
                     '"<literal>+<literal>": rectangular => MathArray of exactly the nested shape and entries; ragged => '
                     'student-facing error; non-trivial = ragged, or dimension >= 2' % (bounds_by_tier,))

    def setup(self, tier):
        Lib.load()

    def trees(self, tier):
        out = []
        seen = set()
        for bound in self.bounds_by_tier[tier]:
            depth, kids = bound[:2]
            slim = len(bound) > 2
            for t in literal_trees(depth, kids):
                key = repr(t)
                if t is not None and key not in seen:
                    seen.add(key)
                    out.append((t, slim))
        return out

    def cases(self, tier):
        for t, slim in self.trees(tier):
            skel = repr(t).replace('None', '.').replace(' ', '')
            if slim:        # the deepest bound: real leaves, literal alone
                yield (skel, 0, 'alone')
                continue
            for cplx in (0, 1):
                for use in ('alone', 'sum'):
                    yield (skel, cplx, use)

    @staticmethod
    def parse(skel):
        return json.loads(skel.replace('.', 'null'))

    def describe(self, case):
        skel, cplx, use = case
        val = number_leaves(self.parse(skel), [0, cplx])
        return {'formula': lit(val) if use == 'alone' else '%s+%s' % (lit(val), lit(val))}

    def check(self, case):
        skel, cplx, use = case
        t = self.parse(skel)
        val = number_leaves(t, [0, cplx])
        shp = tree_shape(t)
        if shp is None:
            exp = ('err', 'ragged array literal')
        elif use == 'alone':
            exp = ('val', val)
        else:
            exp = ('val', R.emap(lambda q: q + q, val))
        text = lit(val) if use == 'alone' else '%s+%s' % (lit(val), lit(val))
        got = attempt(lambda: Lib.evaluator(text, {'i': 1j}, {}, {})[0])
        if shp is not None and R.size(val) == 1:
            # size-1 arrays are outside the statement's shape set: only the literal itself is judged, strictly
            if use == 'sum':
                return Result('open:size1', False, None)
            if got[0] == 'val' and not isinstance(got[1], np.ndarray):
                return Result('wrong-shape', True, viol('wrong-shape:literal', 'size-1 literal did not give an array',
                                                        val, obs_summary(got[1])))
        site = 'literal:' + ('ragged' if shp is None else 'dim%d' % len(shp))
        return judge(exp, got, site, shp is None or len(shp) >= 2)


# ----------------------------------------------------------------------------- MatrixGrader

class GraderNegPow(Family):
    name = 'matrixgrader_negative_powers'
    timeout = 30.0
    GBASES = [spec_arr((2, 2), 'ra'), spec_arr((2, 2), 'ca'), spec_arr((2, 2), 'sg'), spec_arr((3, 3), 'rb'),
              spec_arr((2, 3), 'ra'), spec_arr((3,), 'ra')]
    GTEXTS = [('-1', -1.0), ('-2', -2.0), ('(-1)', -1.0), ('-1.0', -1.0), ('0', 0.0), ('1', 1.0), ('2', 2.0),
              ('0.5', 0.5), ('-0.5', -0.5)]
    rule = ('MatrixGrader(negative_powers=on/off/left at its default, suppress_matrix_messages=on/off, user_constants A) graded on the student '
            'input "A^k" / "<literal>^k" / "A*A^k" for bases %s and exponent texts %s; a recording comparer (the documented '
            'comparer extension point) exposes the evaluated student value: legal => graded correct with the reference '
            'value; illegal or disabled negative power => StudentFacingError (or, when messages are suppressed, zero '
            'credit); afterwards a plain A**-1 must work again. Also the pair (disabled grader, enabled grader) in both orders.'
            % (GBASES, [t for t, _ in GTEXTS]))

    def setup(self, tier):
        Lib.load()

    def cases(self, tier):
        for b in self.GBASES:
            for flag in ('on', 'off'):
                for sup in (0, 1):
                    for shape_in in ('A^', 'lit^', 'A*A^'):
                        for i in range(len(self.GTEXTS)):
                            yield (b, flag, sup, shape_in, i)
                            yield (b, flag, sup, shape_in, i, 'dependent-sampler')
        for b in self.GBASES:       # the option left at its default (documented: negative powers enabled)
            for i in range(len(self.GTEXTS)):
                yield (b, 'default', 0, 'A^', i)

    def formula(self, case):
        b, flag, sup, shape_in, i = case[:5]
        text = self.GTEXTS[i][0]
        if shape_in == 'lit^':
            return '%s^%s' % (lit(decode(b)), text)
        return shape_in + text

    def describe(self, case):
        return {'student_input': self.formula(case), 'A': decode(case[0]), 'negative_powers': case[1],
                'suppress_matrix_messages': bool(case[2]),
                'other variables': ('t, u with u = DependentSampler(t^2)'
                                    if len(case) > 5 else 'none')}

    def check(self, case):
        b, flag, sup, shape_in, i = case[:5]
        extra = {}
        if len(case) > 5:
            # variables the student does not use, one of them computed by the author from others
            from mitxgraders import DependentSampler
            extra = dict(variables=['t', 'u'], sample_from={'u': DependentSampler(formula='t^2')})
        a = decode(b)
        k = self.GTEXTS[i][1]
        negpow = flag in ('on', 'default')
        if flag != 'default':
            extra['negative_powers'] = negpow
        if shape_in == 'A*A^':
            exp = expected_of(lambda: R.mul(a, R.power(a, k, negpow)))
        else:
            exp = expected_of(lambda: R.power(a, k, negpow))
        seen = []

        def recorder(comparer_params_eval, student_eval, utils):
            seen.append(student_eval)
            return True

        grader = Lib.MatrixGrader(answers={'comparer': recorder, 'comparer_params': ['1']},
                                  user_constants={'A': to_lib(a)},
                                  suppress_matrix_messages=bool(sup), max_array_dim=3, samples=1, **extra)
        text = self.formula(case)
        got = attempt(lambda: grader(None, text))
        site = 'grader:' + site_of('^', a, k) + ('' if negpow else ':disabled')
        calls = 2
        # the companion grader with the opposite setting, called right afterwards, must not be affected
        other = Lib.MatrixGrader(answers={'comparer': recorder, 'comparer_params': ['1']},
                                 user_constants={'B': Lib.MathArray([[2, 0], [0, 4]])}, negative_powers=not negpow,
                                 max_array_dim=2, samples=1)
        mark = len(seen)
        got2 = attempt(lambda: other(None, 'B^-1'))
        leak = None
        if negpow:       # companion is disabled: must refuse
            if got2[0] == 'val':
                leak = viol('grader:negative-power-accepted-while-disabled',
                            'a grader with negative_powers=False graded B^-1', 'StudentFacingError', got2[1])
        else:            # companion is enabled: must evaluate to the inverse
            if got2[0] == 'err' or len(seen) == mark or not R.same_value([[0.5, 0], [0, 0.25]], seen[-1].tolist()):
                leak = viol('grader:negative-powers-stay-disabled',
                            'a grader with negative_powers=True refused B^-1 right after a disabling grader ran',
                            [[0.5, 0], [0, 0.25]], repr(got2[1]))
        seen2 = seen[:mark]
        restored = check_restored()

        if exp[0] == 'open':
            return Result('open', False, None, calls)
        if got[0] == 'err':
            res = judge(exp, got, site, True, calls)
        else:
            out = got[1]
            if exp[0] == 'err':
                refused = (sup and isinstance(out, dict) and out.get('ok') is False and out.get('grade_decimal') == 0
                           and not seen2)
                if refused:
                    res = Result('suppressed-zero-credit', True, None, calls)
                else:
                    res = Result('value-for-illegal', True,
                                 viol('returned-value-for-illegal:' + site,
                                      'the grader graded an input the statement requires to be refused (%s)' % exp[1],
                                      'StudentFacingError' + (' or zero credit' if sup else ''),
                                      {'result': out, 'evaluated': [obs_summary(s) for s in seen2]}), calls)
            elif not (isinstance(out, dict) and out.get('ok') is True and len(seen2) == 1):
                res = Result('refused', True,
                             viol('legal-op-refused:' + site, 'legal input was not graded correct by the always-true '
                                  'recording comparer', exp[1], {'result': out, 'n_evaluated': len(seen2)}), calls)
            else:
                res = judge(exp, ('val', seen2[0]), site, True, calls)
                if res.violation is None:
                    res.outcome = 'graded:' + res.outcome
        if res.violation is None and leak is not None:
            res.violation = leak
        if res.violation is None and restored is not None:
            res.violation = restored
        return res


# ----------------------------------------------------------------------------- MatrixGrader reached through list graders

class NestedGraderNegPow(Family):
    name = 'matrixgrader_nested_negative_powers'
    timeout = 30.0
    NBASES = [spec_arr((2, 2), 'ra'), spec_arr((2, 2), 'sg'), spec_arr((2, 3), 'ra')]
    NTEXTS = [('-1', -1.0), ('-2', -2.0), ('-1.0', -1.0), ('2', 2.0), ('0.5', 0.5)]
    WRAPPERS = ['list-ordered-mixed', 'list-unordered', 'single-list']
    rule = ('the MatrixGrader(negative_powers=on/off) is not called directly but is the subgrader of an ordered ListGrader '
            '(next to a second MatrixGrader with the OPPOSITE setting), of an unordered ListGrader, or of a SingleListGrader; the '
            'student enters "A^k" (bases %s, k in %s) in the first or in the second position next to the harmless "A+A". '
            'Disabled or illegal power => the whole call raises a StudentFacingError; otherwise the recording comparer must have '
            'seen the reference value. Afterwards a plain A**-1 must work again' % (NBASES, [t for t, _ in NTEXTS]))

    def setup(self, tier):
        Lib.load()

    def cases(self, tier):
        for b in self.NBASES:
            for flag in ('on', 'off'):
                for w in self.WRAPPERS:
                    for i in range(len(self.NTEXTS)):
                        for pos in (0, 1):
                            yield (b, flag, w, i, pos)

    def describe(self, case):
        b, flag, w, i, pos = case
        inputs = ['A+A', 'A+A']
        inputs[pos] = 'A^' + self.NTEXTS[i][0]
        return {'A': decode(b), 'negative_powers': flag, 'wrapper': w, 'student_inputs': inputs}

    def check(self, case):
        from mitxgraders import ListGrader, SingleListGrader
        b, flag, w, i, pos = case
        a = decode(b)
        k = self.NTEXTS[i][1]
        negpow = flag == 'on'
        exp = expected_of(lambda: R.power(a, k, negpow))
        seen = []

        def recorder(comparer_params_eval, student_eval, utils):
            seen.append(student_eval)
            return True

        ans = {'comparer': recorder, 'comparer_params': ['1']}

        def sub(setting):
            return Lib.MatrixGrader(user_constants={'A': to_lib(a)}, negative_powers=setting, max_array_dim=3, samples=1)

        inputs = ['A+A', 'A+A']
        inputs[pos] = 'A^' + self.NTEXTS[i][0]
        if w == 'list-ordered-mixed':
            subs = [sub(not negpow), sub(not negpow)]
            subs[pos] = sub(negpow)
            grader = ListGrader(answers=[ans, ans], subgraders=subs, ordered=True)
            got = attempt(lambda: grader(None, inputs))
        elif w == 'list-unordered':
            grader = ListGrader(answers=[ans, ans], subgraders=sub(negpow))
            got = attempt(lambda: grader(None, inputs))
        else:
            grader = SingleListGrader(answers=[ans, ans], subgrader=sub(negpow), ordered=True)
            got = attempt(lambda: grader(None, ', '.join(inputs)))
        restored = check_restored()
        site = 'nested-grader:%s:%s%s' % (w, site_of('^', a, k), '' if negpow else ':disabled')
        if got[0] == 'err':
            res = judge(exp, got, site, True, 1)
        elif exp[0] == 'err':
            res = Result('value-for-illegal', True,
                         viol('returned-value-for-illegal:' + site,
                              'the list grader graded an input the statement requires to be refused (%s)' % exp[1],
                              'StudentFacingError', {'result': got[1], 'evaluated': [obs_summary(s) for s in seen]}), 1)
        else:
            def matches(s):
                return (isinstance(s, np.ndarray) and tuple(s.shape) == R.shape(exp[1]) and R.same_value(exp[1], s.tolist()))
            twice = R.add(a, a)
            hit = [s for s in seen if matches(s)]
            rest = [s for s in seen if not (isinstance(s, np.ndarray) and tuple(s.shape) == R.shape(twice)
                                            and R.same_value(twice, s.tolist()))]
            if hit:
                res = judge(exp, ('val', hit[0]), site, True, 1)
            elif rest:
                res = judge(exp, ('val', rest[0]), site, True, 1)
            else:
                res = Result('refused', True, viol('legal-op-refused:' + site, 'the power was never handed to the comparer',
                                                   exp[1], {'result': got[1], 'n_evaluated': len(seen)}), 1)
            if res.violation is None:
                res.outcome = 'graded:' + res.outcome
        if res.violation is None and restored is not None:
            res.violation = restored
        return res


# ----------------------------------------------------------------------------- scalars that are COMPUTED (function results)

import math as _math
COMPUTED = [
    ('sin(x)', lambda x: _math.sin(x)), ('cos(x)+1', lambda x: _math.cos(x) + 1), ('exp(x)', lambda x: _math.exp(x)),
    ('sqrt(x)', lambda x: _math.sqrt(x)), ('-sin(x)', lambda x: -_math.sin(x)), ('sin(x)^2', lambda x: _math.sin(x) ** 2),
    ('norm(u)', lambda x: 5.0), ('abs(u)', lambda x: 5.0), ('det(Q)', lambda x: -2.0), ('trace(Q)', lambda x: 5.0),
    ('u*u', lambda x: 25.0), ('sin(0)', lambda x: 0.0), ('sin(x)-sin(x)', lambda x: 0.0), ('norm(u)-5', lambda x: 0.0),
    ('sin(x)+cos(x)', lambda x: _math.sin(x) + _math.cos(x)), ('x', lambda x: x), ('2*x', lambda x: 2 * x),
]
COMPUTED_ARRAYS = [spec_arr((2,), 'ra'), spec_arr((3,), 'rf'), spec_arr((2, 2), 'ra'), spec_arr((2, 3), 'ca'), spec_arr((2, 2, 2), 'ra')]
COMPUTED_FORMS = ['(%(s)s)+%(a)s', '(%(s)s)-%(a)s', '(%(s)s)/%(a)s', '(%(s)s)^%(a)s', '%(a)s+(%(s)s)', '%(a)s-(%(s)s)', '(%(s)s)*%(a)s',
                  '%(a)s*(%(s)s)', '%(a)s/(%(s)s)', '(%(s)s)+1+%(a)s']
COMPUTED_BARE = {'sin(x)', 'exp(x)', 'sqrt(x)', 'norm(u)', 'abs(u)', 'det(Q)', 'trace(Q)', 'sin(0)', 'x'}     # also without parentheses


class ComputedScalars(Family):
    name = 'computed_scalars_with_arrays'
    timeout = 20.0
    rule = ('formula strings combining a scalar that is the RESULT of a function call or of a dot product (%s; x = 0.75, u = [3,4], '
            'Q = [[1,2],[3,4]]) with an array variable A of 5 shapes in the forms %s: same rules as for literal scalars (non-zero '
            'scalar +/- array, scalar / array, scalar ^ array are errors; scaling is entry-wise; a computed zero may be added)'
            % ([c[0] for c in COMPUTED], COMPUTED_FORMS))

    def setup(self, tier):
        Lib.load()
        from mitxgraders.helpers.calc.mathfuncs import DEFAULT_FUNCTIONS, ARRAY_ONLY_FUNCTIONS
        self.F = dict(DEFAULT_FUNCTIONS)
        self.F.update(ARRAY_ONLY_FUNCTIONS)

    def cases(self, tier):
        for ci in range(len(COMPUTED)):
            for ai in range(len(COMPUTED_ARRAYS)):
                for fi in range(len(COMPUTED_FORMS)):
                    yield (ci, ai, fi)
                    if COMPUTED[ci][0] in COMPUTED_BARE and fi < len(COMPUTED_FORMS) - 1:
                        yield (ci, ai, fi, 'bare')

    def text(self, case):
        ci, ai, fi = case[:3]
        t = COMPUTED_FORMS[fi] % {'s': COMPUTED[ci][0], 'a': 'A'}
        if len(case) > 3:
            t = t.replace('(' + COMPUTED[ci][0] + ')', COMPUTED[ci][0])
        return t

    def describe(self, case):
        ci, ai, fi = case[:3]
        return {'formula': self.text(case), 'A': decode(COMPUTED_ARRAYS[ai]),
                'x': 0.75, 'u': [3, 4], 'Q': [[1, 2], [3, 4]]}

    def check(self, case):
        ci, ai, fi = case[:3]
        text = self.text(case)
        a = decode(COMPUTED_ARRAYS[ai])
        sval = COMPUTED[ci][1](0.75)
        form = COMPUTED_FORMS[fi]
        op = [c for c in form.replace('%(s)s', '').replace('%(a)s', '').replace('(', '').replace(')', '') if c in '+-*/^'][0]
        scalar_left = form.index('%(s)s') < form.index('%(a)s')
        if fi == len(COMPUTED_FORMS) - 1:
            exp = expected_of(lambda: R.binop('+', sval + 1, a, True))
        elif scalar_left:
            exp = expected_of(lambda: R.binop(op, sval, a, True))
        else:
            exp = expected_of(lambda: R.binop(op, a, sval, True))
        V = {'x': 0.75, 'u': Lib.MathArray([3.0, 4.0]), 'Q': Lib.MathArray([[1.0, 2.0], [3.0, 4.0]]), 'A': to_lib(a)}
        got = attempt(lambda: Lib.evaluator(text, V, self.F, {}, max_array_dim=3)[0])
        site = 'computed:' + site_of(op, sval if scalar_left else a, a if scalar_left else sval)
        return judge(exp, got, site, True)


def by_text_round_robin(groups, ways=16):
    """
    The runner deals cases()[i] to worker i mod 16 and every worker parses each formula text it meets once; emitting the
    cases so that all cases of one text have the same index mod 16 keeps the number of parses at one per text.
    groups: list of lists of cases (one list per text).  Deterministic; every case is emitted exactly once.
    """
    lanes = [[] for _ in range(ways)]
    for gi, g in enumerate(groups):
        lanes[gi % ways].extend(g)
    depth = min(len(l) for l in lanes)
    for r in range(depth):
        for l in lanes:
            yield l[r]
    for l in lanes:             # the uneven tails
        for c in l[depth:]:
            yield c


# ----------------------------------------------------------------------------- arrays that are COMPUTED (function / operator results)

def _ref_cross_q(a):
    return R.cross(a, CROSS_Q)


CROSS_Q = [2, -1, 1]
PRODUCERS = [
    # (formula text, reference, shapes it applies to: None = all)
    ('trans(A)', R.transpose, None), ('ctrans(A)', lambda a: R.conj(R.transpose(a)), None),
    ('adj(A)', lambda a: R.conj(R.transpose(a)), None), ('conj(A)', R.conj, None), ('re(A)', R.re, None),
    ('im(A)', R.im, None), ('cross(A,Q)', _ref_cross_q, [(3,)]),
    ('(-A)', R.neg, None), ('(+A)', lambda a: a, None), ('(A)', lambda a: a, None),
    ('(A*1)', lambda a: a, None), ('(1*A)', lambda a: a, None), ('(A/1)', lambda a: a, None),
    ('(A+0)', lambda a: a, None), ('(0+A)', lambda a: a, None), ('(A-0)', lambda a: a, None), ('(0-A)', R.neg, None),
    ('(A*2/2)', lambda a: a, None), ('(A^1)', lambda a: a, [(2, 2), (3, 3)]),
    ('trans(trans(A))', lambda a: a, None), ('re(A*1)', R.re, None),
]
PRODUCER_SHAPES = {'quick': [(3,), (2, 3), (2, 2)], 'thorough': [(3,), (2,), (2, 3), (2, 2), (3, 3), (1, 3), (2, 2, 2), (2, 1, 2)]}
PARTNERS = {'quick': ['s:2', 's:0', 'a:3:rb', 'a:2x3:rb', 'a:3x2:rb', 'a:2x2:rb'],
            'thorough': ['s:2', 's:0', 's:-1.5', 's:1+2j', 's:1e-13', 'a:3:rb', 'a:2:rb', 'a:2x3:rb', 'a:3x2:rb', 'a:2x2:cb',
                         'a:3x3:rb', 'a:1x3:rb', 'a:2x2x2:rb', 'a:2x1x2:rb']}


class ComputedArrays(Family):
    name = 'computed_arrays_with_operands'
    timeout = 20.0
    rule = ('formula strings "<P> op B" and "B op <P>" where <P> is an ARRAY-valued sub-expression computed from the variable A '
            '(complex entries) by a library function or by an identity-like operator form (%s; Q = %s) and B is a scalar '
            '(zero / non-zero) or an array of equal, transposed or unrelated shape, op in {+,-,*,/,^}: the rules for array '
            'variables apply unchanged to computed arrays (a function result that is a plain ndarray would broadcast); oracle = '
            'nested-list transpose / conjugate / real / imaginary part / cross product followed by the reference operator'
            % ([p[0] for p in PRODUCERS], CROSS_Q))

    def setup(self, tier):
        Lib.load()
        from mitxgraders.helpers.calc.mathfuncs import DEFAULT_FUNCTIONS, ARRAY_ONLY_FUNCTIONS
        self.F = dict(DEFAULT_FUNCTIONS)
        self.F.update(ARRAY_ONLY_FUNCTIONS)

    def cases(self, tier):
        groups = []
        for pi, (_, _, only) in enumerate(PRODUCERS):
            for op in OPS5:
                for side in ('PB', 'BP'):
                    groups.append([(pi, spec_arr(sh, 'ca'), partner, op, side)
                                   for sh in PRODUCER_SHAPES[tier] if only is None or sh in only
                                   for partner in PARTNERS[tier]])
        return by_text_round_robin(groups)

    def text(self, case):
        pi, sa, partner, op, side = case
        p = PRODUCERS[pi][0]
        return '%s%sB' % (p, op) if side == 'PB' else 'B%s%s' % (op, p)

    def describe(self, case):
        return {'formula': self.text(case), 'A': decode(case[1]), 'B': decode(case[2]), 'Q': CROSS_Q}

    def check(self, case):
        pi, sa, partner, op, side = case
        a, b = decode(sa), decode(partner)
        ref = PRODUCERS[pi][1]
        if side == 'PB':
            exp = expected_of(lambda: R.binop(op, ref(a), b))
        else:
            exp = expected_of(lambda: R.binop(op, b, ref(a)))
        V = {'A': to_lib(a), 'B': to_lib(b), 'Q': to_lib([float(q) for q in CROSS_Q])}
        text = self.text(case)
        got = attempt(lambda: Lib.evaluator(text, V, self.F, {}, max_array_dim=4)[0])
        pa = ref(a)
        site = 'computed-array:%s:%s' % (PRODUCERS[pi][0], site_of(op, pa, b) if side == 'PB' else site_of(op, b, pa))
        return judge(exp, got, site, True)


# ----------------------------------------------------------------------------- scalars of numpy type

NP_SCALARS = [
    # (id, numpy type name, python value)
    ('f64:0', 'float64', 0.0), ('f64:2', 'float64', 2.0), ('f64:-1.5', 'float64', -1.5), ('f64:1e-13', 'float64', 1e-13),
    ('f64:-1', 'float64', -1.0), ('f64:0.5', 'float64', 0.5), ('f64:1', 'float64', 1.0),
    ('i64:0', 'int64', 0), ('i64:2', 'int64', 2), ('i64:-1', 'int64', -1), ('i64:1', 'int64', 1),
    ('i32:3', 'int32', 3), ('f32:0', 'float32', 0.0), ('f32:2', 'float32', 2.0), ('f32:0.5', 'float32', 0.5),
    ('c128:0', 'complex128', 0j), ('c128:1+2j', 'complex128', 1 + 2j), ('c64:2j', 'complex64', 2j),
]
NP_BY_ID = {s[0]: s for s in NP_SCALARS}
NP_SHAPES = {'quick': [(2,), (3,), (2, 2), (3, 3), (2, 3), (1, 2), (2, 2, 2)], 'thorough': ARR_SHAPES}


def np_scalar(sid):
    _, tname, val = NP_BY_ID[sid]
    return getattr(np, tname)(val)


class NumpyScalars(Family):
    name = 'numpy_typed_scalars'
    timeout = 20.0
    rule = ('scalars whose TYPE is a numpy scalar type (%s; e.g. an author constant np.sqrt(2)) combined with every array shape '
            'of %s: as the value of a formula variable on either side of {+,-,*,/,^} ("var"), and as the RIGHT operand of the '
            'MathArray operator and in-place operator ("op", "iop"); same rules as for Python numbers of the same value. '
            'numpy scalars on the LEFT of a bare MathArray operator are numpy\'s own dispatch (upstream issue 124) and are not '
            'exercised; numpy integer / float32 exponents given directly to MathArray.__pow__ are a PENDING finding'
            % ([s[0] for s in NP_SCALARS], NP_SHAPES))

    def setup(self, tier):
        Lib.load()

    @staticmethod
    def pending(form, op, sid, shape):
        # PENDING-FINDING: MathArray.__pow__ calls a numpy integer / float32 exponent "non-integer" (A ** np.int64(2) is refused)
        val = NP_BY_ID[sid][2]
        return (form in ('op', 'iop') and op == '^' and not sid.startswith('f64:') and len(shape) == 2 and shape[0] == shape[1]
                and not isinstance(val, complex) and val == int(val))

    def cases(self, tier):
        for form in ('var', 'op', 'iop'):
            for op in OPS5:
                for sh in NP_SHAPES[tier]:
                    for s in NP_SCALARS:
                        if not self.pending(form, op, s[0], sh):          # PENDING-FINDING
                            yield (form, op, spec_arr(sh, 'ra'), s[0], 'AS')
                        if form == 'var':
                            yield (form, op, spec_arr(sh, 'ra'), s[0], 'SA')

    def describe(self, case):
        form, op, sa, sid, side = case
        return {'form': form, 'op': op, 'array': decode(sa), 'scalar': '%s(%r)' % NP_BY_ID[sid][1:], 'array side': 'left' if side == 'AS' else 'right'}

    def check(self, case):
        form, op, sa, sid, side = case
        a = decode(sa)
        pyval = NP_BY_ID[sid][2]
        n = np_scalar(sid)
        if side == 'AS':
            exp = expected_of(lambda: R.binop(op, a, pyval))
        else:
            exp = expected_of(lambda: R.binop(op, pyval, a))
        la = to_lib(a)
        if form == 'var':
            text = 'A%sn' % op if side == 'AS' else 'n%sA' % op
            got = attempt(lambda: Lib.evaluator(text, {'A': la, 'n': n}, {}, {})[0])
        elif form == 'op':
            got = attempt(lambda: PYOP[op](la, n))
        else:
            got = attempt(lambda: PYIOP[op](la, n))
        site = 'npscalar:%s:%s' % (NP_BY_ID[sid][1], site_of(op, a, pyval) if side == 'AS' else site_of(op, pyval, a))
        return judge(exp, got, site, True)


# ----------------------------------------------------------------------------- inverses of scaled matrices

def scale_value(sc):
    kind, e = sc
    return (2.0 ** e) if kind == 'r' else complex(0, 2.0 ** e)


SPECIAL_SQUARES = [
    [[1, 0, 0], [1, 2, 2], [2, 1, 1]],                  # singular, LU meets no exact zero pivot
    [[1, 2, 3], [4, 5, 6], [7, 8, 9]],                  # singular
    [[2, 1, 0], [1, 2, 1], [0, 1, 2]],                  # det 4
    [[1, 1, 0], [0, 1, 1], [0, 0, 1]],                  # det 1
    [[1, 2, 3, 4], [5, 6, 7, 8], [9, 10, 11, 12], [13, 14, 15, 16]],     # rank 2
    [[2, 1, 0, 0], [1, 2, 1, 0], [0, 1, 2, 1], [0, 0, 1, 2]],            # det 5
    [[1, 2], [2, 4]], [[3, 1], [5, 2]],
]


class ScaledInverse(Family):
    timeout = 20.0

    def __init__(self, name, n, palette, scales_by_tier, exps):
        self.name = name
        self.n = n                  # 0 = the list SPECIAL_SQUARES
        self.palette = palette
        self.scales_by_tier = scales_by_tier
        self.exps = exps
        what = ('EVERY %dx%d matrix over the palette %s' % (n, n, palette)) if n else ('each of %s' % (SPECIAL_SQUARES,))
        self.rule = ('%s multiplied by a power-of-two scale s (%s; "i" = imaginary) and raised to %s: singularity does not depend on '
                     'the scale, so exact determinant 0 => refused, otherwise s^-k * (result) must equal the exact power of the '
                     'unscaled integer matrix (the scaling is exact in binary floating point, so the comparison is relative to '
                     'the magnitude of the entries); every case is non-trivial' % (what, scales_by_tier, exps))

    def setup(self, tier):
        Lib.load()

    def count(self):
        return len(self.palette) ** (self.n * self.n) if self.n else len(SPECIAL_SQUARES)

    def cases(self, tier):
        for idx in range(self.count()):
            for sc in self.scales_by_tier[tier]:
                for k in self.exps:
                    yield (idx, list(sc), k)

    def matrix(self, idx):
        if not self.n:
            return SPECIAL_SQUARES[idx]
        vals = []
        b = len(self.palette)
        for _ in range(self.n * self.n):
            idx, d = divmod(idx, b)
            vals.append(self.palette[d])
        return _build((self.n, self.n), vals)

    def describe(self, case):
        idx, sc, k = case
        s = scale_value(sc)
        return {'matrix': R.emap(lambda t: t * s, self.matrix(idx)), 'unscaled': self.matrix(idx), 'scale': repr(s), 'exponent': k}

    def check(self, case):
        idx, sc, k = case
        m = self.matrix(idx)
        s = scale_value(sc)
        scaled = R.emap(lambda t: t * s, m)
        exp = expected_of(lambda: R.power(m, k))
        la = Lib.MathArray(scaled)
        got = attempt(lambda: la ** k)
        if got[0] == 'val' and isinstance(got[1], Lib.MathArray) and got[1].ndim == 2:
            factor = 1.0                      # s^-k, exact (k < 0 in this family, so repeated multiplication by s)
            for _ in range(abs(k)):
                factor = factor * s if k < 0 else factor / s
            with warnings.catch_warnings():
                warnings.simplefilter('ignore')
                got = ('val', Lib.MathArray(np.asarray(got[1]) * factor))
        return judge(exp, got, site_of('^', m, k) + ':scaled', True)


# ----------------------------------------------------------------------------- large integer powers, integer dtype

LP_MATS = [
    [[1, 1], [1, 0]], [[2, 1], [1, 3]], [[3, 0], [0, 3]], [[1, 2], [0, 1]], [[1, 1, 0], [0, 1, 1], [0, 0, 1]],
    [[0, -1], [1, 0]], [[(0, 1), 1], [0, 1]], [[0.5, 0.25], [0, 0.5]],
]
LP_EXPS = [4, 5, 6, 7, 8, 9, 10, 15, 16, 17, 31, 32, 40, 41, 62, 63, 64, 90, -4, -5, -7, -8, -16, -31, -40, -64]
INT64_MAX = 2 ** 63 - 1


def lp_matrix(mi, dtype):
    m = R.emap(lambda t: t, [[complex(*v) if isinstance(v, tuple) else v for v in row] for row in LP_MATS[mi]])
    if dtype == 'float':
        return R.emap(float, m)
    if dtype == 'complex':
        return R.emap(complex, m)
    return m


def lp_dtypes(mi):
    flat = [v for row in LP_MATS[mi] for v in row]
    if any(isinstance(v, tuple) for v in flat):
        return ['complex']
    if any(isinstance(v, float) for v in flat):
        return ['float']
    return ['int', 'float', 'complex']


class LargePowers(Family):
    name = 'large_integer_powers'
    timeout = 20.0
    rule = ('matrices %s given as integer-, float- and complex-dtype MathArrays, raised to every exponent of %s (beyond the small '
            'exponents of the other families) through the operator and through a formula with the matrix as a variable; oracle = '
            'exact Python integer arithmetic (repeated product, adjugate inverse). Integer-dtype cases whose exact result exceeds '
            'the int64 range are a PENDING finding (numpy wraps around silently)' % (LP_MATS, LP_EXPS))

    def setup(self, tier):
        Lib.load()

    @staticmethod
    def pending(mi, dtype, k):
        # PENDING-FINDING: integer-dtype matrix powers overflow int64 silently (MathArray([[3,0],[0,3]])**40 is negative garbage)
        if dtype != 'int' or k < 0:
            return False
        big = R.power(lp_matrix(mi, 'int'), k)
        return max(abs(t) for t in R.flat(big)) > INT64_MAX

    def cases(self, tier):
        for mi in range(len(LP_MATS)):
            for dtype in lp_dtypes(mi):
                for k in LP_EXPS:
                    if self.pending(mi, dtype, k):          # PENDING-FINDING
                        continue
                    for form in ('op', 'var'):
                        yield (mi, dtype, k, form)

    def describe(self, case):
        mi, dtype, k, form = case
        return {'matrix': repr(lp_matrix(mi, dtype)), 'dtype': dtype, 'exponent': k, 'form': form}

    def check(self, case):
        mi, dtype, k, form = case
        m = lp_matrix(mi, dtype)
        exact = lp_matrix(mi, 'int' if dtype == 'int' or 'int' in lp_dtypes(mi) else dtype)
        exp = expected_of(lambda: R.power(exact, k))
        la = Lib.MathArray(m)
        if form == 'op':
            got = attempt(lambda: la ** k)
        else:
            got = attempt(lambda: Lib.evaluator('A^n' if k >= 0 else 'A^-n', {'A': la, 'n': abs(k)}, {}, {})[0])
        if exp[0] == 'val':
            # entries reach 1e40: compare relative to the largest entry (judge's tolerance has an absolute floor of 1e-9)
            top = max(abs(t) for t in R.flat(exp[1])) or 1
            exp = ('val', R.emap(lambda t: t / top, exp[1]))
            if got[0] == 'val' and isinstance(got[1], Lib.MathArray):
                with warnings.catch_warnings():
                    warnings.simplefilter('ignore')
                    got = ('val', Lib.MathArray(np.asarray(got[1]) / float(top)))
        return judge(exp, got, site_of('^', m, k) + ':large:' + dtype, True)


class IntDtypeProducts(Family):
    name = 'integer_dtype_magnitudes'
    timeout = 20.0
    MAGS = [10 ** 4, 3 * 10 ** 9, 2 ** 61]
    PAIRS = [((2,), (2,)), ((2, 2), (2,)), ((2,), (2, 2)), ((2, 2), (2, 2)), ((2, 3), (3, 2)), ((2,), 'int'), ((2, 2), 'int'),
             ('int', (2,)), ((2,), 'float')]
    rule = ('integer-dtype MathArrays with entries of magnitude %s multiplied with / added to integer-dtype arrays and Python '
            'ints of the same magnitude (operator form): the exact integer result is required. Cases whose exact result leaves '
            'the int64 range are a PENDING finding (silent wrap-around, or a raw OverflowError for Python ints beyond int64)'
            % (MAGS,))

    def setup(self, tier):
        Lib.load()

    def operands(self, case):
        pi, mag, op = case
        sa, sb = self.PAIRS[pi]

        def mk(s, seq):
            if s == 'int':
                return mag + 1
            if s == 'float':
                return float(mag)
            n = 1
            for d in s:
                n *= d
            return _build(s, [seq[t % 16] * mag for t in range(n)])
        return mk(sa, SEQ_A), mk(sb, SEQ_B)

    def exact(self, case):
        a, b = self.operands(case)
        return expected_of(lambda: R.binop(case[2], a, b))

    def pending(self, case):
        # PENDING-FINDING: integer-dtype arithmetic overflows int64 silently / raises a raw OverflowError
        exp = self.exact(case)
        if exp[0] != 'val':
            return False
        a, b = self.operands(case)
        if any(isinstance(t, float) for t in R.flat(a) + R.flat(b)):
            return False
        vals = R.flat(exp[1]) + R.flat(a) + R.flat(b)
        return any(t > INT64_MAX or t < -INT64_MAX - 1 for t in vals)

    def cases(self, tier):
        for pi in range(len(self.PAIRS)):
            for mag in self.MAGS:
                for op in ('*', '+', '-'):
                    case = (pi, mag, op)
                    if self.pending(case):          # PENDING-FINDING
                        continue
                    yield case

    def describe(self, case):
        a, b = self.operands(case)
        return {'left': a, 'op': case[2], 'right': b}

    def check(self, case):
        case = tuple(case)
        a, b = self.operands(case)
        exp = self.exact(case)
        got = execute_binop('op', case[2], a, b)
        if exp[0] == 'val' and not R.is_num(exp[1]):
            top = max(abs(t) for t in R.flat(exp[1])) or 1
            if got[0] == 'val' and isinstance(got[1], Lib.MathArray):
                exp = ('val', R.emap(lambda t: t / top, exp[1]))
                got = ('val', Lib.MathArray(np.asarray(got[1]) / top))
        elif exp[0] == 'val':
            top = abs(exp[1]) or 1
            if got[0] == 'val' and isinstance(got[1], Number):
                exp, got = ('val', exp[1] / top), ('val', got[1] / top)
        return judge(exp, got, site_of(case[2], a, b) + ':intdtype', True)


# ----------------------------------------------------------------------------- shapes just beyond the exhaustive bound

EXTRA_SHAPES = [(5,), (6,), (5, 5), (2, 5), (5, 2), (1, 5), (5, 1), (2, 2, 2, 2), (3, 3, 3), (2, 3, 4), (1, 1, 2), (2, 1, 1, 2)]
assert abs(R.det(fill((5, 5), 'ra'))) >= 1 and abs(R.det(fill((5, 5), 'rb'))) >= 1
BEYOND_EXPONENTS = ['0', '1', '2', '3', '-1', '-2', '2.0', '-1.0', '0.5', '1+1j']
BEYOND_SCALARS = ['0', '2', '-1.5', '1+2j', '1e-13']


class BeyondBound(BinopFamily):
    def __init__(self, name, forms_by_tier):
        self.name = name
        self.forms_by_tier = forms_by_tier
        self.rule = ('shapes just beyond the exhaustive lattice (%s: longer vectors, 5-wide matrices, 4-axis tensors, larger '
                     '3-axis tensors) paired in both orders with every shape of the lattice and with each other x {+,-,*,/,^}, '
                     'with the scalars %s on either side, and raised to the exponents %s with negative powers on and off; '
                     'call forms %s; same oracle and non-triviality rule as the lattice families'
                     % (EXTRA_SHAPES, BEYOND_SCALARS, BEYOND_EXPONENTS, forms_by_tier))

    def cases(self, tier):
        for form in self.forms_by_tier[tier]:
            for se in EXTRA_SHAPES:
                for op in OPS5:
                    for so in ARR_SHAPES + EXTRA_SHAPES:
                        yield (op, form, spec_arr(se, 'ra'), spec_arr(so, 'rb'))
                        if so not in EXTRA_SHAPES:
                            yield (op, form, spec_arr(so, 'rb'), spec_arr(se, 'ra'))
                    for sid in BEYOND_SCALARS:
                        if op != '^':
                            yield (op, form, spec_arr(se, 'ra'), spec_sc(sid))
                        if form != 'iop':
                            yield (op, 'refl' if form == 'op' else form, spec_sc(sid), spec_arr(se, 'ra'))
                for ex in BEYOND_EXPONENTS:
                    yield ('^', form, spec_arr(se, 'ra'), spec_sc(ex))
                    yield ('^', form, spec_arr(se, 'ra'), spec_sc(ex), 'off')


# ----------------------------------------------------------------------------- un-parenthesised expressions (precedence)

FLAT_ALPHABET = dict(EXPR_ALPHABET)
UNARY_FORMS = ['-a%sb', 'a%s-b', '-a%s-b', '+a%sb', '+-a%sb', '-a%sb%sc', 'a%s-b%sc', 'a%sb%s-c']


def _flat_product(factors, ops):
    return R.chain(factors, ops) if len(factors) > 1 else factors[0]


def flat_value(tokens):
    """
    tokens: list alternating operands / operator characters, operands are ('v', value) or ('-', operand) for a unary minus.
    Documented precedence: ^ (right-associative, a unary minus allowed directly after ^) binds tighter than the unary minus,
    which binds tighter than * and / (left to right, with the triple-vector rule), which bind tighter than + and -.
    """
    # split into terms at + / -
    terms, signs, cur = [], ['+'], []
    for t in tokens:
        if isinstance(t, str) and t in ('+', '-'):
            terms.append(cur)
            signs.append(t)
            cur = []
        else:
            cur.append(t)
    terms.append(cur)
    total = None
    for sign, term in zip(signs, terms):
        # split into factors at * and /
        factors, fops, cur = [], [], []
        for t in term:
            if isinstance(t, str) and t in ('*', '/'):
                factors.append(cur)
                fops.append(t)
                cur = []
            else:
                cur.append(t)
        factors.append(cur)
        fvals = []
        for f in factors:
            # f = [operand, '^', operand, '^', operand ...]; operands may carry a unary minus
            ops_ = [x for x in f if isinstance(x, tuple)]
            lead_minus, base = ops_[0][0] == '-', ops_[0][1]
            result = None
            for o in reversed(ops_[1:]):
                e = o[1] if result is None else R.power(o[1], result)
                result = R.neg(e) if o[0] == '-' else e
            val = base if result is None else R.power(base, result)
            fvals.append(R.neg(val) if lead_minus else val)
        pv = _flat_product(fvals, fops)
        total = pv if total is None else R.binop(sign, total, pv)
    return total


class FlatExpr(Family):
    timeout = 20.0

    def __init__(self, name, letters_by_tier):
        self.name = name
        self.letters_by_tier = letters_by_tier
        self.rule = ('every UN-parenthesised formula "a o1 b o2 c" with a,b,c over the alphabet of nested_expressions and o1,o2 in '
                     '{+,-,*,/,^}, plus the unary forms %s over pairs/triples (a leading sign, a sign after an operator), evaluated '
                     'with variables; oracle = the documented precedence (^ right-associative > unary minus > * / left to right '
                     'with the triple-vector refusal > + - left to right) applied with the reference operators; this reaches '
                     'sums of three terms, power towers and negation nodes on arrays; non-trivial = at least two array operands'
                     % (UNARY_FORMS,))

    def setup(self, tier):
        Lib.load()

    def cases(self, tier):
        letters = self.letters_by_tier[tier]
        groups = []
        for form in ['a%sb%sc'] + UNARY_FORMS:
            if 'c' in form and form[0] != 'a' and tier == 'quick':
                continue
            if 'c' in form and '-' in form and tier == 'quick':
                continue
            for ops in itertools.product(OPS5, repeat=form.count('%s')):
                text = form % ops
                groups.append([(text, ''.join(xyz)) for xyz in itertools.product(letters, repeat=3 if 'c' in text else 2)])
        return by_text_round_robin(groups)

    @staticmethod
    def tokens(text, vals):
        """text over a, b, c and operators -> token list for flat_value (a sign is unary at the start or after an operator)"""
        out = []
        pending_minus = False
        prev_is_operand = False
        for ch in text:
            if ch in 'abc':
                out.append(('-' if pending_minus else 'v', vals['abc'.index(ch)]))
                pending_minus = False
                prev_is_operand = True
            elif ch in '+-' and not prev_is_operand:
                if ch == '-':
                    pending_minus = not pending_minus
            else:
                out.append(ch)
                prev_is_operand = False
        return out

    def describe(self, case):
        text, xyz = case
        return {'formula': text, 'values': dict(zip('abc', [FLAT_ALPHABET[f] for f in xyz]))}

    def check(self, case):
        text, xyz = case
        vals = [FLAT_ALPHABET[f] for f in xyz]
        exp = expected_of(lambda: flat_value(self.tokens(text, vals)))
        variables = {n: to_lib(v) for n, v in zip('abc', vals)}
        got = attempt(lambda: Lib.evaluator(text, variables, {}, {})[0])
        narr = sum(1 for v in vals if not R.is_num(v))
        return judge(exp, got, 'flat:' + text, narr >= 2)


# ----------------------------------------------------------------------------- registry

def families(tier):
    RR, RC, CC, FR = ('ra', 'rb'), ('ra', 'ca'), ('ca', 'cb'), ('rf', 'ra')
    fams = [
        ArrArr('array_array_operators',
               {'quick': [('op', [RR, RC, CC, FR]), ('iop', [RR, RC, CC, FR])],
                'thorough': [('op', [RR, RC, CC, FR]), ('iop', [RR, RC, CC, FR])]},
               'MathArray operator and in-place operator'),
        ArrArr('array_array_formulas',
               {'quick': [('var', [RR, RC]), ('lit', [RR])],
                'thorough': [('var', [RR, RC, CC, FR]), ('lit', [RR, RC, FR])]},
               'formula with array-valued variables / with array literals'),
        ScalarArr('scalar_array_operators',
                  {'quick': [('op', ['ra', 'rf', 'ca']), ('iop', ['ra', 'rf', 'ca']), ('refl', ['ra', 'rf', 'ca'])],
                   'thorough': [('op', ['ra', 'rf', 'ca']), ('iop', ['ra', 'rf', 'ca']), ('refl', ['ra', 'rf', 'ca'])]}),
        ScalarArr('scalar_array_formulas',
                  {'quick': [('var', ['ra', 'ca']), ('lit', ['ra'])],
                   'thorough': [('var', ['ra', 'rf', 'ca']), ('lit', ['ra', 'rf', 'ca'])]}),
        Powers('powers_operators',
               {'quick': [('op', ['ra', 'rf', 'ca']), ('iop', ['ra', 'rf', 'ca'])],
                'thorough': [('op', ['ra', 'rf', 'ca']), ('iop', ['ra', 'rf', 'ca'])]}),
        Powers('powers_formulas',
               {'quick': [('var', ['ra', 'ca']), ('lit', ['ra'])],
                'thorough': [('var', ['ra', 'rf', 'ca']), ('lit', ['ra', 'rf', 'ca'])]}),
        PowerSyntax(),
        ComputedScalars(),
        InverseSweep('inverse_all_2x2_int', 2, [-2, -1, 0, 1, 2], [-1, -2], ('quick', 'thorough')),
        InverseSweep('inverse_all_3x3_012', 3, [0, 1, 2], [-1], ('quick', 'thorough')),
        InverseSweep('inverse_all_2x2_gauss', 2, [0, 1, (0, 1), (1, 1), (1, -1)], [-1, -2], ('quick', 'thorough')),
        Chains('chained_products', {'quick': 'svwM', 'thorough': 'stvwuMNC'},
               {'quick': {'var': 4, 'lit': 3}, 'thorough': {'var': 4, 'lit': 4}}),
        Depth2('nested_expressions', {'quick': 'zsvwMSN', 'thorough': 'zstvwuMSNKT'}),
        Literals('array_literals', {'quick': [(2, 3), (3, 2)], 'thorough': [(2, 4), (3, 2), (4, 2, 'slim')]}),
        GraderNegPow(),
        NestedGraderNegPow(),
        ComputedArrays(),
        NumpyScalars(),
        ScaledInverse('inverse_scaled_2x2', 2, [-1, 0, 1, 2],
                      {'quick': [('r', -40), ('r', -20), ('r', 20), ('r', 40), ('i', 20)],
                       'thorough': [('r', -300), ('r', -40), ('r', -20), ('r', 20), ('r', 40), ('r', 300), ('i', 20), ('i', -20)]},
                      [-1, -2]),
        ScaledInverse('inverse_scaled_special', 0, None,
                      {'quick': [('r', -60), ('r', -40), ('r', -20), ('r', -10), ('r', 0), ('r', 10), ('r', 20), ('r', 40),
                                 ('r', 60), ('i', 20), ('i', -20)],
                       'thorough': [('r', e) for e in range(-100, 101, 10)] + [('i', e) for e in (-40, -20, 0, 20, 40)]},
                      [-1, -2, -3]),
        LargePowers(),
        IntDtypeProducts(),
        BeyondBound('shapes_beyond_bound', {'quick': ['op'], 'thorough': ['op', 'iop', 'var']}),
        FlatExpr('flat_expressions', {'quick': 'zsvMN', 'thorough': 'zstvwuMSNKT'}),
    ]
    if tier == 'thorough':
        fams += [
            InverseSweep('inverse_all_3x3_01i', 3, [0, 1, (0, 1)], [-1], ('thorough',)),
            ScaledInverse('inverse_scaled_3x3_012', 3, [0, 1, 2], {'quick': [], 'thorough': [('r', -30), ('r', 30)]}, [-1]),
            InverseSweep('inverse_all_3x3_m101', 3, [-1, 0, 1], [-1, -2], ('thorough',)),
            InverseSweep('inverse_all_4x4_01', 4, [0, 1], [-1], ('thorough',)),
            InverseSweep('inverse_all_3x3_0123', 3, [0, 1, 2, 3], [-1], ('thorough',)),
        ]
    return fams
