"""
C10 -- reported name usage is exact; parsing is independent of parse history.

ENUM: for every string of the token families the variable / function / suffix sets
reported by parse() and by evaluator()[1] are compared with the sets the reference
parser derives by construction.
BFS: the shared parser (a fresh MathParser installed as expressions.PARSER for every
history) is driven through every sequence of parse / evaluate / consumer calls over a
string alphabet that includes malformed strings, to closure of its canonical state;
every observation is compared with what a brand-new parser gives for the same call and
every cached expression's sets with the by-construction sets.
"""
import itertools
import math
from ..core import Family, Result, viol, HarnessError
from ..bfs import BFSFamily
from ..refs import expr as R
from .. import chooser
from .. import libstate

import mitxgraders.helpers.calc.expressions as X
from mitxgraders.helpers.calc import exceptions as CE
from mitxgraders.exceptions import MITxError
from mitxgraders import FormulaGrader, MatrixGrader, DependentSampler

EXTRA_HASH_SEEDS = {'thorough': ('1',)}           # name sets: their iteration order feeds messages and sampling order
PROPERTY = 'C10'
RULE = ('ENUM: every concatenation of tokens up to a length bound over alphabets rich in confusable names; '
        'non-trivial = string in the language with at least one name or suffix. BFS: all call histories over '
        '(operation x string) events on one shared parser to closure; state = cache keys with their three '
        'sets + scratch sets')
EXPLANATION = ('states = distinct strings (ENUM) / distinct canonical parser states (BFS); transitions = real '
               'parse/evaluator/grader calls; the implementation itself is explored, no separate model')
ASSUMPTIONS = ['name sets by construction come from the reference parser mcv/refs/expr.py',
               'parser state that matters = cache contents + the three scratch sets (+ max_array_dim_used)',
               'pyparsing internal memoisation is not enabled by the library (packrat off)']

NAME_TOKENS = ['2', 'x', 'y', 'f', 'e', 'k', '_', "'", '+', '*', '^', '-', '(', ')', '[', ']', ',']
BRACE_TOKENS = ['a', 'b', '1', '_{', '^{', '}', "'", '+', '(', ')', '-', '_']


def sets_of(parsed):
    return (set(parsed.variables_used), set(parsed.functions_used), set(parsed.suffixes_used))


def is_expression(obj):
    return all(hasattr(obj, a) for a in ('variables_used', 'functions_used', 'suffixes_used'))


def anyfunc(*args):
    return 1.25


anyfunc.validated = True


class NameSets(Family):
    timeout = 20.0

    def __init__(self, name, tokens, maxlen):
        self.name = name
        self.tokens = tokens
        self.maxlen = maxlen
        self.rule = ('every concatenation of 1..%s tokens from %s; parse(s) sets and evaluator(s, full scope)[1] '
                     'sets vs by-construction sets; non-trivial = in the language and uses a name or suffix'
                     % (maxlen, tokens))

    def setup(self, tier):
        self.n = 0

    def isolate(self):
        X.PARSER = X.MathParser()

    def cases(self, tier):
        n = self.maxlen[tier]
        idx = range(len(self.tokens))
        for L in range(1, n + 1):
            for tup in itertools.product(idx, repeat=L):
                yield tup

    def describe(self, case):
        return ''.join(self.tokens[i] for i in case)

    def check(self, case):
        s = ''.join(self.tokens[i] for i in case)
        return judge_names(self, s)


def judge_names(fam, s):
    fam.n += 1
    if fam.n % 20000 == 0:
        X.PARSER = X.MathParser()
    try:
        ast, rv, rf, rs = R.parse(s)
    except R.RefParseError:
        try:
            X.parse(s)
        except (CE.UnableToParse, CE.UnbalancedBrackets):
            return Result('reject', False)
        except Exception as e:
            return Result('parse-raised', True, viol('names:parse-raises-%s' % type(e).__name__,
                                                     'parse(%r) raised %r' % (s, e)))
        return Result('accepts-invalid', True, viol('names:accepts-invalid', '%r outside the grammar was parsed' % s))
    try:
        p = X.parse(s)
    except Exception as e:
        return Result('rejects-valid', True, viol('names:rejects-valid', 'parse(%r) raised %r' % (s, e)))
    got = sets_of(p)
    exp = (rv, rf, rs)
    nontriv = bool(rv or rf or rs)
    if got != exp:
        return Result('wrong-sets', nontriv,
                      viol('names:parse-sets-differ', 'parse(%r): variables/functions/suffixes %r, expected %r'
                           % (s, [sorted(x) for x in got], [sorted(x) for x in exp]),
                           [sorted(x) for x in exp], [sorted(x) for x in got]), 1)
    # through evaluator with a scope in which every name exists
    V = {v: 1.5 for v in rv}
    F = {f: anyfunc for f in rf}
    S = {x: 2.0 for x in rs}
    try:
        _val, meta = X.evaluator(s, V, F, S)
        got2 = (set(meta.variables_used), set(meta.functions_used), set(meta.suffixes_used))
        if got2 != exp:
            return Result('wrong-sets', nontriv,
                          viol('names:evaluator-sets-differ', 'evaluator(%r)[1] reports %r, expected %r'
                               % (s, [sorted(x) for x in got2], [sorted(x) for x in exp]),
                               [sorted(x) for x in exp], [sorted(x) for x in got2]), 2)
    except MITxError:
        pass        # arithmetic / shape errors: no metadata to compare
    except Exception as e:
        pass        # raw failures on odd array arithmetic are C02's business
    # consumer: the variables a grader collects from a list of expressions (numbered / sibling variable discovery)
    try:
        used = set(FormulaGrader.get_used_vars([s, '']))
    except Exception as e:
        return Result('consumer-raised', nontriv, viol('names:get_used_vars-raises', 'get_used_vars([%r]) raised %r' % (s, e)), 3)
    if used != rv:
        return Result('wrong-sets', nontriv,
                      viol('names:get_used_vars-differs', 'get_used_vars([%r]) = %r, expected %r' % (s, sorted(used), sorted(rv)),
                           sorted(rv), sorted(used)), 3)
    # the object returned for an accepted string must keep its sets when the parser is used again
    X.parse('q_1+g(2z)')
    if sets_of(p) != exp:
        return Result('aliased', nontriv,
                      viol('names:sets-change-after-later-parse',
                           'sets of parse(%r) changed after parsing another string: %r' % (s, [sorted(x) for x in sets_of(p)])))
    return Result('v%d f%d s%d' % (len(rv), len(rf), len(rs)), nontriv, None, 3)


EXTRA = ['a', 'ab', 'a_b', 'a+ab', 'ab+a', 'sin', 'sin+sin(x)', 'x(2)+x', "x'", "x''", "x'+x''+x", 'a_{1}', 'a_{1}^{2}',
         'a_{1}+a_{1}^{2}+a', '2e', '2e3k', '2k', '2e+e', '2e+2', '2ek', '2e2e', '[a,b]', '[a,[b]]', '2^a', '2^-a^b',
         'f(g(h))', 'f(g,h(i))', 'f(x)+f', '[f(x),x(f)]', '2k+k', '2%+3%', '1%k', 'e1+1e', 'E+1E1', 'x1+1x', '1x1',
         'T_{ij}^{kl}', "f'(x')", "f_1(f_1)", 'a_1_2', 'a__1', '3a_1', 'pi', '2pi', 'pi2', 'x+\ty', 'x y', 'sin (x)',
         'sin\t(x)', '2 k', '2\tk']


class ExtraNames(Family):
    name = 'confusable_names'
    rule = 'a fixed table of %d confusable-name strings, each alone and joined pairwise with + and *' % len(EXTRA)

    def setup(self, tier):
        self.n = 0

    def isolate(self):
        X.PARSER = X.MathParser()

    def cases(self, tier):
        for i in range(len(EXTRA)):
            yield (i,)
        for i in range(len(EXTRA)):
            for j in range(len(EXTRA)):
                for o in range(2):
                    yield (i, j, o)

    def describe(self, case):
        if len(case) == 1:
            return EXTRA[case[0]]
        return EXTRA[case[0]] + '+*'[case[2]] + EXTRA[case[1]]

    def check(self, case):
        return judge_names(self, self.describe(case))


# --------------------------------------------------------------------------- history search

DEEP = 'f(y)+2k+' + '(' * 150 + '1' + ')' * 150       # balanced, but too deep for the recursive grammar
STRINGS_Q = ['x+y', 'x + y', 'X+y', 'f(x)', 'x', '2k', 'x+', 'f(x', '2x(', 'x y', 'x\ty', 'x +', DEEP]
STRINGS_T = STRINGS_Q + ['x+\ty', 'f', 'sin(x)+sin(y)', '(x))', '']
FULL_V = {'x': 2.0, 'y': 3.0, 'X': 5.0, 'f': 7.0, 'xy': 11.0}
FULL_F = {'f': lambda t: t + 1, 'sin': math.sin}


def _full_f():
    from mitxgraders.helpers.calc.mathfuncs import DEFAULT_FUNCTIONS
    d = dict(FULL_F)
    d['ln'] = DEFAULT_FUNCTIONS['ln']
    return d
FULL_S = {'k': 1000.0}
MISS_V = {'x': 2.0}
ARRAY_STRS = ['[x, y]', '1e999', 'x+y', 'x']       # the strings on which the array / infinity variants of eval are explored
GRADE_STRS = ['f(x)', 'x+y', '[[1,2],[2,4]]^-1', 'ln(0)+[1,2]/0']     # graded in the quick tier too (see events)


def ARR_V():
    from mitxgraders.helpers.calc.math_array import MathArray
    return {'x': MathArray([1.0, 2.0]), 'y': MathArray([3.0, 4.0]), 'X': 5.0, 'f': 7.0, 'xy': 11.0}


def _meta(m):
    return (sorted(m.variables_used), sorted(m.functions_used), sorted(m.suffixes_used), getattr(m, 'max_array_dim_used', None))


class ParserCtx(object):
    pass


def observe_call(op, s):
    """Executes one event against the currently installed shared parser; returns a comparable observation."""
    try:
        if op == 'parse':
            p = X.parse(s)
            return ('sets', tuple(sorted(map(str, x)) for x in map(tuple, sets_of(p))))
        if op == 'eval':
            v, m = X.evaluator(s, FULL_V, _full_f(), FULL_S, max_array_dim=2)
            return ('val', repr(v)) + _meta(m)
        if op == 'evalarr':
            v, m = X.evaluator(s, ARR_V(), FULL_F, FULL_S, max_array_dim=2)       # x, y vectors: [x, y] is a matrix
            return ('val', repr(v)) + _meta(m)
        if op == 'evaldim1':
            v, m = X.evaluator(s, FULL_V, FULL_F, FULL_S, max_array_dim=1)        # scalars, vectors allowed, matrices not
            return ('val', repr(v)) + _meta(m)
        if op == 'evalinf':
            v, m = X.evaluator(s, FULL_V, FULL_F, FULL_S, allow_inf=True)
            return ('val', repr(v)) + _meta(m)
        if op == 'evalnosuffix':
            v, m = X.evaluator(s, FULL_V, FULL_F, {})        # same names in scope, but no suffixes defined
            return ('val', repr(v)) + _meta(m)
        if op == 'evalmiss':
            v, m = X.evaluator(s, MISS_V, {}, {})
            return ('val', repr(v)) + _meta(m)
        if op == 'grade':
            def body(ch):
                # every valid string of the alphabet is an accepted answer, so that the post-evaluation checks of a
                # correct submission run too
                g = MatrixGrader(answers=('x+y', 'f(x)', 'sin(x)+sin(y)', 'x', '2k', 'X+y', '[x, y]'),
                                 variables=['x', 'y', 'X'], user_functions={'f': lambda t: t + 1},
                                 metric_suffixes=True, samples=2, max_array_dim=2,
                                 answer_shape_mismatch={'is_raised': False})
                return g(None, s)
            ch, out = chooser.run_with(body)
            return ('graded', out['ok'], out['grade_decimal'])
        if op == 'dep':
            d = DependentSampler(formula=s)
            return ('depends', sorted(d.config['depends']),
                    repr(d.compute_sample({'x': 2.0, 'y': 3.0, 'X': 5.0, 'f': 7.0}, FULL_F, FULL_S)))
        raise HarnessError('unknown op ' + op)
    except HarnessError:
        raise
    except Exception as e:
        return ('raised', type(e).__name__, str(e))


class ParserHistory(BFSFamily):
    name = 'parser_history_bfs'
    depth_cap = 12
    level_sync = True
    timeout = 60.0
    rule = ('explicit-state search over call histories on one shared parser: events = {parse, eval (full scope), '
            'eval (scope lacking names)} [thorough: + FormulaGrader call, DependentSampler construction] + {eval with '
            'vector-valued variables, eval with max_array_dim=1, eval with allow_inf} on 4 strings incl. [x, y] and 1e999; x a string '
            'alphabet with valid, space-variant and malformed strings; to closure; transition oracle = same call on a '
            'brand-new parser; state invariant = scratch sets empty and cached sets equal by-construction sets')

    def __init__(self, mode='main'):
        self.mode = mode
        if mode == 'grading':
            self.name = 'parser_history_grading_bfs'
            self.rule = ('explicit-state search over call histories on the shared parser: events = {parse, eval, grade with a '
                         'MatrixGrader that accepts the string} x %r; to closure; transition oracle = same call on a brand-new '
                         'parser in the pristine library state' % (GRADE_STRS,))

    def setup(self, tier):
        self.tier = tier
        self.fresh = {}
        libstate.ensure_snapshot()

    def events(self, tier):
        if tier == 'quick':
            ops, strs = ['parse', 'eval', 'evalmiss', 'evalnosuffix'], STRINGS_Q
        else:
            ops, strs = ['parse', 'eval', 'evalmiss', 'evalnosuffix', 'grade', 'dep'], STRINGS_T
        evs = [(op, s) for s in strs for op in ops]
        # evaluation variants whose outcome depends on something other than the names in scope: array-valued variables,
        # the array-dimension limit, allow_inf
        for s2 in ARRAY_STRS:
            for op in ['parse', 'eval', 'evalarr', 'evaldim1', 'evalinf']:
                if (op, s2) not in evs:
                    evs.append((op, s2))
        if self.mode == 'grading':
            # grading (a consumer of the reported names, and of process-wide floating-point error handling) on a small
            # alphabet of its own, so that the product with the main alphabet is not explored
            evs = []
            for s2 in GRADE_STRS:
                for op in ['parse', 'eval', 'grade']:
                    evs.append((op, s2))
        return evs

    def build(self, hist):
        # whatever earlier histories of this worker left in module-level / class-level containers or function caches of the
        # library is undone first, so that a deviation is attributed to the history that causes it
        libstate.restore_library_state()
        ctx = ParserCtx()
        ctx.parser = X.MathParser()
        X.PARSER = ctx.parser
        ctx.obs = [observe_call(op, s) for (op, s) in hist]
        return ctx

    def state_key(self, ctx):
        p = ctx.parser
        # every attribute of a cached expression except its parse tree is part of the state (anything a later
        # edit memoises on the shared object then distinguishes states instead of being merged away)
        from ..canon import canon as _canon
        cache = tuple(sorted((k, _canon({a: b for a, b in vars(v).items() if a != 'tree'}) if is_expression(v)
                              else ('not-an-expression', type(v).__name__, str(v))) for k, v in p.cache.items()))
        other = _canon({a: b for a, b in vars(p).items() if a not in ('cache', 'grammar')})
        # process-wide memory outside the parser (module-level containers, function caches) is part of the state too
        return (cache, other, libstate.library_state_diff(_canon))

    def fresh_obs(self, ev):
        if ev not in self.fresh:
            with libstate.pristine_library():
                X.PARSER = X.MathParser()
                self.fresh[ev] = observe_call(*ev)
        return self.fresh[ev]

    def check_transition(self, hist, ev, ctx):
        exp = self.fresh_obs(ev)
        X.PARSER = ctx.parser
        got = ctx.obs[-1]
        if got != exp:
            return viol('history:%s-differs-from-fresh-parser' % ev[0],
                        '%s(%r) after %d earlier calls gives %r; a fresh parser gives %r' % (ev[0], ev[1], len(hist), got, exp),
                        exp, got)
        return None

    def invariant(self, ctx):
        p = ctx.parser
        if p.variables_used or p.functions_used or p.suffixes_used:
            return viol('history:scratch-sets-not-empty', 'scratch sets not empty after a call: %r %r %r'
                        % (p.variables_used, p.functions_used, p.suffixes_used))
        for k, v in p.cache.items():
            if not is_expression(v):
                continue        # something else remembered under this key: judged through the observations
            try:
                _, rv, rf, rs = R.parse(k)
            except R.RefParseError:
                return viol('history:invalid-string-cached', 'cache holds %r which is outside the grammar' % k)
            if sets_of(v) != (rv, rf, rs):
                return viol('history:cached-sets-corrupted',
                            'cached expression %r has sets %r, by construction %r'
                            % (k, [sorted(x) for x in sets_of(v)], [sorted(x) for x in (rv, rf, rs)]))
        return None


def families(tier):
    return [
        NameSets('name_tokens', NAME_TOKENS, {'quick': 4, 'thorough': 5}),
        NameSets('brace_tokens', BRACE_TOKENS, {'quick': 5, 'thorough': 6}),
        ExtraNames(),
        ParserHistory(),
        ParserHistory('grading'),
    ]
