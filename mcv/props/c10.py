"""
C10 -- reported name usage is exact; parsing is independent of parse history.

ENUM: for every string of the token families the variable / function / suffix sets
reported by parse() and by evaluator()[1] are compared with the sets the reference
parser derives by construction; for generated derivations (a name at a known position,
used as a known kind) with the sets the generator knows without any parser.  Every
accepted string is also pushed through the consumers of the names: the scope check (each
kind of name in turn defined only as the OTHER kinds must be refused under the right
kind), get_used_vars (alone, among blank entries, and in pairs), DependentSampler.
BFS: the shared parser (a fresh MathParser installed as expressions.PARSER for every
history) is driven through every sequence of parse / evaluate / consumer calls over a
string alphabet that includes malformed strings, to closure of its canonical state;
every observation is compared with what a brand-new parser gives for the same call and
every cached expression's sets with the by-construction sets.  Separate small searches
(own alphabets, so that no product is explored) cover grading, evaluation scopes that
differ in exactly one respect (values / function objects / suffix multipliers / kinds /
defaults / array limit), and consumers that combine the names of several strings
(SumGrader limits + summand, expression lists, dependent samplers).
"""
import itertools
import math
from ..core import Family, Result, viol, HarnessError
from ..bfs import BFSFamily
from ..refs import expr as R
from .. import chooser
from .. import libstate

import mitxgraders.helpers.calc.expressions as X
from mitxgraders.helpers.calc import exceptions as CE
from mitxgraders.exceptions import MITxError
from mitxgraders import FormulaGrader, MatrixGrader, DependentSampler, SumGrader

EXTRA_HASH_SEEDS = {'thorough': ('1',)}           # name sets: their iteration order feeds messages and sampling order
PROPERTY = 'C10'
RULE = ('ENUM: every concatenation of tokens up to a length bound over alphabets rich in confusable names, number '
        'spellings and operators; every single term and pair of terms of a derivation generator with by-construction name '
        'sets; non-trivial = string in the language with at least one name or suffix. BFS: all call histories over '
        '(operation x string) events on one shared parser to closure; state = cache keys with their three '
        'sets + scratch sets')
EXPLANATION = ('states = distinct strings (ENUM) / distinct canonical parser states (BFS); transitions = real '
               'parse/evaluator/grader calls; the implementation itself is explored, no separate model')
ASSUMPTIONS = ['name sets by construction come from the reference parser mcv/refs/expr.py',
               'parser state that matters = cache contents + the three scratch sets (+ max_array_dim_used)',
               'pyparsing internal memoisation is not enabled by the library (packrat off)',
               'an undefined number suffix is reported with the error class of an undefined function (as the reference '
               'model mcv/refs/expr.py states); error wording is not constrained beyond naming every offending name in quotes',
               'IntegralGrader is not driven (scipy is absent from the environment); SumGrader shares its name-combining code']

NAME_TOKENS = ['2', 'x', 'y', 'f', 'e', 'k', '_', "'", '+', '*', '^', '-', '(', ')', '[', ']', ',']
BRACE_TOKENS = ['a', 'b', '1', '_{', '^{', '}', "'", '+', '(', ')', '-', '_']
# numbers in every spelling (decimal point, e/E exponents, percent and letter suffixes) next to the operators and the
# separators the other alphabets lack: division, the two-character parallel operator, the em-dash minus, a tab
OPERATOR_TOKENS = ['2', '.', 'e', 'E', '%', 'k', 'x', '+', '-', '\u2014', '/', '|', '\t']


def sets_of(parsed):
    return (set(parsed.variables_used), set(parsed.functions_used), set(parsed.suffixes_used))


def is_expression(obj):
    return all(hasattr(obj, a) for a in ('variables_used', 'functions_used', 'suffixes_used'))


def anyfunc(*args):
    return 1.25


anyfunc.validated = True


class NameSets(Family):
    timeout = 20.0

    def __init__(self, name, tokens, maxlen):
        self.name = name
        self.tokens = tokens
        self.maxlen = maxlen
        self.rule = ('every concatenation of 1..%s tokens from %s; parse(s) sets and evaluator(s, full scope)[1] '
                     'sets vs by-construction sets; non-trivial = in the language and uses a name or suffix'
                     % (maxlen, tokens))

    def setup(self, tier):
        self.n = 0

    def isolate(self):
        X.PARSER = X.MathParser()

    def cases(self, tier):
        n = self.maxlen[tier]
        idx = range(len(self.tokens))
        for L in range(1, n + 1):
            for tup in itertools.product(idx, repeat=L):
                yield tup

    def describe(self, case):
        return ''.join(self.tokens[i] for i in case)

    def check(self, case):
        s = ''.join(self.tokens[i] for i in case)
        return judge_names(self, s)


def judge_names(fam, s, constructed=None):
    """constructed: the (variables, functions, suffixes) a generated derivation has by construction; they then replace
    the sets of the reference parser as the expectation (the reference parser must agree: anything else is a defect of
    the generator or of the reference, a harness error)"""
    fam.n += 1
    if fam.n % 20000 == 0:
        X.PARSER = X.MathParser()
    try:
        ast, rv, rf, rs = R.parse(s)
        if constructed is not None:
            if (rv, rf, rs) != tuple(constructed):
                raise HarnessError('derivation %r: by construction %r, reference parser %r' % (s, constructed, (rv, rf, rs)))
            rv, rf, rs = constructed
    except R.RefParseError:
        if constructed is not None:
            raise HarnessError('derivation %r is rejected by the reference parser' % s)
        try:
            X.parse(s)
        except (CE.UnableToParse, CE.UnbalancedBrackets):
            return Result('reject', False)
        except Exception as e:
            return Result('parse-raised', True, viol('names:parse-raises-%s' % type(e).__name__,
                                                     'parse(%r) raised %r' % (s, e)))
        return Result('accepts-invalid', True, viol('names:accepts-invalid', '%r outside the grammar was parsed' % s))
    try:
        p = X.parse(s)
    except Exception as e:
        return Result('rejects-valid', True, viol('names:rejects-valid', 'parse(%r) raised %r' % (s, e)))
    got = sets_of(p)
    exp = (rv, rf, rs)
    nontriv = bool(rv or rf or rs)
    if got != exp:
        return Result('wrong-sets', nontriv,
                      viol('names:parse-sets-differ', 'parse(%r): variables/functions/suffixes %r, expected %r'
                           % (s, [sorted(x) for x in got], [sorted(x) for x in exp]),
                           [sorted(x) for x in exp], [sorted(x) for x in got]), 1)
    # through evaluator with a scope in which every name exists
    V = {v: 1.5 for v in rv}
    F = {f: anyfunc for f in rf}
    S = {x: 2.0 for x in rs}
    try:
        _val, meta = X.evaluator(s, V, F, S)
        got2 = (set(meta.variables_used), set(meta.functions_used), set(meta.suffixes_used))
        if got2 != exp:
            return Result('wrong-sets', nontriv,
                          viol('names:evaluator-sets-differ', 'evaluator(%r)[1] reports %r, expected %r'
                               % (s, [sorted(x) for x in got2], [sorted(x) for x in exp]),
                               [sorted(x) for x in exp], [sorted(x) for x in got2]), 2)
    except MITxError:
        pass        # arithmetic / shape errors: no metadata to compare
    except Exception as e:
        pass        # raw failures on odd array arithmetic are C02's business
    # consumer: the variables a grader collects from a list of expressions (numbered / sibling variable discovery);
    # blank entries of every documented kind (None, empty, spaces only, other whitespace only) are skipped
    try:
        used = set(FormulaGrader.get_used_vars([None, s, '', '  ', '\t']))
    except Exception as e:
        return Result('consumer-raised', nontriv, viol('names:get_used_vars-raises', 'get_used_vars([%r]) raised %r' % (s, e)), 3)
    if used != rv:
        return Result('wrong-sets', nontriv,
                      viol('names:get_used_vars-differs', 'get_used_vars([%r]) = %r, expected %r' % (s, sorted(used), sorted(rv)),
                           sorted(rv), sorted(used)), 3)
    calls = 3
    if nontriv:
        v, n = judge_consumers(s, rv, rf, rs, getattr(fam, 'all_depends_spellings', False))
        calls += n
        if v is not None:
            return Result('consumer-wrong', True, v, calls)
    # the object returned for an accepted string must keep its sets when the parser is used again
    X.parse('q_1+g(2z)')
    if sets_of(p) != exp:
        return Result('aliased', nontriv,
                      viol('names:sets-change-after-later-parse',
                           'sets of parse(%r) changed after parsing another string: %r' % (s, [sorted(x) for x in sets_of(p)])))
    return Result('v%d f%d s%d' % (len(rv), len(rf), len(rs)), nontriv, None, calls)


KINDS = (('variable', 0, CE.UndefinedVariable), ('function', 1, CE.UndefinedFunction), ('suffix', 2, CE.UndefinedFunction))


def judge_consumers(s, rv, rf, rs, all_spellings=False):
    """
    The reported names under the kind they were used as, seen through their consumers:
      * the scope check: for each kind in turn, a scope in which the names used as that kind are absent from the
        dictionary of that kind but present in BOTH other dictionaries (and every other name is present everywhere)
        must be refused with the error of that kind, naming every one of them;
      * DependentSampler: the inferred dependencies are exactly the variables (whatever was passed as `depends`:
        documented as ignored).
    Returns (violation or None, number of calls).
    """
    sets3 = (rv, rf, rs)
    allnames = rv | rf | rs
    calls = 0
    for kind, k, exc in KINDS:
        missing = sets3[k]
        if not missing:
            continue
        scope = []
        for j in range(3):
            names = allnames if j != k else (allnames - missing)
            scope.append({n: (anyfunc if j == 1 else 1.5) for n in names})
        calls += 1
        try:
            X.evaluator(s, scope[0], scope[1], scope[2])
        except exc as e:
            msg = str(e)
            absent = [n for n in sorted(missing) if ("'%s'" % n) not in msg]
            if absent:
                return viol('names:scope-error-omits-name',
                            'evaluator(%r) with the %s name(s) %r undefined: the error %r does not name %r'
                            % (s, kind, sorted(missing), msg, absent)), calls
            continue
        except Exception as e:
            return viol('names:scope-check-wrong-kind',
                        'evaluator(%r) with %r defined as everything but a %s raised %s(%s), expected %s'
                        % (s, sorted(missing), kind, type(e).__name__, e, exc.__name__)), calls
        return viol('names:scope-check-passes-wrong-kind',
                    'evaluator(%r) succeeded although %r are not defined as %s (only as the other kinds)'
                    % (s, sorted(missing), kind)), calls
    for given in ((None, [], ['zz']) if all_spellings else (None,)):
        calls += 1
        try:
            d = DependentSampler(formula=s) if given is None else DependentSampler(depends=list(given), formula=s)
            dep = d.config['depends']
        except Exception as e:
            return viol('names:dependent-sampler-raises', 'DependentSampler(depends=%r, formula=%r) raised %r' % (given, s, e)), calls
        if sorted(dep) != sorted(rv):
            return viol('names:dependent-sampler-depends-differ',
                        'DependentSampler(depends=%r, formula=%r) depends on %r, the variables are %r'
                        % (given, s, sorted(dep), sorted(rv)), sorted(rv), sorted(dep)), calls
    return None, calls


EXTRA = ['a', 'ab', 'a_b', 'a+ab', 'ab+a', 'sin', 'sin+sin(x)', 'x(2)+x', "x'", "x''", "x'+x''+x", 'a_{1}', 'a_{1}^{2}',
         'a_{1}+a_{1}^{2}+a', '2e', '2e3k', '2k', '2e+e', '2e+2', '2ek', '2e2e', '[a,b]', '[a,[b]]', '2^a', '2^-a^b',
         'f(g(h))', 'f(g,h(i))', 'f(x)+f', '[f(x),x(f)]', '2k+k', '2%+3%', '1%k', 'e1+1e', 'E+1E1', 'x1+1x', '1x1',
         'T_{ij}^{kl}', "f'(x')", "f_1(f_1)", 'a_1_2', 'a__1', '3a_1', 'pi', '2pi', 'pi2', 'x+\ty', 'x y', 'sin (x)',
         'sin\t(x)', '2 k', '2\tk']


class ExtraNames(Family):
    name = 'confusable_names'
    all_depends_spellings = True       # DependentSampler also with depends=[] and depends=[an unrelated name]
    rule = 'a fixed table of %d confusable-name strings, each alone and joined pairwise with + and *' % len(EXTRA)

    def setup(self, tier):
        self.n = 0

    def isolate(self):
        X.PARSER = X.MathParser()

    def cases(self, tier):
        for i in range(len(EXTRA)):
            yield (i,)
        for i in range(len(EXTRA)):
            for j in range(len(EXTRA)):
                for o in range(2):
                    yield (i, j, o)

    def describe(self, case):
        if len(case) == 1:
            return EXTRA[case[0]]
        return EXTRA[case[0]] + '+*'[case[2]] + EXTRA[case[1]]

    def check(self, case):
        res = judge_names(self, self.describe(case))
        if len(case) == 3 and res.violation is None:
            v = judge_collection(EXTRA[case[0]], EXTRA[case[1]])
            if v is not None:
                return Result('collection-wrong', True, v, res.calls + 3)
        return res


def judge_collection(s1, s2):
    """
    The variables a grader collects from SEVERAL expressions at once are the union of the variables of each (unparseable
    members: the error; not judged here), and collecting leaves the sets of every member's parsed expression untouched.
    """
    try:
        _, v1, f1, x1 = R.parse(s1)
        _, v2, f2, x2 = R.parse(s2)
    except R.RefParseError:
        return None
    p1, p2 = X.parse(s1), X.parse(s2)
    try:
        used = FormulaGrader.get_used_vars([s1, s2])
        used_d = FormulaGrader.get_used_vars({'a': s2, 'b': s1}.values())
    except Exception as e:
        return viol('names:get_used_vars-raises', 'get_used_vars([%r, %r]) raised %r' % (s1, s2, e))
    if set(used) != (v1 | v2) or set(used_d) != (v1 | v2):
        return viol('names:get_used_vars-differs', 'get_used_vars([%r, %r]) = %r / reversed %r, expected %r'
                    % (s1, s2, sorted(used), sorted(used_d), sorted(v1 | v2)), sorted(v1 | v2), sorted(used))
    if sets_of(p1) != (v1, f1, x1) or sets_of(p2) != (v2, f2, x2) or sets_of(X.parse(s1)) != (v1, f1, x1) \
            or sets_of(X.parse(s2)) != (v2, f2, x2):
        return viol('names:sets-change-after-collection',
                    'after get_used_vars([%r, %r]) the parsed expressions report %r and %r'
                    % (s1, s2, [sorted(x) for x in sets_of(X.parse(s1))], [sorted(x) for x in sets_of(X.parse(s2))]))
    return None


# --------------------------------------------------------------------------- generated derivations

# where a name can occur: every wrapper is a derivation of the grammar around one atom A (none begins with a digit or a sign, so
# that an atom ending in a suffix letter e/E in front of it can only turn into an exponent where Derivations.build says so)
POSITIONS = [('top', '%s', None), ('parenthesised', '(%s)', None), ('argument', 'g(%s)', 'g'), ('second argument', 'g(1,%s)', 'g'),
             ('array entry', '[1,%s]', None), ('nested array entry', '[[%s,1],[2,3]]', None), ('exponent', '(2)^%s', None),
             ('negative exponent', '(2)^-%s', None), ('base', '%s^2', None), ('denominator', '(1)/%s', None),
             ('parallel operand', '(1)||%s', None), ('after a tab', '(1)*\t%s', None)]
ATOM_KINDS = [('variable', '%s'), ('function', '%s(1)'), ('suffix', '3%s')]
# names confusable with each other, with the wrapper function g, with functions / constants of the library and with exponents
DERIV_NAMES = ['a', 'ab', 'g', 'e', 'E', 'a_b', "a'", 'a_{1}^{2}', 'sin']
DERIV_SUFFIXES = ['a', 'ab', 'g', 'e', 'E', 'k', '%', 'ea', 'sin']        # a suffix is letters / percent signs only
JOINS = ['+', '*', '-', '/']


def deriv_term(pos, kind, name_index):
    """(text, variables, functions, suffixes) of one term, by construction"""
    _, wrapper, extra_func = POSITIONS[pos]
    name = (DERIV_SUFFIXES if kind == 2 else DERIV_NAMES)[name_index]
    sets3 = [set(), set(), set()]
    sets3[kind].add(name)
    if extra_func:
        sets3[1].add(extra_func)
    return (wrapper % (ATOM_KINDS[kind][1] % name),) + tuple(sets3)


class Derivations(Family):
    name = 'derivations'
    timeout = 20.0
    rule = ('generated derivations whose name sets are known BY CONSTRUCTION (not from the reference parser): one term = a name '
            'from %r (suffixes: %r) used as variable / called function / number suffix at one of %d positions %r; every single '
            'term, and every pair of terms joined by + * - / (quick: first name a, second a or ab; thorough: all name pairs); '
            'same judgement as the token families' % (DERIV_NAMES, DERIV_SUFFIXES, len(POSITIONS), [p[0] for p in POSITIONS]))

    def setup(self, tier):
        self.n = 0

    def isolate(self):
        X.PARSER = X.MathParser()

    def cases(self, tier):
        P, K, N = range(len(POSITIONS)), range(3), range(len(DERIV_NAMES))
        for p in P:
            for k in K:
                for n in N:
                    yield (p, k, n)
        n1s, n2s = ((0,), (0, 1)) if tier == 'quick' else (N, N)
        j = 0
        for p1 in P:
            for k1 in K:
                for n1 in n1s:
                    for p2 in P:
                        for k2 in K:
                            for n2 in n2s:
                                j += 1
                                yield (p1, k1, n1, p2, k2, n2, j % len(JOINS))

    def build(self, case):
        case = tuple(case)
        t1 = deriv_term(*case[:3])
        if len(case) == 3:
            return t1[0], t1[1:]
        t2 = deriv_term(*case[3:6])
        text = t1[0] + JOINS[case[6]] + t2[0]
        sets3 = [t1[i] | t2[i] for i in (1, 2, 3)]
        if (case[1] == 2 and DERIV_SUFFIXES[case[2]] in ('e', 'E') and POSITIONS[case[0]][1].endswith('%s')
                and JOINS[case[6]] in '+-' and case[4] == 2 and POSITIONS[case[3]][1].startswith('%s')):
            # the one documented ambiguity: <digits>e, a sign, <digits> is ONE number with an exponent ('3e-3ea' is 3e-3 with
            # the suffix ea), so the first term's suffix letter e is no suffix here
            sets3[2] = set(t2[3])
        return text, tuple(sets3)

    def describe(self, case):
        return self.build(case)[0]

    def check(self, case):
        text, constructed = self.build(case)
        return judge_names(self, text, constructed)


# --------------------------------------------------------------------------- history search

DEEP = 'f(y)+2k+' + '(' * 150 + '1' + ')' * 150       # balanced, but too deep for the recursive grammar
STRINGS_Q = ['x+y', 'x + y', 'X+y', 'f(x)', 'x', '2k', 'x+', 'f(x', '2x(', 'x y', 'x\ty', 'x +', DEEP,
             'f(y))+2k', '[f(y), 2k)']      # closer never opened / opener closed by the wrong kind, both after names
STRINGS_T = STRINGS_Q + ['x+\ty', 'f', 'sin(x)+sin(y)', '(x))', '']
FULL_V = {'x': 2.0, 'y': 3.0, 'X': 5.0, 'f': 7.0, 'xy': 11.0}
FULL_F = {'f': lambda t: t + 1, 'sin': math.sin}


def _full_f():
    from mitxgraders.helpers.calc.mathfuncs import DEFAULT_FUNCTIONS
    d = dict(FULL_F)
    d['ln'] = DEFAULT_FUNCTIONS['ln']
    return d
FULL_S = {'k': 1000.0}
MISS_V = {'x': 2.0}
ARRAY_STRS = ['[x, y]', '1e999', 'x+y', 'x']       # the strings on which the array / infinity variants of eval are explored
GRADE_STRS = ['f(x)', 'x+y', '[[1,2],[2,4]]^-1', 'ln(0)+[1,2]/0']     # graded in the quick tier too (see events)


# the 'scopes' search: one string per kind mix, evaluated in scopes that differ in ONE respect from the reference scope
# (V2, F2, S2): other values for the same variable names / other functions under the same names / other multipliers
# for the same suffixes / the same names under the wrong kinds / the library's default scope / no arrays allowed
SCOPE_STRS = ['f(x)+2k', 'sin(e)+2%', '[2k, 1/(x-2)]']      # the last one divides by zero at x = 2 (reference scope) only
SCOPE_OPS = ['parse', 'eval2', 'evalaltv', 'evalaltf', 'evalalts', 'evalswap', 'evaldef', 'evaldim0', 'evalnosuffix']
V2 = dict(FULL_V, e=math.e)
F2 = dict(FULL_F)
S2 = {'k': 1000.0, '%': 0.01}
ALT_V = {'x': -4.0, 'y': 0.5, 'X': 1.5, 'f': -2.0, 'xy': 0.25, 'e': 3.0}
ALT_F = {'f': lambda t: 10 * t, 'sin': lambda t: t - 1}
ALT_S = {'k': 0.001, '%': 0.5}
SWAP_V = {'f': 7.0, 'sin': 1.0, 'k': 2.0, '%': 1.0}
SWAP_F = {'x': anyfunc, 'e': anyfunc, 'k': anyfunc}
SWAP_S = {'x': 1.0, 'e': 1.0, 'f': 2.0, 'sin': 1.0}

# the 'consumers' search: graders and samplers that combine the names of SEVERAL strings (limits and summand of a
# SumGrader with a blacklisted function; expression lists; dependent samplers)
SUM_INPUTS = [['f(0)', '3', 'n'], ['1', '3', 'n+sin(0)'], ['cos(0)', '3', 'n']]
CONSUMER_STRS = ['f(0)', 'n+sin(0)']
NEGPOW = '[[1,2],[3,4]]^-1'        # its value exists only while negative matrix powers are switched on (the default)


def ARR_V():
    from mitxgraders.helpers.calc.math_array import MathArray
    return {'x': MathArray([1.0, 2.0]), 'y': MathArray([3.0, 4.0]), 'X': 5.0, 'f': 7.0, 'xy': 11.0}


def _meta(m):
    return (sorted(m.variables_used), sorted(m.functions_used), sorted(m.suffixes_used), getattr(m, 'max_array_dim_used', None))


class ParserCtx(object):
    pass


# process-wide switches kept as plain class attributes of library classes (found generically, never by name): pristine
# values, taken once per process before the first history
_SWITCHES = {}


def _switches():
    if not _SWITCHES:
        _SWITCHES['classes'] = libstate.library_classes()
        _SWITCHES['pristine'] = libstate.class_scalars(_SWITCHES['classes'])
    return _SWITCHES


def restore_switches(snap=None):
    sw = _switches()
    libstate.restore_class_scalars(sw['pristine'] if snap is None else snap, sw['classes'])


def switches_diff():
    sw = _switches()
    now = libstate.class_scalars(sw['classes'])
    return tuple(sorted((k, repr(v)) for k, v in now.items() if sw['pristine'].get(k, libstate._MISSING) != v)) \
        + tuple(sorted((k, 'removed') for k in sw['pristine'] if k not in now))


# the scope dictionaries handed to the library by the events: a call must leave them as they were (a later call with the
# same dictionary object would otherwise see another scope than a first call does)
def _scope_dicts():
    return {'FULL_V': FULL_V, 'FULL_F': FULL_F, 'FULL_S': FULL_S, 'MISS_V': MISS_V, 'V2': V2, 'F2': F2, 'S2': S2, 'ALT_V': ALT_V,
            'ALT_F': ALT_F, 'ALT_S': ALT_S, 'SWAP_V': SWAP_V, 'SWAP_F': SWAP_F, 'SWAP_S': SWAP_S}


_SCOPES0 = {}


def scopes_changed():
    """names of the scope dictionaries a call changed (they are put back)"""
    if not _SCOPES0:
        _SCOPES0.update({k: dict(d) for k, d in _scope_dicts().items()})
    changed = []
    for k, d in _scope_dicts().items():
        if d != _SCOPES0[k]:
            changed.append((k, sorted(set(d) ^ set(_SCOPES0[k]))))
            d.clear()
            d.update(_SCOPES0[k])
    return changed


def observe_call(op, s):
    """Executes one event against the currently installed shared parser; returns a comparable observation."""
    scopes_changed()
    obs = _observe_call(op, s)
    changed = scopes_changed()
    if changed:
        return ('SCOPE-CHANGED', changed, obs)
    return obs


def _observe_call(op, s):
    try:
        if op == 'parse':
            p = X.parse(s)
            return ('sets', tuple(sorted(map(str, x)) for x in map(tuple, sets_of(p))))
        if op == 'eval':
            v, m = X.evaluator(s, FULL_V, _full_f(), FULL_S, max_array_dim=2)
            return ('val', repr(v)) + _meta(m)
        if op == 'evalarr':
            v, m = X.evaluator(s, ARR_V(), _full_f(), FULL_S, max_array_dim=2)       # x, y vectors: [x, y] is a matrix
            return ('val', repr(v)) + _meta(m)
        if op == 'evaldim1':
            v, m = X.evaluator(s, FULL_V, _full_f(), FULL_S, max_array_dim=1)        # scalars, vectors allowed, matrices not
            return ('val', repr(v)) + _meta(m)
        if op == 'evalinf':
            v, m = X.evaluator(s, FULL_V, _full_f(), FULL_S, allow_inf=True)
            return ('val', repr(v)) + _meta(m)
        if op == 'evalnosuffix':
            v, m = X.evaluator(s, FULL_V, _full_f(), {})        # same names in scope, but no suffixes defined
            return ('val', repr(v)) + _meta(m)
        if op == 'evalmiss':
            v, m = X.evaluator(s, MISS_V, {}, {})
            return ('val', repr(v)) + _meta(m)
        if op == 'eval2':
            v, m = X.evaluator(s, V2, F2, S2, max_array_dim=2)
            return ('val', repr(v)) + _meta(m)
        if op == 'evalaltv':
            v, m = X.evaluator(s, ALT_V, F2, S2, max_array_dim=2)
            return ('val', repr(v)) + _meta(m)
        if op == 'evalaltf':
            v, m = X.evaluator(s, V2, ALT_F, S2, max_array_dim=2)
            return ('val', repr(v)) + _meta(m)
        if op == 'evalalts':
            v, m = X.evaluator(s, V2, F2, ALT_S, max_array_dim=2)
            return ('val', repr(v)) + _meta(m)
        if op == 'evalswap':
            v, m = X.evaluator(s, SWAP_V, SWAP_F, SWAP_S)        # every name defined, but never as the kind it is used as
            return ('val', repr(v)) + _meta(m)
        if op == 'evaldef':
            v, m = X.evaluator(s)                                  # every argument left at its default
            return ('val', repr(v)) + _meta(m)
        if op == 'evaldim0':
            v, m = X.evaluator(s, ALT_V, F2, S2, max_array_dim=0)  # the array string evaluates, and is then refused
            return ('val', repr(v)) + _meta(m)
        if op == 'sumg':
            def body(ch):
                g = SumGrader(answers={'lower': '1', 'upper': '3', 'summand': 'n', 'summation_variable': 'n'},
                              input_positions={'lower': 1, 'upper': 2, 'summand': 3},
                              variables=['x'], user_functions={'f': lambda t: t + 1}, blacklist=['cos'])
                return g(None, list(s))
            ch, out = chooser.run_with(body)
            return ('graded', repr(sorted(out.items())))
        if op == 'gradenoneg':
            def body(ch):
                # a grader that switches negative matrix powers off while it evaluates (a process-wide switch of the array class)
                g = MatrixGrader(answers='[[1,2],[3,4]]', negative_powers=False, max_array_dim=2, samples=1)
                return g(None, s)
            ch, out = chooser.run_with(body)
            return ('graded', out['ok'], out['grade_decimal'])
        if op == 'getvars':
            return ('vars', sorted(FormulaGrader.get_used_vars(list(s))))
        if op == 'grade':
            def body(ch):
                # every valid string of the alphabet is an accepted answer, so that the post-evaluation checks of a
                # correct submission run too
                g = MatrixGrader(answers=('x+y', 'f(x)', 'sin(x)+sin(y)', 'x', '2k', 'X+y', '[x, y]'),
                                 variables=['x', 'y', 'X'], user_functions={'f': lambda t: t + 1},
                                 metric_suffixes=True, samples=2, max_array_dim=2,
                                 answer_shape_mismatch={'is_raised': False})
                return g(None, s)
            ch, out = chooser.run_with(body)
            return ('graded', out['ok'], out['grade_decimal'])
        if op == 'dep':
            d = DependentSampler(formula=s)
            return ('depends', sorted(d.config['depends']),
                    repr(d.compute_sample({'x': 2.0, 'y': 3.0, 'X': 5.0, 'f': 7.0}, FULL_F, FULL_S)))
        raise HarnessError('unknown op ' + op)
    except HarnessError:
        raise
    except Exception as e:
        return ('raised', type(e).__name__, str(e))


class ParserHistory(BFSFamily):
    name = 'parser_history_bfs'
    depth_cap = 12
    level_sync = True
    timeout = 60.0
    rule = ('explicit-state search over call histories on one shared parser: events = {parse, eval (full scope), '
            'eval (scope lacking names)} [thorough: + FormulaGrader call, DependentSampler construction] + {eval with '
            'vector-valued variables, eval with max_array_dim=1, eval with allow_inf} on 4 strings incl. [x, y] and 1e999; x a string '
            'alphabet with valid, space-variant and malformed strings; to closure; transition oracle = same call on a '
            'brand-new parser; state invariant = scratch sets empty and cached sets equal by-construction sets')

    def __init__(self, mode='main'):
        self.mode = mode
        if mode == 'grading':
            self.name = 'parser_history_grading_bfs'
            self.rule = ('explicit-state search over call histories on the shared parser: events = {parse, eval, grade with a '
                         'MatrixGrader that accepts the string} x %r; to closure; transition oracle = same call on a brand-new '
                         'parser in the pristine library state' % (GRADE_STRS,))
        if mode == 'scopes':
            self.name = 'parser_history_scopes_bfs'
            self.rule = ('explicit-state search over call histories on the shared parser: events = %r x %r (scopes that '
                         'differ from one reference scope in the VALUES of the variables only / the function OBJECTS only / '
                         'the suffix multipliers only / the KIND under which each name is defined / all-default arguments / '
                         'max_array_dim=0); to closure; transition oracle = same call on a brand-new parser'
                         % (SCOPE_OPS, SCOPE_STRS))
        if mode == 'switches':
            self.name = 'parser_history_switches_bfs'
            self.rule = ('explicit-state search over call histories: the negative matrix power %r parsed, evaluated directly, graded '
                         'by a MatrixGrader with negative_powers=False (refused: the call raises while the process-wide switch of '
                         'the array class is off) and by one with the default; to closure; state includes every scalar class '
                         'attribute of the library; transition oracle = same call in the pristine process state' % NEGPOW)
        if mode == 'consumers':
            self.name = 'parser_history_consumers_bfs'
            self.rule = ('explicit-state search over call histories on the shared parser: events = SumGrader call (limits + '
                         'summand, a blacklisted function) on %r, get_used_vars of a pair, DependentSampler, parse, eval on %r; '
                         'to closure; transition oracle = same call on a brand-new parser; state invariant = cached sets equal '
                         'by-construction sets' % (SUM_INPUTS, CONSUMER_STRS))

    def setup(self, tier):
        self.tier = tier
        self.fresh = {}
        libstate.ensure_snapshot()
        _switches()

    def events(self, tier):
        if tier == 'quick':
            ops, strs = ['parse', 'eval', 'evalmiss', 'evalnosuffix'], STRINGS_Q
        else:
            ops, strs = ['parse', 'eval', 'evalmiss', 'evalnosuffix', 'grade', 'dep'], STRINGS_T
        evs = [(op, s) for s in strs for op in ops]
        # evaluation variants whose outcome depends on something other than the names in scope: array-valued variables,
        # the array-dimension limit, allow_inf
        for s2 in ARRAY_STRS:
            for op in ['parse', 'eval', 'evalarr', 'evaldim1', 'evalinf']:
                if (op, s2) not in evs:
                    evs.append((op, s2))
        if self.mode == 'grading':
            # grading (a consumer of the reported names, and of process-wide floating-point error handling) on a small
            # alphabet of its own, so that the product with the main alphabet is not explored
            evs = []
            for s2 in GRADE_STRS:
                for op in ['parse', 'eval', 'grade']:
                    evs.append((op, s2))
        if self.mode == 'scopes':
            deep = tier != 'quick'
            evs = [(op, s2) for s2 in SCOPE_STRS + (['x', '2k+x'] if deep else [])
                   for op in SCOPE_OPS + (['evalmiss', 'evalinf'] if deep else [])]
        if self.mode == 'consumers':
            deep = tier != 'quick'
            evs = [(op, s2) for s2 in CONSUMER_STRS + (['3'] if deep else []) for op in ['parse', 'eval', 'dep']]
            evs += [('sumg', tuple(t)) for t in SUM_INPUTS + ([['1', 'f(2)', 'n']] if deep else [])]
            evs += [('getvars', tuple(CONSUMER_STRS)), ('getvars', tuple(reversed(CONSUMER_STRS)))]
        if self.mode == 'switches':
            evs = [('parse', NEGPOW), ('eval', NEGPOW), ('gradenoneg', NEGPOW), ('gradenoneg', '[[1,2],[3,4]]'), ('grade', NEGPOW)]
        return evs

    def build(self, hist):
        # whatever earlier histories of this worker left in module-level / class-level containers or function caches of the
        # library is undone first, so that a deviation is attributed to the history that causes it
        libstate.restore_library_state()
        restore_switches()
        ctx = ParserCtx()
        ctx.parser = X.MathParser()
        X.PARSER = ctx.parser
        ctx.obs = [observe_call(op, s) for (op, s) in hist]
        return ctx

    def state_key(self, ctx):
        p = ctx.parser
        # every attribute of a cached expression except its parse tree is part of the state (anything a later
        # edit memoises on the shared object then distinguishes states instead of being merged away)
        from ..canon import canon as _canon
        cache = tuple(sorted((k, _canon({a: b for a, b in vars(v).items() if a != 'tree'}) if is_expression(v)
                              else ('not-an-expression', type(v).__name__, str(v))) for k, v in p.cache.items()))
        other = _canon({a: b for a, b in vars(p).items() if a not in ('cache', 'grammar')})
        # process-wide memory outside the parser (module-level containers, function caches) is part of the state too
        return (cache, other, libstate.library_state_diff(_canon), switches_diff())

    def fresh_obs(self, ev):
        if ev not in self.fresh:
            sw = _switches()
            current = libstate.class_scalars(sw['classes'])
            with libstate.pristine_library():
                restore_switches()
                try:
                    X.PARSER = X.MathParser()
                    self.fresh[ev] = observe_call(*ev)
                finally:
                    restore_switches(current)
        return self.fresh[ev]

    def check_transition(self, hist, ev, ctx):
        exp = self.fresh_obs(ev)
        X.PARSER = ctx.parser
        got = ctx.obs[-1]
        if got and got[0] == 'SCOPE-CHANGED':
            return viol('history:%s-changes-the-scope-passed-in' % ev[0],
                        '%s(%r) changed the scope dictionaries it was given: %r' % (ev[0], ev[1], got[1]))
        if got != exp:
            return viol('history:%s-differs-from-fresh-parser' % ev[0],
                        '%s(%r) after %d earlier calls gives %r; a fresh parser gives %r' % (ev[0], ev[1], len(hist), got, exp),
                        exp, got)
        return None

    def invariant(self, ctx):
        p = ctx.parser
        if p.variables_used or p.functions_used or p.suffixes_used:
            return viol('history:scratch-sets-not-empty', 'scratch sets not empty after a call: %r %r %r'
                        % (p.variables_used, p.functions_used, p.suffixes_used))
        for k, v in p.cache.items():
            if not is_expression(v):
                continue        # something else remembered under this key: judged through the observations
            try:
                _, rv, rf, rs = R.parse(k)
            except R.RefParseError:
                return viol('history:invalid-string-cached', 'cache holds %r which is outside the grammar' % k)
            if sets_of(v) != (rv, rf, rs):
                return viol('history:cached-sets-corrupted',
                            'cached expression %r has sets %r, by construction %r'
                            % (k, [sorted(x) for x in sets_of(v)], [sorted(x) for x in (rv, rf, rs)]))
        return None


def families(tier):
    return [
        NameSets('name_tokens', NAME_TOKENS, {'quick': 4, 'thorough': 5}),
        NameSets('brace_tokens', BRACE_TOKENS, {'quick': 5, 'thorough': 6}),
        NameSets('operator_tokens', OPERATOR_TOKENS, {'quick': 4, 'thorough': 5}),
        ExtraNames(),
        Derivations(),
        ParserHistory(),
        ParserHistory('grading'),
        ParserHistory('scopes'),
        ParserHistory('consumers'),
        ParserHistory('switches'),
    ]
