"""
C09 -- restrictions on student formulas cannot be bypassed to obtain credit.

ENUM: restriction configurations x "cheating" formulas built as (correct answer) combined with a
neutralising context around a restricted construct x renderings with spaces, for Formula,
Numerical, Matrix and Sum graders and ordered lists with sibling references.  Controls (the clean
answer and clean rewrites, and author answers that use the restricted constructs) must earn the
configured credit, so the configurations are known not to reject everything.

Review round (families registered after sum_grader): partial verdicts that come from the COMPARER, look-alike function names
and author answers that break the rules themselves, more kinds of names (removed constants, non-suffixes, names of the
wrong kind, non-integer numbered indices), more sibling layouts, more SumGrader configurations and partial input layouts,
restricted graders inside list graders, and graders built / the same text graded earlier in the same process.
"""
import itertools
from ..core import Family, Result, viol, HarnessError
from .. import chooser
from .. import libstate

from mitxgraders import (FormulaGrader, NumericalGrader, MatrixGrader, SumGrader, ListGrader, DependentSampler, DiscreteSet,
                         RealInterval)
from mitxgraders.exceptions import InvalidInput, StudentFacingError, MITxError
from mitxgraders.helpers.calc.exceptions import UndefinedVariable, UndefinedFunction, CalcError

PROPERTY = 'C09'
libstate.ensure_snapshot()       # taken at import, before any grader has been built in this process
RULE = ('restriction configs x (correct answer combined with a neutral term using the restricted construct) x neutralising '
        'contexts x space renderings x answer credit {1, 0.5}; every cheat would earn credit if the restriction were ignored '
        '(it is numerically equal to the answer), so every cheat is non-trivial; controls must earn exactly the credit')
EXPLANATION = 'states = distinct (configuration, formula) cases; transitions = real grader calls'
ASSUMPTIONS = ['forbidden strings are compared ignoring spaces only (tabs/em-dashes are outside the statement)',
               'Sum graders: all four fields are entered by the student, or a subset with the restricted construct in a '
               'student-entered field (restrictions that hit author-fixed fields are outside the statement)',
               'RNG owned by the explorer with default answers (deterministic samples)',
               'IntegralGrader is not exercised: scipy is not installed in this environment (every call fails before grading)',
               'a SumGrader student may NAME the summation variable like an instructor-only sampled variable (the name is then '
               'bound by the sum; no value of the instructor variable is reachable): not judged',
               'hermetic families (registered after sum_grader) restore the library-level containers before every case and renew '
               'the process-wide parser at fixed case numbers; what must have happened earlier is part of the case itself',
               'ordered list whose FIRST answer references sibling_2: an undefined name typed into the second box must be an '
               'undefined-variable error too (found a genuine defect, repaired)']


def run(g, inp):
    def body(ch):
        try:
            return ('ok', g(None, inp))
        except Exception as e:
            return ('err', e)
    ch, out = chooser.run_with(body)
    return out


def contexts(A, R, matrix=False, userfn=None):
    """neutralising contexts: numerically equal to A but mentioning R"""
    out = [
        '%s+0*%s' % (A, R),
        '%s+%s-%s' % (A, R, R),
        '(%s)*(%s)^0' % (A, R),
        '%s+0*cos(%s)' % (A, R),
        '(%s)*2^(0*%s)' % (A, R),
        '0*%s+%s' % (R, A),
        '%s-0*(%s+1)' % (A, R),
        '%s+0/(2+(%s)^2)' % (A, R),
        '%s+0*abs(0*%s)' % (A, R),
    ]
    if matrix:
        out.append('%s+0*([%s,1]*[1,0])' % (A, R))
        out.append('%s+0*([0*%s,1]*[1,1])' % (A, R))
    if userfn:
        out.append('%s+0*%s(%s)' % (A, userfn, R))
    return out


def spaced(s):
    """renderings: plain, a space at every single position, spaces everywhere"""
    out = [s, ' '.join(s), ' ' + s + ' ']
    for i in range(1, len(s)):
        out.append(s[:i] + ' ' + s[i:])
    return out


FUNC_ERR = ('InvalidInput',)
UNDEF_ERR = ('UndefinedVariable', 'UndefinedFunction')


def classify(out, allowed, credit_forbidden=True):
    """returns (outcome, violation-tuple or None)"""
    if out[0] == 'ok':
        res = out[1]
        g = res.get('grade_decimal') if isinstance(res, dict) and 'grade_decimal' in res else None
        if g is None and isinstance(res, dict) and 'input_list' in res:
            g = max(e['grade_decimal'] for e in res['input_list'])
        return ('graded:%s' % ('credit' if g else 'zero')), ('credit' if g else 'zero', res)
    e = out[1]
    name = type(e).__name__
    names = [c.__name__ for c in type(e).__mro__]
    if any(n in names for n in allowed):
        return 'refused:' + name, None
    if not isinstance(e, MITxError):
        return 'raw:' + name, ('raw', repr(e))
    return 'other-error:' + name, ('wrongclass', repr(e))


def pristine_library():
    """library-level containers (class-level default dictionaries, module tables) back to their content at import time"""
    libstate.ensure_snapshot()
    for _name, obj, saved in libstate.LIB_STATE:
        try:
            same = (obj == saved)
        except Exception:
            same = False
        if not same:
            libstate.restore_library_state()
            return True
    return False


def fresh_parser():
    """a new process-wide formula parser (empty cache, empty scratch sets)"""
    from mitxgraders.helpers.calc import expressions as X
    X.PARSER = X.MathParser()


class Restriction(Family):
    """generic: a list of (label, grader factory, cheats, allowed error classes, controls, credit)"""
    timeout = 60.0
    EPOCH = 512          # hermetic families: the parser is renewed at every case whose number is in [512k, 512k + 16)

    def __init__(self, name, rule, builder, hermetic=False):
        self.name = name
        self.rule = rule
        self.builder = builder
        # hermetic: every case starts from the pristine library-level containers, and the process-wide parser is renewed when
        # a worker starts on the family and then at fixed case numbers (about every 32nd case of a worker), so that a verdict
        # never depends on what cases further back than that left behind (what a case needs to have happened before, it does
        # itself: `before`, `before_with`) and every violation can be replayed from its recent predecessors.  The older
        # families keep running in whatever the worker has accumulated.
        self.hermetic = hermetic

    def setup(self, tier):
        if self.hermetic:
            pristine_library()
            fresh_parser()
        self.items = self.builder(tier)
        self.control_for = {}
        for it in self.items:
            if it['kind'] == 'control' and it['label'] not in self.control_for:
                self.control_for[it['label']] = it

    def cases(self, tier):
        items = self.builder(tier)
        for i, it in enumerate(items):
            yield i

    def describe(self, case):
        it = self.items[case] if hasattr(self, 'items') else self.builder('thorough')[case]
        return {'config': it['label'], 'input': it['input'], 'kind': it['kind']}

    def check(self, case):
        it = self.items[case]
        where = '%s; input %r' % (it['label'], it['input'])
        if self.hermetic:
            pristine_library()
            if case % self.EPOCH < 16:
                fresh_parser()
        try:
            for other, pre in it.get('before_with', ()):
                og = other()                  # graders built (and used) earlier in the process must not matter either
                if pre is not None:
                    run(og, pre)
            g = it['grader']()
            pre_graders = [it['grader']() for pre in it.get('before', ())]
        except Exception as e:               # every configuration used here is valid by the documentation
            return Result('construction-raised', True,
                          viol(self.name + ':valid-configuration-refused-at-construction:' + (it['tag'] or it['kind']),
                               '%s: building the grader(s) raised %r' % (where, e), 'a grader', repr(e)[:300]))
        for pg, pre in zip(pre_graders, it.get('before', ())):
            run(pg, pre)                      # earlier submissions (whatever their outcome) must not matter
        out = run(g, it['input'])
        if it['kind'] == 'control':
            if out[0] != 'ok':
                return Result('control-raised', True,
                              viol(self.name + ':control-refused', '%s: a permitted answer was refused: %r' % (where, out[1]),
                                   it['credit'], repr(out[1])))
            res = out[1]
            g_ = res['grade_decimal'] if 'grade_decimal' in res else min(e['grade_decimal'] for e in res['input_list'])
            if abs(g_ - it['credit']) > 1e-9:
                return Result('control-wrong', True,
                              viol(self.name + ':control-wrong-credit', '%s: expected credit %r, got %r' % (where, it['credit'], res),
                                   it['credit'], res))
            return Result('control-credited', False)
        o, bad = classify(out, it['allowed'])
        if bad is None:
            # a refused submission must not poison later grading: the clean answer of this configuration (a fresh grader,
            # same process-wide parser) must still earn its credit right afterwards
            ctl = self.control_for.get(it['label'])
            if ctl is not None:
                try:
                    g_again = it['grader']()
                except Exception as e:
                    out2 = ('err', e)
                else:
                    out2 = run(g_again, ctl['input'])
                ok2 = out2[0] == 'ok'
                if ok2:
                    res2 = out2[1]
                    g2 = res2['grade_decimal'] if 'grade_decimal' in res2 else min(e['grade_decimal'] for e in res2['input_list'])
                    ok2 = abs(g2 - ctl['credit']) <= 1e-9
                if not ok2:
                    return Result('control-after-cheat-wrong', True,
                                  viol(self.name + ':clean-answer-refused-after-a-refused-cheat:' + it['tag'],
                                       '%s: after the refused input %r the clean answer %r no longer earns %r: %r'
                                       % (it['label'], it['input'], ctl['input'], ctl['credit'], out2[1]), ctl['credit'], repr(out2[1])[:300]), 2)
            return Result(o, True, None, 2)
        what, detail = bad
        if what == 'credit':
            sig = ':bypass-earned-credit'
        elif what == 'zero':
            sig = ':graded-instead-of-refused'
        elif what == 'raw':
            sig = ':raw-error'
        else:
            sig = ':wrong-error-class'
        return Result(o, True, viol(self.name + sig + ':' + it['tag'],
                                    '%s: expected a refusal (%s), got %s' % (where, '/'.join(it['allowed']), detail),
                                    it['allowed'], detail))


def mk(label, grader, inp, kind, allowed=None, credit=None, tag='', before=(), before_with=()):
    """before: earlier submissions to a grader of the same configuration; before_with: (factory, submission or None) pairs --
    OTHER graders that are built (and, with a submission, called) earlier in the same process"""
    return dict(label=label, grader=grader, input=inp, kind=kind, allowed=allowed, credit=credit, tag=tag, before=before,
                before_with=before_with)


# balanced, but too deep for the recursive grammar: fails inside the parser with a non-parse error (generic message)
DEEP = '(' * 150 + '1' + ')' * 150


def build_functions(tier):
    """blacklist / whitelist / whitelist=[None] / user function + blacklist, on Formula, Matrix, Numerical"""
    items = []
    for credit in (1, 0.5):
        ans = lambda e: {'expect': e, 'grade_decimal': credit}
        # Formula / Matrix with variable x
        for cls, clsname, matrix in ((FormulaGrader, 'FormulaGrader', False), (MatrixGrader, 'MatrixGrader', True)):
            A = '2*cos(x)+x'
            cfgs = [
                ('blacklist=[sin]', dict(blacklist=['sin']), ['sin(0)', 'sin(x)', 'sin(x+1)'], 'blacklist'),
                ('blacklist=[sin,tan,exp]', dict(blacklist=['sin', 'tan', 'exp']), ['tan(x)', 'exp(0)'], 'blacklist'),
                ('whitelist=[cos,abs]', dict(whitelist=['cos', 'abs']), ['sqrt(4)', 'sin(x)', 'exp(0)', 'sec(x)'], 'whitelist'),
                ('user h + blacklist=[sin]', dict(blacklist=['sin'], user_functions={'h': lambda t: t * t}), ['sin(x)'], 'blacklist'),
                ('user h + whitelist=[cos,abs]', dict(whitelist=['cos', 'abs'], user_functions={'h': lambda t: t * t}), ['sin(x)', 'sqrt(4)'],
                 'whitelist'),
                # a blacklisted name that the author has ALSO redefined as a user function (overriding the default) is still
                # forbidden to students
                ('user sin (overrides the default) + blacklist=[sin]',
                 dict(blacklist=['sin'], user_functions={'sin': lambda t: t * 0.5, 'h': lambda t: t * t}, suppress_warnings=True),
                 ['sin(0)', 'sin(x)'], 'blacklist'),
            ]
            for label, kw, Rs, tag in cfgs:
                uf = 'h' if ('user_functions' in kw and 'h' in kw['user_functions']) else None
                mkg = (lambda cls=cls, kw=kw, credit=credit: cls(answers={'expect': '2*cos(x)+x', 'grade_decimal': credit},
                                                                 variables=['x'], **kw))
                lab = '%s %s credit %r' % (clsname, label, credit)
                for ctrl in (A, 'x+cos(x)*2', '2*cos(x)+x+0*abs(x)') + (('2*cos(x)+x+0*h(x)',) if uf else ()):
                    items.append(mk(lab, mkg, ctrl, 'control', credit=credit))
                for R in Rs:
                    for cheat in contexts(A, R, matrix=matrix, userfn=uf):
                        for s in (spaced(cheat)[:3] if tier == 'quick' else spaced(cheat)[:3] + spaced(cheat)[3::7]):
                            items.append(mk(lab, mkg, s, 'cheat', FUNC_ERR, tag=tag))
            # author answers may use the restricted functions themselves
            mkg = (lambda cls=cls, credit=credit: cls(answers={'expect': 'sin(x)+2*cos(x)+x-sin(x)', 'grade_decimal': credit},
                                                      variables=['x'], blacklist=['sin']))
            items.append(mk('%s author answer uses blacklisted sin' % clsname, mkg, '2*cos(x)+x', 'control', credit=credit))
            mkg = (lambda cls=cls, credit=credit: cls(answers={'expect': 'sqrt(x^2)+cos(x)', 'grade_decimal': credit}, variables=['x'],
                                                      whitelist=['cos', 'abs'], sample_from={'x': [1, 3]}))
            items.append(mk('%s author answer uses non-whitelisted sqrt' % clsname, mkg, 'abs(x)+cos(x)', 'control', credit=credit))
            # whitelist=[None]
            mkg = (lambda cls=cls, credit=credit: cls(answers={'expect': '2*x+1', 'grade_decimal': credit}, variables=['x'],
                                                      whitelist=[None]))
            lab = '%s whitelist=[None] credit %r' % (clsname, credit)
            items.append(mk(lab, mkg, '1+2*x', 'control', credit=credit))
            for R in ('cos(0)', 'sqrt(4)', 'abs(x)'):
                for cheat in contexts('2*x+1', R, matrix=matrix)[:5]:
                    if 'cos(' in cheat and not cheat.count('cos(0)') and R != 'cos(0)':
                        pass
                    items.append(mk(lab, mkg, cheat, 'cheat', FUNC_ERR, tag='whitelist-none'))
        # Numerical
        A = '2*cos(1)+3'
        for label, kw, Rs, tag in [('blacklist=[sin]', dict(blacklist=['sin']), ['sin(0)', 'sin(1)'], 'blacklist'),
                                   ('whitelist=[cos,abs]', dict(whitelist=['cos', 'abs']), ['sqrt(4)', 'exp(0)'], 'whitelist')]:
            mkg = lambda kw=kw, credit=credit: NumericalGrader(answers={'expect': '2*cos(1)+3', 'grade_decimal': credit}, **kw)
            lab = 'NumericalGrader %s credit %r' % (label, credit)
            items.append(mk(lab, mkg, '3+2*cos(1)', 'control', credit=credit))
            for R in Rs:
                for cheat in contexts(A, R):
                    items.append(mk(lab, mkg, cheat, 'cheat', FUNC_ERR, tag=tag))
    return items


def build_required_forbidden(tier):
    items = []
    for credit in (1, 0.5):
        for cls, clsname in ((FormulaGrader, 'FormulaGrader'), (MatrixGrader, 'MatrixGrader')):
            # required_functions
            mkg = lambda cls=cls, credit=credit: cls(answers={'expect': 'cos(2*x)', 'grade_decimal': credit}, variables=['x'],
                                                     required_functions=['cos'])
            lab = '%s required_functions=[cos] credit %r' % (clsname, credit)
            for ctrl in ('cos(2*x)', '2*cos(x)^2-1', 'cos(x)^2-sin(x)^2', '1-2*sin(x)^2+0*cos(x)'):
                items.append(mk(lab, mkg, ctrl, 'control', credit=credit))
            for cheat in ('1-2*sin(x)^2', '1 - 2*sin(x)^2', '(1-tan(x)^2)/(1+tan(x)^2)', 're(exp(2*i*x))', 'sin(2*x+pi/2)',
                          '1/sec(2*x)', '1-2*sin(x)^2+0*Cos', 'sin(pi/2-2*x)'):
                if cheat.endswith('Cos'):
                    continue
                items.append(mk(lab, mkg, cheat, 'cheat', FUNC_ERR, tag='required'))
            # ... also right after a submission that fails deep inside the parser (first-time spellings of the cheat)
            for k, cheat in enumerate(('1-2*sin(x)^2+0*7919', 'sin(2*x+pi/2)+0*7907', '(1-tan(x)^2)/(1+tan(x)^2)+0*7901')):
                items.append(mk(lab + ' after a too-deeply nested submission', mkg, cheat + '*%d' % (k + 2), 'cheat', FUNC_ERR,
                                tag='required-after-failed-parse', before=('cos(1)+sin(1)+' + DEEP,)))
            # two required functions, student omits one
            mkg = lambda cls=cls, credit=credit: cls(answers={'expect': 'sin(x)+cos(x)', 'grade_decimal': credit}, variables=['x'],
                                                     required_functions=['sin', 'cos'])
            lab = '%s required_functions=[sin,cos] credit %r' % (clsname, credit)
            items.append(mk(lab, mkg, 'cos(x)+sin(x)', 'control', credit=credit))
            for cheat in ('sin(x)+sin(x+pi/2)', 'cos(x)+cos(x-pi/2)', 'sqrt(2)*sin(x+pi/4)'):
                items.append(mk(lab, mkg, cheat, 'cheat', FUNC_ERR, tag='required'))
            # forbidden strings (configured with and without inner spaces)
            for fs in (['2*x', '(x+x)'], ['2 * x', '( x + x )'], ['+x', '2*x']):
                mkg = lambda cls=cls, credit=credit, fs=fs: cls(answers={'expect': '2*sin(x)*cos(x)', 'grade_decimal': credit},
                                                                variables=['x'], forbidden_strings=fs)
                lab = '%s forbidden_strings=%r credit %r' % (clsname, fs, credit)
                for ctrl in ('2*sin(x)*cos(x)', 'cos(x)*sin(x)*2', 'sin(x)*cos(x)+cos(x)*sin(x)'):
                    items.append(mk(lab, mkg, ctrl, 'control', credit=credit))
                cheats = ['sin(2*x)']
                if fs[1].replace(' ', '') == '(x+x)':
                    cheats.append('sin((x+x))')
                if fs[0] == '+x':
                    cheats += ['sin(x+x)', '2*sin(x)*cos(x)+x-x']
                for cheat in cheats:
                    for s in spaced(cheat):
                        items.append(mk(lab, mkg, s, 'cheat', FUNC_ERR, tag='forbidden'))
        # Numerical
        mkg = lambda credit=credit: NumericalGrader(answers={'expect': 'sqrt(2)', 'grade_decimal': credit}, forbidden_strings=['sqrt', '^'],
                                                    tolerance='0.1%')
        lab = 'NumericalGrader forbidden_strings=[sqrt,^] credit %r' % credit
        items.append(mk(lab, mkg, '1.41421356', 'control', credit=credit))
        for cheat in ('sqrt(2)', 's q r t(2)', '2^0.5', '2 ^ (1/2)', '1.41421356+0*2^2', 'exp(ln(2)/2)+0*sqrt(1)'):
            items.append(mk(lab, mkg, cheat, 'cheat', FUNC_ERR, tag='forbidden'))
        mkg = lambda credit=credit: NumericalGrader(answers={'expect': 'exp(1)', 'grade_decimal': credit}, required_functions=['exp'],
                                                    tolerance='0.1%')
        lab = 'NumericalGrader required_functions=[exp] credit %r' % credit
        items.append(mk(lab, mkg, 'exp(1)', 'control', credit=credit))
        for cheat in ('e', 'e^1', '2.718281828', 'cosh(1)+sinh(1)'):
            items.append(mk(lab, mkg, cheat, 'cheat', FUNC_ERR, tag='required'))
    return items


def build_names(tier):
    """instructor variables, unknown / case-variant / primed names, numbered variables, suffixes"""
    items = []
    for credit in (1, 0.5):
        for cls, clsname, matrix in ((FormulaGrader, 'FormulaGrader', False), (MatrixGrader, 'MatrixGrader', True)):
            A = '2*cos(x)+x'
            setups = [
                ('instructor_vars=[z], z a sampled variable',
                 lambda cls=cls, credit=credit: cls(answers={'expect': '2*cos(x)+x+z-z', 'grade_decimal': credit},
                                                    variables=['x', 'z'], instructor_vars=['z']), ['z'], 'instructor-var'),
                ('instructor_vars=[z], z a DependentSampler',
                 lambda cls=cls, credit=credit: cls(answers={'expect': '2*cos(x)+x+z-x^2', 'grade_decimal': credit},
                                                    variables=['x', 'z'], instructor_vars=['z'],
                                                    sample_from={'z': DependentSampler(formula='x^2')}), ['z'], 'instructor-var'),
                ('instructor_vars=[z], z a user constant',
                 lambda cls=cls, credit=credit: cls(answers={'expect': '2*cos(x)+x+z-3', 'grade_decimal': credit},
                                                    variables=['x'], user_constants={'z': 3}, instructor_vars=['z']), ['z'], 'instructor-var'),
                # instructor-only names whose VALUE is zero (falsy): hidden all the same
                ('instructor_vars=[z], z a user constant equal to 0',
                 lambda cls=cls, credit=credit: cls(answers={'expect': '2*cos(x)+x+z', 'grade_decimal': credit},
                                                    variables=['x'], user_constants={'z': 0}, instructor_vars=['z']), ['z'], 'instructor-var'),
                ('instructor_vars=[z], z sampled from {0}',
                 lambda cls=cls, credit=credit: cls(answers={'expect': '2*cos(x)+x+z', 'grade_decimal': credit},
                                                    variables=['x', 'z'], sample_from={'z': DiscreteSet((0,))},
                                                    instructor_vars=['z']), ['z'], 'instructor-var'),
                ('instructor_vars=[z], z sampled from {0.0, 2} (first draw 0.0)',
                 lambda cls=cls, credit=credit: cls(answers={'expect': '2*cos(x)+x+z-z', 'grade_decimal': credit},
                                                    variables=['x', 'z'], sample_from={'z': DiscreteSet((0.0, 2))},
                                                    instructor_vars=['z']), ['z'], 'instructor-var'),
                ('instructor_vars=[pi,z]',
                 lambda cls=cls, credit=credit: cls(answers={'expect': '2*cos(x)+x+0*pi', 'grade_decimal': credit},
                                                    variables=['x', 'z'], instructor_vars=['pi', 'z']), ['pi', 'z'], 'instructor-var'),
                ('plain grader (unknown names)',
                 lambda cls=cls, credit=credit: cls(answers={'expect': '2*cos(x)+x', 'grade_decimal': credit}, variables=['x']),
                 ['y', 'X', "x'", 'x_1', 'xx', 'q', 'Pi', 'I', 'x2', 'sibling_1', 'infty', 'Cos(x)', 'COS(x)', 'cosx(x)', "cos'(x)",
                  'x(2)', 'f(x)', '2x', '2k', '3%'[:0] or '2m'], 'undefined-name'),
                ('numbered_vars=[a]',
                 lambda cls=cls, credit=credit: cls(answers={'expect': '2*cos(x)+x+a_{1}-a_{1}', 'grade_decimal': credit},
                                                    variables=['x'], numbered_vars=['a']),
                 ['a', 'a_1', 'a1', 'A_{1}', 'b_{1}', 'a_{x}', 'a_{1}^{2}', "a_{1}'", 'aa_{1}'], 'numbered-var'),
            ]
            for label, mkg, Rs, tag in setups:
                lab = '%s %s credit %r' % (clsname, label, credit)
                items.append(mk(lab, mkg, A, 'control', credit=credit))
                items.append(mk(lab, mkg, 'x+cos(x)*2', 'control', credit=credit))
                if tag == 'numbered-var':
                    items.append(mk(lab, mkg, 'x+cos(x)*2+0*a_{2}+0*a_{-3}+0*a_{0}', 'control', credit=credit))
                for R in Rs:
                    for cheat in contexts(A, R, matrix=matrix) + [R]:
                        items.append(mk(lab, mkg, cheat, 'cheat', UNDEF_ERR, tag=tag))
            # metric suffixes enabled: allowed; disabled: refused
            mkg = lambda cls=cls, credit=credit: cls(answers={'expect': '2*cos(x)+x', 'grade_decimal': credit}, variables=['x'],
                                                     metric_suffixes=True)
            items.append(mk('%s metric_suffixes=True' % clsname, mkg, '2*cos(x)+x+0*2k+0*3%', 'control', credit=credit))
        # Numerical: user constants as instructor vars, unknown names
        mkg = lambda credit=credit: NumericalGrader(answers={'expect': '2*c', 'grade_decimal': credit}, user_constants={'c': 3e8},
                                                    instructor_vars=['c'], tolerance='0.1%')
        lab = 'NumericalGrader instructor constant c credit %r' % credit
        items.append(mk(lab, mkg, '6e8', 'control', credit=credit))
        for cheat in ('2*c', 'c+c', '6e8+0*c', '6e8*c^0', '6e8+c-c', 'C*2', '6e8+0*y', '6e8+0*x', '6e8+0*cos(c)'):
            items.append(mk(lab, mkg, cheat, 'cheat', UNDEF_ERR, tag='instructor-var'))
        # nothing at all left for the student: no variables, every default constant hidden or removed
        empties = [
            ('FormulaGrader no variables, instructor_vars=[pi,e,i,j]',
             lambda credit=credit: FormulaGrader(answers={'expect': '2*pi', 'grade_decimal': credit},
                                                 instructor_vars=['pi', 'e', 'i', 'j'], tolerance='0.1%')),
            ('NumericalGrader with pi, e, i, j removed (user_constants None)',
             lambda credit=credit: NumericalGrader(answers={'expect': '6.283185307', 'grade_decimal': credit},
                                                   user_constants={'pi': None, 'e': None, 'i': None, 'j': None}, tolerance='0.1%')),
            ('MatrixGrader no variables, instructor_vars=[pi,e,i,j]',
             lambda credit=credit: MatrixGrader(answers={'expect': '2*pi', 'grade_decimal': credit},
                                                instructor_vars=['pi', 'e', 'i', 'j'], tolerance='0.1%')),
        ]
        for lab0, mkg in empties:
            lab = '%s credit %r' % (lab0, credit)
            items.append(mk(lab, mkg, '6.283185307', 'control', credit=credit))
            for cheat in ('2*pi', 'pi*2', '6.283185307+0*pi', '6.283185307+pi-pi', '6.283185307*e^0', '6.283185307+0*i',
                          '6.283185307+j-j', '6.283185307+0*x'):
                items.append(mk(lab, mkg, cheat, 'cheat', UNDEF_ERR, tag='empty-scope'))
    return items


def build_siblings(tier):
    items = []
    for credit in (1, 0.5):
        def mkg(credit=credit):
            return ListGrader(
                answers=['x', {'expect': 'sibling_1^2', 'grade_decimal': credit}],
                subgraders=FormulaGrader(variables=['x']), ordered=True)
        lab = 'ordered ListGrader, second answer = sibling_1^2, credit %r' % credit
        items.append(mk(lab, mkg, ['x', 'x^2'], 'control', credit=credit))
        for cheat in ('sibling_1^2', 'sibling_1*x', 'x^2+0*sibling_1', 'x^2+sibling_1-sibling_1', 'x^2*sibling_1^0',
                      'x^2+0*sibling_2', 'x^2+0*cos(sibling_1)', 'Sibling_1^2', 'sibling_1'):
            items.append(mk(lab, mkg, ['x', cheat], 'cheat', UNDEF_ERR, tag='sibling'))
        for cheat in ('sibling_2', 'x+0*sibling_2', 'x+0*sibling_1', 'sibling_1'):
            items.append(mk(lab, mkg, [cheat, 'x^2'], 'cheat', UNDEF_ERR, tag='sibling'))

        # the sibling is referenced only through a dependent sampling set (an instructor variable), not by the answer text
        def mkg2(credit=credit):
            return ListGrader(
                answers=['2*a', {'expect': 'sq', 'grade_decimal': credit}],
                subgraders=FormulaGrader(variables=['a', 'sq'], instructor_vars=['sq'],
                                         sample_from={'sq': DependentSampler(formula='sibling_1^2')}),
                ordered=True)
        lab2 = 'ordered ListGrader, second answer = instructor variable sq = sibling_1^2 (dependent sampler), credit %r' % credit
        items.append(mk(lab2, mkg2, ['2*a', '4*a^2'], 'control', credit=credit))
        items.append(mk(lab2, mkg2, ['2*a', '(2*a)^2'], 'control', credit=credit))
        for cheat in ('sibling_1^2', '4*a^2+sibling_1-sibling_1', '4*a^2*3^(sibling_1*0)', '4*a^2+0*sibling_1', 'sq', '4*a^2+0*sq',
                      '4*a^2+sq-sq', '4*a^2+0*sibling_2'):
            items.append(mk(lab2, mkg2, ['2*a', cheat], 'cheat', UNDEF_ERR, tag='sibling-via-sampler'))
    return items


def build_sum(tier):
    """SumGrader: all four fields entered by the student; the restricted construct may hide in any field"""
    items = []
    base = dict(lower='1', upper='4', summand='2*cos(n)+n', summation_variable='n')

    def fields(**over):
        d = dict(base)
        d.update(over)
        return [d['lower'], d['upper'], d['summand'], d['summation_variable']]
    cfgs = [
        ('blacklist=[sin]', dict(blacklist=['sin']), 'sin(0)', FUNC_ERR, 'blacklist'),
        ('whitelist=[cos]', dict(whitelist=['cos']), 'sqrt(4)', FUNC_ERR, 'whitelist'),
        ('instructor_vars=[z]', dict(variables=['z'], instructor_vars=['z']), 'z', UNDEF_ERR, 'instructor-var'),
        ('plain (unknown name q)', dict(), 'q', UNDEF_ERR, 'undefined-name'),
    ]
    for label, kw, R, allowed, tag in cfgs:
        mkg = lambda kw=kw: SumGrader(answers=dict(base), **kw)
        lab = 'SumGrader ' + label
        items.append(mk(lab, mkg, fields(), 'control', credit=1))
        items.append(mk(lab, mkg, fields(summand='n+cos(n)*2', summation_variable='n'), 'control', credit=1))
        items.append(mk(lab, mkg, fields(summand='m+cos(m)*2', summation_variable='m'), 'control', credit=1))
        for cheat in contexts('2*cos(n)+n', R)[:6]:
            items.append(mk(lab, mkg, fields(summand=cheat), 'cheat', allowed, tag=tag + ':summand'))
        for cheat in ('1+0*%s' % R, '1+%s-%s' % (R, R)):
            items.append(mk(lab, mkg, fields(lower=cheat), 'cheat', allowed, tag=tag + ':lower'))
        for cheat in ('4+0*%s' % R, '4*(%s)^0' % R if R != 'sin(0)' else '4+0*sin(0)^2'):
            items.append(mk(lab, mkg, fields(upper=cheat), 'cheat', allowed, tag=tag + ':upper'))
    mkg = lambda: SumGrader(answers=dict(base), required_functions=['cos'])
    items.append(mk('SumGrader required_functions=[cos]', mkg, fields(), 'control', credit=1))
    items.append(mk('SumGrader required_functions=[cos]', mkg, fields(summand='2*sin(n+pi/2)+n'), 'cheat', FUNC_ERR, tag='required'))
    # the forbidden string hidden in the FIRST box (lower limit), and in a summand-only layout
    mkg = lambda: SumGrader(answers=dict(base), forbidden_strings=['0+1', '3 + 1'])
    items.append(mk('SumGrader forbidden_strings=[0+1, 3 + 1]', mkg, fields(), 'control', credit=1))
    for lo, up in (('0+1', '4'), ('0 + 1', '4'), ('1', '3+1'), ('1', '3 +1'), ('0+1', '3+1')):
        items.append(mk('SumGrader forbidden_strings=[0+1, 3 + 1]', mkg, fields(lower=lo, upper=up), 'cheat', FUNC_ERR, tag='forbidden:limits'))
    mkg = lambda: SumGrader(answers=dict(base), forbidden_strings=['+n'], input_positions={'summand': 1})
    items.append(mk('SumGrader summand only, forbidden_strings=[+n]', mkg, 'n+2*cos(n)', 'control', credit=1))
    for sx in spaced('2*cos(n)+n')[:4]:
        items.append(mk('SumGrader summand only, forbidden_strings=[+n]', mkg, sx, 'cheat', FUNC_ERR, tag='forbidden:first-box'))
        items.append(mk('SumGrader summand only, forbidden_strings=[+n]', mkg, [sx], 'cheat', FUNC_ERR, tag='forbidden:first-box'))
    mkg = lambda: SumGrader(answers=dict(base), forbidden_strings=['+n'])
    items.append(mk('SumGrader forbidden_strings=[+n]', mkg, fields(summand='n+2*cos(n)'), 'control', credit=1))
    for s in spaced('2*cos(n)+n'):
        items.append(mk('SumGrader forbidden_strings=[+n]', mkg, fields(summand=s), 'cheat', FUNC_ERR, tag='forbidden'))
    return items


# ------------------------------------------------------------------------------ wider alphabets (review round)

def cmp_partial(params, student, utils):
    """author-written comparer: the right value earns 'partial' (half credit), never full credit"""
    return 'partial' if utils.within_tolerance(params[0], student) else False


def cmp_quarter(params, student, utils):
    """author-written comparer: the right value earns a quarter, with a message"""
    return {'grade_decimal': 0.25, 'msg': 'a quarter'} if utils.within_tolerance(params[0], student) else False


def _sq(t):
    return t * t


def _renderings(tier, s):
    return spaced(s)[:3] if tier == 'quick' else spaced(s)[:3] + spaced(s)[3::5]


def build_comparer_partial(tier):
    """the verdict is 'partial' because of the COMPARER (not because the matched answer is worth less than 1)"""
    from mitxgraders.comparers import LinearComparer
    items = []
    ncon = 3 if tier == 'quick' else 9
    comparers = [('comparer returning "partial"', cmp_partial, 0.5), ('comparer returning {grade_decimal: .25}', cmp_quarter, 0.25)]
    for cls, clsname, matrix in ((FormulaGrader, 'FormulaGrader', False), (MatrixGrader, 'MatrixGrader', True)):
        for cname, cmp, credit in comparers:
            if matrix and tier == 'quick':
                continue          # quick: MatrixGrader meets LinearComparer and entry_partial_credit below
            for scale in ((1, 0.5) if (tier != 'quick' or cmp is cmp_partial) else (1,)):
                A = '2*cos(x)+x'
                cfgs = [('blacklist=[sin]', dict(blacklist=['sin']), ['sin(x)', 'sin(0)'], 'blacklist'),
                        ('whitelist=[cos,abs]', dict(whitelist=['cos', 'abs']), ['sqrt(4)', 'exp(0)'], 'whitelist')]
                for label, kw, Rs, tag in cfgs:
                    mkg = (lambda cls=cls, kw=kw, cmp=cmp, scale=scale:
                           cls(answers={'expect': {'comparer': cmp, 'comparer_params': ['2*cos(x)+x']}, 'grade_decimal': scale},
                               variables=['x'], **kw))
                    lab = '%s %s, %s, answer credit %r' % (clsname, label, cname, scale)
                    items.append(mk(lab, mkg, A, 'control', credit=credit * scale))
                    items.append(mk(lab, mkg, 'x+cos(x)*2', 'control', credit=credit * scale))
                    for R in Rs:
                        for cheat in contexts(A, R, matrix=matrix)[:ncon]:
                            items.append(mk(lab, mkg, cheat, 'cheat', FUNC_ERR, tag=tag + ':comparer-partial'))
                # required / forbidden
                mkg = (lambda cls=cls, cmp=cmp, scale=scale:
                       cls(answers={'expect': {'comparer': cmp, 'comparer_params': ['cos(2*x)']}, 'grade_decimal': scale},
                           variables=['x'], required_functions=['cos']))
                lab = '%s required_functions=[cos], %s, answer credit %r' % (clsname, cname, scale)
                items.append(mk(lab, mkg, '2*cos(x)^2-1', 'control', credit=credit * scale))
                for cheat in ('1-2*sin(x)^2', 'sin(2*x+pi/2)', '(1-tan(x)^2)/(1+tan(x)^2)'):
                    items.append(mk(lab, mkg, cheat, 'cheat', FUNC_ERR, tag='required:comparer-partial'))
                mkg = (lambda cls=cls, cmp=cmp, scale=scale:
                       cls(answers={'expect': {'comparer': cmp, 'comparer_params': ['2*sin(x)*cos(x)']}, 'grade_decimal': scale},
                           variables=['x'], forbidden_strings=['2*x', '+x']))
                lab = '%s forbidden_strings=[2*x,+x], %s, answer credit %r' % (clsname, cname, scale)
                items.append(mk(lab, mkg, 'cos(x)*sin(x)*2', 'control', credit=credit * scale))
                for cheat in ('sin(2*x)', 'sin(x+x)', '2*sin(x)*cos(x)+x-x'):
                    for s in _renderings(tier, cheat):
                        items.append(mk(lab, mkg, s, 'cheat', FUNC_ERR, tag='forbidden:comparer-partial'))
        # LinearComparer: a multiple of the answer earns half credit
        for label, kw, R, tag in (('blacklist=[sin]', dict(blacklist=['sin']), 'sin(x)', 'blacklist'),
                                  ('whitelist=[cos]', dict(whitelist=['cos']), 'sqrt(4)', 'whitelist'),
                                  ('forbidden_strings=[3*(]', dict(forbidden_strings=['3*(']), None, 'forbidden'),
                                  ('required_functions=[cos]', dict(required_functions=['cos']), None, 'required')):
            mkg = (lambda cls=cls, kw=kw:
                   cls(answers={'expect': {'comparer': LinearComparer(), 'comparer_params': ['2*cos(x)+x']}}, variables=['x'], **kw))
            lab = '%s %s, LinearComparer' % (clsname, label)
            items.append(mk(lab, mkg, '2*cos(x)+x', 'control', credit=1))
            items.append(mk(lab, mkg, '(2*cos(x)+x)*3', 'control', credit=0.5))
            if R is not None:
                for cheat in contexts('3*(2*cos(x)+x)', R, matrix=matrix)[:ncon]:
                    items.append(mk(lab, mkg, cheat, 'cheat', FUNC_ERR, tag=tag + ':linear-comparer-partial'))
            elif tag == 'forbidden':
                for s_ in _renderings(tier, '3*(2*cos(x)+x)'):
                    items.append(mk(lab, mkg, s_, 'cheat', FUNC_ERR, tag=tag + ':linear-comparer-partial'))
            else:
                for cheat in ('3*(2*sin(x+pi/2)+x)', '6*sin(x+pi/2)+3*x', '(2*sin(x+pi/2)+x)/7'):
                    items.append(mk(lab, mkg, cheat, 'cheat', FUNC_ERR, tag=tag + ':linear-comparer-partial'))
    # MatrixGrader with entry-wise partial credit: one entry right (using the restricted construct), one entry wrong
    for epc, credit in (('proportional', 0.5), (0.3, 0.3)):
        for label, kw, cheats, tag in (
                ('blacklist=[sin]', dict(blacklist=['sin']), ['[x+0*sin(x),1]', '[1,2*cos(x)+sin(x)-sin(x)]', '[x,1+0*sin(x)]'], 'blacklist'),
                ('whitelist=[cos]', dict(whitelist=['cos']), ['[x+0*sqrt(4),1]', '[1,2*cos(x)*exp(0)]'], 'whitelist'),
                ('forbidden_strings=[x+x]', dict(forbidden_strings=['x+x']), ['[x+x-x,1]', '[1,2*cos(x+x-x)]', '[x +x-x,1]'], 'forbidden'),
                ('required_functions=[cos]', dict(required_functions=['cos']), ['[x,1]', '[x,x^2]'], 'required')):
            mkg = lambda kw=kw, epc=epc: MatrixGrader(answers='[x,2*cos(x)]', variables=['x'], entry_partial_credit=epc, **kw)
            lab = 'MatrixGrader %s, entry_partial_credit=%r' % (label, epc)
            items.append(mk(lab, mkg, '[x,2*cos(x)]', 'control', credit=1))
            items.append(mk(lab, mkg, '[x,3*cos(x)]' if tag != 'forbidden' else '[x,cos(x)]', 'control', credit=credit))
            for cheat in cheats:
                items.append(mk(lab, mkg, cheat, 'cheat', FUNC_ERR, tag=tag + ':entry-partial-credit'))
    # Numerical
    for cname, cmp, credit in comparers:
        mkg = lambda cmp=cmp: NumericalGrader(answers={'expect': {'comparer': cmp, 'comparer_params': ['2*cos(1)+3']}}, blacklist=['sin'])
        lab = 'NumericalGrader blacklist=[sin], %s' % cname
        items.append(mk(lab, mkg, '3+2*cos(1)', 'control', credit=credit))
        for cheat in contexts('2*cos(1)+3', 'sin(1)')[:ncon]:
            items.append(mk(lab, mkg, cheat, 'cheat', FUNC_ERR, tag='blacklist:comparer-partial'))
    return items


def build_lookalikes(tier):
    """names that CONTAIN a restricted / required name, required user functions, whole-input and end-of-input forbidden
    strings, and author answers that themselves break the forbidden / required rules"""
    items = []
    for credit in (1, 0.5):
        for cls, clsname, matrix in ((FormulaGrader, 'FormulaGrader', False), (MatrixGrader, 'MatrixGrader', True)):
            if matrix and tier == 'quick':
                continue
            # required cos: cosh / arccos are other functions
            mkg = lambda cls=cls, credit=credit: cls(answers={'expect': 'cos(2*x)', 'grade_decimal': credit}, variables=['x'],
                                                     required_functions=['cos'])
            lab = '%s required_functions=[cos] (look-alike functions) credit %r' % (clsname, credit)
            items.append(mk(lab, mkg, 'cos(2*x)+0*cosh(x)', 'control', credit=credit))
            for cheat in ('cosh(2*i*x)', 're(cosh(2*i*x))', '1-2*sin(x)^2+0*arccos(0)', '1-2*sin(x)^2+0*cosh(x)', '1/sec(2*x)+0*arccos(0)',
                          '1-2*sin(x)^2+0*cot(1)', '1-2*sin(x)^2+0*arccosh(2)'):
                items.append(mk(lab, mkg, cheat, 'cheat', FUNC_ERR, tag='required:look-alike'))
            # two required functions, the name of one contained in the name of the other: either one missing
            mkg = lambda cls=cls, credit=credit: cls(answers={'expect': 'cosh(x)+cos(x)', 'grade_decimal': credit}, variables=['x'],
                                                     required_functions=['cosh', 'cos'])
            lab = '%s required_functions=[cosh,cos] credit %r' % (clsname, credit)
            items.append(mk(lab, mkg, 'cos(x)+cosh(x)', 'control', credit=credit))
            for cheat in ('cosh(x)+cosh(i*x)', 'cos(x)+cos(i*x)', 'cosh(x)+sin(x+pi/2)', '(e^x+e^(-x))/2+cos(x)'):
                items.append(mk(lab, mkg, cheat, 'cheat', FUNC_ERR, tag='required:look-alike'))
            # blacklist sin: sinh, arcsin stay permitted (controls); whitelist cosh: cos is not permitted
            mkg = lambda cls=cls, credit=credit: cls(answers={'expect': '2*cos(x)+x', 'grade_decimal': credit}, variables=['x'],
                                                     blacklist=['sin'])
            lab = '%s blacklist=[sin] (look-alike functions) credit %r' % (clsname, credit)
            for ctrl in ('2*cos(x)+x+0*sinh(x)', '2*cos(x)+x+0*arcsin(0)'):
                items.append(mk(lab, mkg, ctrl, 'control', credit=credit))
            for cheat in ('2*cos(x)+x+0*sinh(x)+0*sin(x)', '2*cos(x)+x+0*arcsin(sin(0))', '2*cos(x)+x+0*sinh(sin(x))'):
                items.append(mk(lab, mkg, cheat, 'cheat', FUNC_ERR, tag='blacklist:look-alike'))
            mkg = lambda cls=cls, credit=credit: cls(answers={'expect': '2*cosh(x)+x', 'grade_decimal': credit}, variables=['x'],
                                                     whitelist=['cosh', 'arccos'])
            lab = '%s whitelist=[cosh,arccos] credit %r' % (clsname, credit)
            items.append(mk(lab, mkg, 'x+cosh(x)*2+0*arccos(0)', 'control', credit=credit))
            for cheat in ('2*cos(i*x)+x', '2*cosh(x)+x+0*cos(x)', '2*cosh(x)+x+0*arccosh(2)', '2*cosh(x)+x+0*sinh(x)', 'e^x+e^(-x)+x+0*cot(1)'):
                items.append(mk(lab, mkg, cheat, 'cheat', FUNC_ERR, tag='whitelist:look-alike'))
            # a required USER function, and whitelist=[None] next to a user function
            mkg = lambda cls=cls, credit=credit: cls(answers={'expect': 'h(x)+1', 'grade_decimal': credit}, variables=['x'],
                                                     user_functions={'h': _sq}, required_functions=['h'])
            lab = '%s required_functions=[h], h a user function, credit %r' % (clsname, credit)
            items.append(mk(lab, mkg, '1+h(x)', 'control', credit=credit))
            for cheat in ('x^2+1', 'x*x+1', '1+abs(x)^2', '1+x^2+0*cosh(x)'):
                items.append(mk(lab, mkg, cheat, 'cheat', FUNC_ERR, tag='required:user-function'))
            mkg = lambda cls=cls, credit=credit: cls(answers={'expect': 'h(x)+1', 'grade_decimal': credit}, variables=['x'],
                                                     user_functions={'h': _sq}, whitelist=[None])
            lab = '%s whitelist=[None] + user function h, credit %r' % (clsname, credit)
            items.append(mk(lab, mkg, '1+h(x)', 'control', credit=credit))
            items.append(mk(lab, mkg, '1+x^2+0*h(2)', 'control', credit=credit))
            for R in ('cos(0)', 'abs(x)', 'sqrt(4)'):
                for cheat in contexts('h(x)+1', R, matrix=matrix, userfn='h')[:5] + ['h(x)+1+0*h(%s)' % R]:
                    if 'cos(' in cheat and R != 'cos(0)':
                        continue
                    items.append(mk(lab, mkg, cheat, 'cheat', FUNC_ERR, tag='whitelist-none:user-function'))
            # forbidden string = the whole input / the end of the input / only the last listed one occurs
            for fs in (['sin(2*x)'], ['*x)'], ['q', 'w', '2 * x )']):
                mkg = lambda cls=cls, credit=credit, fs=fs: cls(answers={'expect': '2*sin(x)*cos(x)', 'grade_decimal': credit},
                                                                variables=['x'], forbidden_strings=fs)
                lab = '%s forbidden_strings=%r credit %r' % (clsname, fs, credit)
                for ctrl in ('2*sin(x)*cos(x)', 'sin(x)*cos(x)+cos(x)*sin(x)'):
                    items.append(mk(lab, mkg, ctrl, 'control', credit=credit))
                for s in _renderings(tier, 'sin(2*x)'):
                    items.append(mk(lab, mkg, s, 'cheat', FUNC_ERR, tag='forbidden:whole-or-end'))
            # the author's own answer contains the forbidden string / lacks the required function / uses a non-whitelisted one
            mkg = lambda cls=cls, credit=credit: cls(answers={'expect': 'sin(2*x)', 'grade_decimal': credit}, variables=['x'],
                                                     forbidden_strings=['2*x', '( x+x'])
            lab = '%s author answer sin(2*x) contains the forbidden 2*x, credit %r' % (clsname, credit)
            items.append(mk(lab, mkg, '2*sin(x)*cos(x)', 'control', credit=credit))
            for cheat in ('sin(2*x)', 'sin(2 *x)', 'sin(x+x)', 'sin(( x +x))'):
                items.append(mk(lab, mkg, cheat, 'cheat', FUNC_ERR, tag='forbidden:author-text'))
            mkg = lambda cls=cls, credit=credit: cls(answers={'expect': '1-2*sin(x)^2', 'grade_decimal': credit}, variables=['x'],
                                                     required_functions=['cos'])
            lab = '%s author answer lacks the required cos, credit %r' % (clsname, credit)
            items.append(mk(lab, mkg, 'cos(2*x)', 'control', credit=credit))
            items.append(mk(lab, mkg, '1-2*sin(x)^2', 'cheat', FUNC_ERR, tag='required:author-text'))
            mkg = lambda cls=cls, credit=credit: cls(answers={'expect': 'sqrt(x^2)+cos(0)', 'grade_decimal': credit}, variables=['x'],
                                                     whitelist=[None])
            lab = '%s whitelist=[None], author answer uses sqrt and cos, credit %r' % (clsname, credit)
            items.append(mk(lab, mkg, 'x+1', 'control', credit=credit))
            items.append(mk(lab, mkg, 'sqrt(x^2)+cos(0)', 'cheat', FUNC_ERR, tag='whitelist-none:author-text'))
        mkg = lambda credit=credit: NumericalGrader(answers={'expect': 'cos(2)', 'grade_decimal': credit}, required_functions=['cos'],
                                                    tolerance='0.01%')
        lab = 'NumericalGrader required_functions=[cos] (look-alike functions) credit %r' % credit
        items.append(mk(lab, mkg, '2*cos(1)^2-1', 'control', credit=credit))
        for cheat in ('cosh(2*i)', '1-2*sin(1)^2+0*arccos(0)', '1-2*sin(1)^2'):
            items.append(mk(lab, mkg, cheat, 'cheat', FUNC_ERR, tag='required:look-alike'))
    return items


def build_names_wider(tier):
    items = []
    for credit in ((1,) if tier == 'quick' else (1, 0.5)):     # undefined names are refused before any credit is computed
        for cls, clsname, matrix in ((FormulaGrader, 'FormulaGrader', False), (MatrixGrader, 'MatrixGrader', True)):
            A = '2*cos(x)+x'
            setups = [
                # ONE default constant removed, the others stay
                ('user_constants={pi: None}',
                 lambda cls=cls, credit=credit: cls(answers={'expect': '2*cos(x)+x', 'grade_decimal': credit}, variables=['x'],
                                                    user_constants={'pi': None}), ['pi'], 'removed-constant', ('0*e', '0*i*j')),
                ('user_constants={e: None, j: None, c: 2}',
                 lambda cls=cls, credit=credit: cls(answers={'expect': '2*cos(x)+x', 'grade_decimal': credit}, variables=['x'],
                                                    user_constants={'e': None, 'j': None, 'c': 2}), ['e', 'j'], 'removed-constant',
                 ('0*pi', '0*i', '0*c')),
                # metric suffixes on: everything that is not a suffix stays refused
                ('metric_suffixes=True',
                 lambda cls=cls, credit=credit: cls(answers={'expect': '2*cos(x)+x', 'grade_decimal': credit}, variables=['x'],
                                                    metric_suffixes=True),
                 # (2E), (2e) in parentheses: followed by +1 or -2 they would be numbers in scientific notation
                 ['2q', '2x', '2K', '2pi', '2da', '(2E)', '2kk', '(2e)', '3cos', 'k', '2*k', 'k2'], 'not-a-suffix', ('0*2k', '0*3%', '0*2 M')),
                # function names used as variables, constants and variables used as functions
                ('plain grader + user function h (name kinds mixed up)',
                 lambda cls=cls, credit=credit: cls(answers={'expect': '2*cos(x)+x', 'grade_decimal': credit}, variables=['x'],
                                                    user_functions={'h': _sq}),
                 ['cos', 'sin', 'h', 'pi(2)', 'e(1)', 'i(0)', 'x(1)', 'H(x)', 'hh(x)', "h'(x)", 'h_1(x)', 'abs'],
                 'wrong-kind', ('0*h(x)',)),
                # a declared primed variable: the unprimed and doubly primed names are different names
                ("variables=[x, x'] with instructor_vars=[x']",
                 lambda cls=cls, credit=credit: cls(answers={'expect': "2*cos(x)+x+x'-x'", 'grade_decimal': credit}, variables=['x', "x'"],
                                                    instructor_vars=["x'"]), ["x'", "x''"], 'instructor-var', ()),
                # more numbered-variable look-alikes (not integers inside the braces, decorated instances)
                ('numbered_vars=[a] (non-integer indices)',
                 lambda cls=cls, credit=credit: cls(answers={'expect': '2*cos(x)+x+a_{1}-a_{1}', 'grade_decimal': credit},
                                                    variables=['x'], numbered_vars=['a']),
                 ['a_{1x}', 'a_{x1}', 'a_{-x}', 'a_{1}^{-2}', "a_{-1}''", 'a_{a}', 'a_{1}(2)', 'a(1)'], 'numbered-var',
                 ('0*a_{-1}', '0*a_{10}')),
                ('numbered_vars=[a, ab]',
                 lambda cls=cls, credit=credit: cls(answers={'expect': '2*cos(x)+x+ab_{1}-ab_{1}', 'grade_decimal': credit},
                                                    variables=['x'], numbered_vars=['a', 'ab']),
                 ['b_{1}', 'aab_{1}', 'aba_{1}', 'ab', "ab_{1}'", 'ab_{1}^{2}', 'a_{1b}'], 'numbered-var', ('0*a_{1}*ab_{2}',)),
                # instructor variables in debug mode (the scope is restored for the log after every sample)
                ('instructor_vars=[z], debug=True',
                 lambda cls=cls, credit=credit: cls(answers={'expect': '2*cos(x)+x+z-z', 'grade_decimal': credit},
                                                    variables=['x', 'z'], instructor_vars=['z'], debug=True), ['z'], 'instructor-var', ()),
                ('instructor_vars=[z], z = 0 (complex zero), samples=1',
                 lambda cls=cls, credit=credit: cls(answers={'expect': '2*cos(x)+x+z', 'grade_decimal': credit}, samples=1,
                                                    variables=['x'], user_constants={'z': 0j}, instructor_vars=['z']), ['z'], 'instructor-var',
                 ()),
                ('instructor_vars=[z, y], both sampled, failable_evals=4',
                 lambda cls=cls, credit=credit: cls(answers={'expect': '2*cos(x)+x+z*y-y*z', 'grade_decimal': credit}, failable_evals=4,
                                                    variables=['x', 'y', 'z'], instructor_vars=['z', 'y']), ['z', 'y', 'z*y'],
                 'instructor-var', ()),
            ]
            for label, mkg, Rs, tag, extra_ok in setups:
                if matrix and tier == 'quick' and tag in ('wrong-kind', 'numbered-var'):
                    continue
                lab = '%s %s credit %r' % (clsname, label, credit)
                items.append(mk(lab, mkg, A, 'control', credit=credit))
                for ok in extra_ok:
                    items.append(mk(lab, mkg, A + '+' + ok, 'control', credit=credit))
                seen = set()
                for R in Rs:
                    if R in seen:
                        continue
                    seen.add(R)
                    cons = contexts(A, R, matrix=matrix)
                    if tier == 'quick':
                        cons = (cons[:2] + cons[-1:]) if not matrix else cons[-1:]
                    for cheat in cons + [R]:
                        items.append(mk(lab, mkg, cheat, 'cheat', UNDEF_ERR, tag=tag))
        # MatrixGrader: the identity I as an instructor-only constant
        mkg = lambda credit=credit: MatrixGrader(answers={'expect': '(2*cos(x)+x)*I', 'grade_decimal': credit}, variables=['x'],
                                                 identity_dim=2, instructor_vars=['I'], max_array_dim=2)
        lab = 'MatrixGrader identity_dim=2, instructor_vars=[I] credit %r' % credit
        items.append(mk(lab, mkg, '[[2*cos(x)+x,0],[0,2*cos(x)+x]]', 'control', credit=credit))
        for cheat in ('(2*cos(x)+x)*I', '[[2*cos(x)+x,0],[0,2*cos(x)+x]]+0*I', '[[2*cos(x)+x,0],[0,2*cos(x)+x]]*I^0',
                      '[[2*cos(x)+x,0],[0,2*cos(x)+x]]+I-I', '[[2*cos(x)+x,0],[0,2*cos(x)+x]]+0*det(I)'):
            items.append(mk(lab, mkg, cheat, 'cheat', UNDEF_ERR, tag='instructor-var'))
        # Numerical: one constant removed
        mkg = lambda credit=credit: NumericalGrader(answers={'expect': '2*e', 'grade_decimal': credit}, user_constants={'pi': None},
                                                    tolerance='0.01%')
        lab = 'NumericalGrader user_constants={pi: None} credit %r' % credit
        items.append(mk(lab, mkg, 'e+e', 'control', credit=credit))
        items.append(mk(lab, mkg, 'e+e+0*i', 'control', credit=credit))
        for cheat in contexts('2*e', 'pi')[:6]:
            items.append(mk(lab, mkg, cheat, 'cheat', UNDEF_ERR, tag='removed-constant'))
    return items


def build_siblings_wider(tier):
    items = []
    for credit in (1, 0.5):
        # forward reference: the FIRST answer is written in terms of the second input
        for sub, subname in ((lambda: FormulaGrader(variables=['x']), 'FormulaGrader'), (lambda: MatrixGrader(variables=['x']), 'MatrixGrader')):
            forward = (tier != 'quick' or subname == 'FormulaGrader')
            mkg = lambda credit=credit, sub=sub: ListGrader(answers=[{'expect': 'sibling_2^2', 'grade_decimal': credit}, 'x'],
                                                            subgraders=sub(), ordered=True)
            lab = 'ordered ListGrader (%s), FIRST answer = sibling_2^2, credit %r' % (subname, credit)
            if forward:
                items.append(mk(lab, mkg, ['x^2', 'x'], 'control', credit=credit))
            for cheat in ('sibling_2^2', 'x^2+0*sibling_2', 'x^2+sibling_2-sibling_2', 'x^2*sibling_2^0', 'x^2+0*sibling_1', 'x*sibling_2',
                          'x^2+0*cos(sibling_2)', 'x^2+0*sibling_3'):
                if not forward:
                    break
                items.append(mk(lab, mkg, [cheat, 'x'], 'cheat', UNDEF_ERR, tag='sibling:forward'))
            # an undefined name (sibling_1, q, sibling_2 itself) typed into the SECOND box, which the first answer references:
            # the box is sampled as sibling_2 for the first answer before it is graded itself, and the failure surfaces as
            # ConfigError ("DependentSamplers depend on undefined quantities: sibling_1") instead of an undefined-variable error
            for cheat in ('x+0*sibling_1', 'x+0*q', 'x+0*sibling_2'):
                # (found a genuine defect, repaired: ConfigError blamed the author for the student's undefined name)
                if not forward:
                    break
                items.append(mk(lab, mkg, ['x^2', cheat], 'cheat', UNDEF_ERR, tag='sibling:forward:referenced-box'))
            # a chain of three
            mkg = lambda credit=credit, sub=sub: ListGrader(
                answers=['x', 'sibling_1^2', {'expect': 'sibling_2*sibling_1', 'grade_decimal': credit}], subgraders=sub(), ordered=True)
            lab = 'ordered ListGrader (%s), answers x, sibling_1^2, sibling_2*sibling_1, credit %r' % (subname, credit)
            items.append(mk(lab, mkg, ['x', 'x^2', 'x^3'], 'control', credit=credit))
            items.append(mk(lab, mkg, ['x', 'x*x', 'x^2*x'], 'control', credit=credit))
            for cheat in ('sibling_2*sibling_1', 'x^3+0*sibling_1', 'x^3+0*sibling_2', 'x^3+0*sibling_3', 'x^2*sibling_1', 'sibling_2*x',
                          'x^3*sibling_1^0*sibling_2^0', 'x^3+0*sibling_4', 'x^3+0*Sibling_1'):
                items.append(mk(lab, mkg, ['x', 'x^2', cheat], 'cheat', UNDEF_ERR, tag='sibling:chain'))
            for cheat in ('x^2+0*sibling_1', 'sibling_1^2', 'x^2+0*sibling_2', 'x^2+0*sibling_3'):
                items.append(mk(lab, mkg, ['x', cheat, 'x^3'], 'cheat', UNDEF_ERR, tag='sibling:chain'))
        # sibling AND an ordinary instructor variable in the same subgrader
        mkg = lambda credit=credit: ListGrader(answers=['x', {'expect': 'sibling_1^2+z-z', 'grade_decimal': credit}],
                                               subgraders=FormulaGrader(variables=['x', 'z'], instructor_vars=['z']), ordered=True)
        lab = 'ordered ListGrader, second answer = sibling_1^2+z-z, z instructor-only, credit %r' % credit
        items.append(mk(lab, mkg, ['x', 'x^2'], 'control', credit=credit))
        for cheat in ('x^2+0*z', 'x^2+z-z', 'sibling_1^2+z-z', 'x^2+0*sibling_1', 'x^2+0*sibling_1*z', 'x^2*z^0'):
            items.append(mk(lab, mkg, ['x', cheat], 'cheat', UNDEF_ERR, tag='sibling+instructor-var'))
        for cheat in ('x+0*z', 'x+z-z'):
            items.append(mk(lab, mkg, [cheat, 'x^2'], 'cheat', UNDEF_ERR, tag='sibling+instructor-var'))
        # one grader per box: a number, then a formula in terms of it
        mkg = lambda credit=credit: ListGrader(answers=['3', {'expect': 'sibling_1^2*x', 'grade_decimal': credit}],
                                               subgraders=[NumericalGrader(), FormulaGrader(variables=['x'])], ordered=True)
        lab = 'ordered ListGrader [NumericalGrader, FormulaGrader], second answer = sibling_1^2*x, credit %r' % credit
        items.append(mk(lab, mkg, ['3', '9*x'], 'control', credit=credit))
        for cheat in ('sibling_1^2*x', '9*x+0*sibling_1', '9*x*sibling_1^0', '3*x*sibling_1'):
            items.append(mk(lab, mkg, ['3', cheat], 'cheat', UNDEF_ERR, tag='sibling:per-box-graders'))
        for cheat in ('3+0*sibling_2', '3+0*sibling_1', '3+0*x'):
            items.append(mk(lab, mkg, [cheat, '9*x'], 'cheat', UNDEF_ERR, tag='sibling:per-box-graders'))
        # groups: sibling_j is the j-th member of the group
        mkg = lambda credit=credit: ListGrader(
            answers=[['x', 'sibling_1^2'], ['2*x', {'expect': 'sibling_1^3', 'grade_decimal': credit}]],
            subgraders=ListGrader(subgraders=FormulaGrader(variables=['x']), ordered=True), grouping=[1, 1, 2, 2], ordered=True)
        lab = 'grouped ordered ListGrader, answers [x, sibling_1^2], [2*x, sibling_1^3], credit %r' % credit
        items.append(mk(lab, mkg, ['x', 'x^2', '2*x', '8*x^3'], 'control', credit=credit))
        for cheat in ('sibling_1^3', '8*x^3+0*sibling_1', '8*x^3+0*sibling_2', '8*x^3+0*sibling_3', '8*x^3+0*sibling_4'):
            items.append(mk(lab, mkg, ['x', 'x^2', '2*x', cheat], 'cheat', UNDEF_ERR, tag='sibling:grouped'))
        for cheat in ('sibling_1^2', 'x^2+0*sibling_1', 'x^2+0*sibling_3'):
            items.append(mk(lab, mkg, ['x', cheat, '2*x', '8*x^3'], 'cheat', UNDEF_ERR, tag='sibling:grouped'))
    return items


def build_sum_wider(tier):
    items = []
    base = dict(lower='1', upper='4', summand='2*cos(n)+n', summation_variable='n')

    def fields(**over):
        d = dict(base)
        d.update(over)
        return [d['lower'], d['upper'], d['summand'], d['summation_variable']]
    S = '2*cos(n)+n'
    # instructor-only names whose first sampled value is falsy / constants removed / no function at all / numbered variables
    cfgs = [
        ('instructor_vars=[z], z sampled from {0}', dict(base, summand=S + '+z'),
         dict(variables=['z'], instructor_vars=['z'], sample_from={'z': DiscreteSet((0,))}), 'z', UNDEF_ERR, 'instructor-var', ()),
        ('instructor_vars=[z], z sampled from {0.0, 2} (first draw 0.0)', dict(base, summand=S + '+z-z'),
         dict(variables=['z'], instructor_vars=['z'], sample_from={'z': DiscreteSet((0.0, 2))}), 'z', UNDEF_ERR, 'instructor-var', ()),
        ('instructor_vars=[z], z a user constant equal to 0', dict(base, summand=S + '+z'),
         dict(user_constants={'z': 0}, instructor_vars=['z']), 'z', UNDEF_ERR, 'instructor-var', ()),
        ('instructor_vars=[z], z a user constant 3, samples=1', dict(base, summand=S + '+z-3'),
         dict(user_constants={'z': 3}, instructor_vars=['z'], samples=1), 'z', UNDEF_ERR, 'instructor-var', ()),
        ('instructor_vars=[pi, infty]', dict(base), dict(instructor_vars=['pi', 'infty']), 'pi', UNDEF_ERR, 'instructor-var', ('0*e',)),
        ('user_constants={pi: None}', dict(base), dict(user_constants={'pi': None}), 'pi', UNDEF_ERR, 'removed-constant', ('0*e',)),
        ('numbered_vars=[a]', dict(base, summand=S + '+a_{1}-a_{1}'), dict(numbered_vars=['a']), "a_{2}'", UNDEF_ERR, 'numbered-var',
         ('0*a_{2}',)),
        ('numbered_vars=[a] (bare head)', dict(base, summand=S + '+a_{1}-a_{1}'), dict(numbered_vars=['a']), 'a', UNDEF_ERR, 'numbered-var',
         ()),
        ('plain (suffix k without metric_suffixes)', dict(base), dict(), '2k', UNDEF_ERR, 'not-a-suffix', ('0*3%',)),
        ('metric_suffixes=True (unknown suffix q)', dict(base), dict(metric_suffixes=True), '2q', UNDEF_ERR, 'not-a-suffix', ('0*2k',)),
        ('blacklist=[sin,tan]', dict(base), dict(blacklist=['sin', 'tan']), 'tan(0)', FUNC_ERR, 'blacklist', ('0*sinh(1)',)),
        ('whitelist=[cos] + user function h', dict(base), dict(whitelist=['cos'], user_functions={'h': _sq}), 'abs(1)', FUNC_ERR, 'whitelist',
         ('0*h(n)',)),
    ]
    for label, ans, kw, R, allowed, tag, extra_ok in cfgs:
        mkg = lambda kw=kw, ans=ans: SumGrader(answers=dict(ans), **kw)
        lab = 'SumGrader ' + label
        items.append(mk(lab, mkg, fields(), 'control', credit=1))
        items.append(mk(lab, mkg, fields(summand='m+cos(m)*2', summation_variable='m'), 'control', credit=1))
        for ok in extra_ok:
            items.append(mk(lab, mkg, fields(summand=S + '+' + ok), 'control', credit=1))
        for cheat in contexts(S, R)[:(3 if tier == 'quick' else 9)]:
            items.append(mk(lab, mkg, fields(summand=cheat), 'cheat', allowed, tag=tag + ':summand'))
        for cheat in ('1+0*%s' % R, '1+%s-%s' % (R, R))[:(1 if tier == 'quick' else 2)]:
            items.append(mk(lab, mkg, fields(lower=cheat), 'cheat', allowed, tag=tag + ':lower'))
        for cheat in ('4-%s+%s' % (R, R), '4+0*%s' % R)[:(1 if tier == 'quick' else 2)]:
            items.append(mk(lab, mkg, fields(upper=cheat), 'cheat', allowed, tag=tag + ':upper'))
    # whitelist=[None]: no function at all (the author's summand has none either)
    mkg = lambda: SumGrader(answers=dict(base, summand='n^2+n'), whitelist=[None])
    lab = 'SumGrader whitelist=[None]'
    items.append(mk(lab, mkg, fields(summand='n+n^2'), 'control', credit=1))
    for R in ('cos(0)', 'abs(n)'):
        for cheat in contexts('n^2+n', R)[:4]:
            items.append(mk(lab, mkg, fields(summand=cheat), 'cheat', FUNC_ERR, tag='whitelist-none:summand'))
    items.append(mk(lab, mkg, fields(summand='n^2+n', lower='1+0*abs(1)'), 'cheat', FUNC_ERR, tag='whitelist-none:lower'))
    items.append(mk(lab, mkg, fields(summand='n^2+n', upper='4*cos(0)'), 'cheat', FUNC_ERR, tag='whitelist-none:upper'))
    # the student enters only some of the fields
    layouts = [('summand only', {'summand': 1}, lambda s, v='n': s if v == 'n' else None),
               ('summand, variable', {'summand': 1, 'summation_variable': 2}, lambda s, v='n': [s, v]),
               ('variable, summand', {'summation_variable': 1, 'summand': 2}, lambda s, v='n': [v, s]),
               ('upper, summand', {'upper': 1, 'summand': 2}, lambda s, v='n': ['4', s] if v == 'n' else None)]
    if tier == 'quick':
        layouts = [layouts[0], layouts[2]]
    for lname, pos, shape in layouts:
        for label, kw, R, allowed, tag in (('blacklist=[sin]', dict(blacklist=['sin']), 'sin(0)', FUNC_ERR, 'blacklist'),
                                           ('whitelist=[cos]', dict(whitelist=['cos']), 'sqrt(4)', FUNC_ERR, 'whitelist'),
                                           ('instructor_vars=[z]', dict(variables=['z'], instructor_vars=['z']), 'z', UNDEF_ERR, 'instructor-var'),
                                           ('forbidden_strings=[n+n]', dict(forbidden_strings=['n+n']), None, FUNC_ERR, 'forbidden'),
                                           ('required_functions=[cos]', dict(required_functions=['cos']), None, FUNC_ERR, 'required')):
            mkg = lambda kw=kw, pos=pos: SumGrader(answers=dict(base), input_positions=dict(pos), **kw)
            lab = 'SumGrader %s; student enters %s' % (label, lname)
            items.append(mk(lab, mkg, shape(S), 'control', credit=1))
            if shape(S, 'm') is not None:
                items.append(mk(lab, mkg, shape('m+cos(m)*2', 'm'), 'control', credit=1))
            if R is not None:
                cheats = contexts(S, R)[:4]
            elif tag == 'forbidden':
                cheats = ['2*cos(n)+n+n-n', '2*cos(n+n-n)+n', '2*cos(n)+n +n-n']
            else:
                cheats = ['2*sin(n+pi/2)+n', '2*re(exp(i*n))+n']
            for cheat in cheats:
                items.append(mk(lab, mkg, shape(cheat), 'cheat', allowed, tag=tag + ':partial-layout'))
    return items


def build_list_wrappers(tier):
    """the restricted grader sits inside a list grader: a cheat in one entry must still be refused (not merely lose that entry)"""
    from mitxgraders import SingleListGrader
    items = []
    a1, a2 = 'cos(x)+x', '2*cos(x)'
    restr = [
        ('blacklist=[sin]', dict(blacklist=['sin']), 'cos(x)+x+0*sin(x)', '2*cos(x)+sin(x)-sin(x)', FUNC_ERR, 'blacklist'),
        ('whitelist=[cos]', dict(whitelist=['cos']), 'cos(x)+x*sqrt(4)/2', '2*cos(x)+0*abs(x)', FUNC_ERR, 'whitelist'),
        ('forbidden_strings=[x+x]', dict(forbidden_strings=['x+x']), 'cos(x)+x+x-x', '2*cos(x+x-x)', FUNC_ERR, 'forbidden'),
        ('required_functions=[cos]', dict(required_functions=['cos']), 'sin(x+pi/2)+x', '2*sin(x+pi/2)', FUNC_ERR, 'required'),
        ('instructor_vars=[z]', dict(instructor_vars=['z']), 'cos(x)+x+0*z', '2*cos(x)+z-z', UNDEF_ERR, 'instructor-var'),
        ('plain (unknown q)', dict(), 'cos(x)+x+0*q', '2*cos(x)*q^0', UNDEF_ERR, 'undefined-name'),
    ]
    wrong = 'x^3'
    if tier == 'quick':
        restr = [r for r in restr if r[5] in ('blacklist', 'forbidden', 'required', 'instructor-var')]
    for label, kw, c1, c2, allowed, tag in restr:
        sub = lambda kw=kw: FormulaGrader(variables=['x', 'z'] if 'instructor_vars' in kw else ['x'], **kw)
        wrappers = [
            ('SingleListGrader unordered', lambda sub=sub: SingleListGrader(answers=[a1, a2], subgrader=sub()), ', '.join, False),
            ('SingleListGrader ordered', lambda sub=sub: SingleListGrader(answers=[a1, a2], subgrader=sub(), ordered=True), ', '.join, True),
            ('SingleListGrader delimiter ;', lambda sub=sub: SingleListGrader(answers=[a1, a2], subgrader=sub(), delimiter=';'), ';'.join, False),
            ('ListGrader unordered', lambda sub=sub: ListGrader(answers=[a1, a2], subgraders=sub()), list, False),
            ('ListGrader ordered', lambda sub=sub: ListGrader(answers=[a1, a2], subgraders=sub(), ordered=True), list, True),
            ('ListGrader of two SingleListGraders',
             lambda sub=sub: ListGrader(answers=[[a1, a2], [a2, a1]], subgraders=SingleListGrader(subgrader=sub()), ordered=True),
             None, False),
        ]
        if tier == 'quick':
            wrappers = [w for w in wrappers if 'delimiter' not in w[0]]
        for wname, mkg, shape, ordered in wrappers:
            lab = '%s around FormulaGrader %s' % (wname, label)
            if shape is None:
                items.append(mk(lab, mkg, [a1 + ', ' + a2, a1 + ',' + a2], 'control', credit=1))
                for pair in ([c1 + ',' + a2, a1 + ',' + a2], [a1 + ',' + a2, a1 + ',' + c2], [a2 + ',' + c1, wrong + ',' + wrong],
                             [wrong + ',' + wrong, wrong + ',' + c2]):
                    items.append(mk(lab, mkg, pair, 'cheat', allowed, tag=tag + ':nested-list'))
                continue
            items.append(mk(lab, mkg, shape([a1, a2]), 'control', credit=1))
            pairs = [(c1, a2), (a1, c2), (c1, c2), (c1, wrong), (wrong, c2)]
            if not ordered:
                pairs += [(a2, c1), (c2, a1), (c2, wrong), (wrong, c1)]
            for pair in pairs:
                items.append(mk(lab, mkg, shape(list(pair)), 'cheat', allowed, tag=tag + ':list-entry'))
    return items


def build_construction_order(tier):
    """graders built (and used) EARLIER in the same process: what they allow must not become available to a later grader, what they
    remove or restrict must not be missing from a later grader; and the same text graded first by a more permissive grader"""
    items = []
    base = dict(lower='1', upper='4', summand='2*cos(n)+n', summation_variable='n')
    A = '2*cos(x)+x'
    later = [
        ('FormulaGrader', lambda: FormulaGrader(answers=A, variables=['x']), lambda t: A + t.replace('@', 'x')),
        ('MatrixGrader', lambda: MatrixGrader(answers=A, variables=['x']), lambda t: A + t.replace('@', 'x')),
        ('NumericalGrader', lambda: NumericalGrader(answers='2*cos(1)+3', tolerance='0.01%'), lambda t: '2*cos(1)+3' + t.replace('@', '1')),
        ('SumGrader', lambda: SumGrader(answers=dict(base)), lambda t: ['1', '4', '2*cos(n)+n' + t.replace('@', 'n'), 'n']),
    ]
    widening = [
        ('FormulaGrader(allow_inf=True)', lambda: FormulaGrader(answers='x', variables=['x'], allow_inf=True), 'x+0/infty', '+0/infty',
         ('FormulaGrader', 'MatrixGrader', 'NumericalGrader')),
        ('NumericalGrader(allow_inf=True)', lambda: NumericalGrader(answers='3', allow_inf=True), '3+0/infty', '+0/infty',
         ('FormulaGrader', 'MatrixGrader', 'NumericalGrader')),
        ('FormulaGrader(user_constants={q: 2})', lambda: FormulaGrader(answers='x', variables=['x'], user_constants={'q': 2}), 'x+0*q',
         '+0*q', None),
        ('NumericalGrader(user_constants={q: 2})', lambda: NumericalGrader(answers='4', user_constants={'q': 2}), '2*q', '+0*q', None),
        ('FormulaGrader(user_functions={h: ...})', lambda: FormulaGrader(answers='x', variables=['x'], user_functions={'h': _sq}),
         'x+0*h(x)', '+0*h(@)', None),
        ('SumGrader(user_functions={h: ...})', lambda: SumGrader(answers=dict(base), user_functions={'h': _sq}),
         ['1', '4', '2*cos(n)+n+0*h(n)', 'n'], '+0*h(@)', None),
        ('FormulaGrader(metric_suffixes=True)', lambda: FormulaGrader(answers='x', variables=['x'], metric_suffixes=True), 'x+0*2k',
         '+0*2k', None),
        ('SumGrader(metric_suffixes=True)', lambda: SumGrader(answers=dict(base), metric_suffixes=True),
         ['1', '4', '2*cos(n)+n+0*2k', 'n'], '+0*2k', None),
        ('MatrixGrader(identity_dim=2)', lambda: MatrixGrader(answers='x*I', variables=['x'], identity_dim=2, max_array_dim=2),
         '[[x,0],[0,x]]', '+0*det(I)', None),
        ('MatrixGrader() (matrix-only functions)', lambda: MatrixGrader(answers='x', variables=['x']), 'x+0*trans(2)', '+0*trans(2)',
         ('FormulaGrader', 'NumericalGrader', 'SumGrader')),
        ('FormulaGrader(variables=[x, y])', lambda: FormulaGrader(answers='x', variables=['x', 'y']), 'x+0*y', '+0*y', None),
        ('FormulaGrader(numbered_vars=[a])', lambda: FormulaGrader(answers='x', variables=['x'], numbered_vars=['a']), 'x+0*a_{1}',
         '+0*a_{1}', None),
        ('SumGrader() (constant infty)', lambda: SumGrader(answers=dict(base)), ['1', '4', '2*cos(n)+n', 'n'], '+0/infty',
         ('FormulaGrader', 'MatrixGrader', 'NumericalGrader')),
    ]
    for ename, emk, einp, term, only in widening:
        for lname, lmk, shape in later:
            if only is not None and lname not in only:
                continue
            lab = '%s built and used first, then a plain %s' % (ename, lname)
            items.append(mk(lab, lmk, shape(term), 'cheat', UNDEF_ERR, tag='leaked-from-earlier-grader', before_with=((emk, einp),)))
            if tier != 'quick':
                items.append(mk(lab, lmk, shape(''), 'control', credit=1, before_with=((emk, None),)))
    narrowing = [
        ('NumericalGrader(user_constants={pi: None, e: None})', lambda: NumericalGrader(answers='3', user_constants={'pi': None, 'e': None}),
         '3', '+0*pi*e'),
        ('FormulaGrader(instructor_vars=[pi, i])', lambda: FormulaGrader(answers='x+0*pi', variables=['x'], instructor_vars=['pi', 'i']), 'x',
         '+0*pi*i'),
        ('FormulaGrader(blacklist=[cos, abs])', lambda: FormulaGrader(answers='x', variables=['x'], blacklist=['cos', 'abs']), 'x',
         '+0*abs(@)'),
        ('FormulaGrader(whitelist=[None])', lambda: FormulaGrader(answers='x', variables=['x'], whitelist=[None]), 'x', '+0*abs(@)'),
        ('SumGrader(whitelist=[sin])', lambda: SumGrader(answers=dict(base, summand='n'), whitelist=['sin']), ['1', '4', 'n', 'n'], '+0*abs(@)'),
        ('FormulaGrader(forbidden_strings=[cos], required_functions=[tan])',
         lambda: FormulaGrader(answers='tan(x)', variables=['x'], forbidden_strings=['cos'], required_functions=['tan']), 'tan(x)', '+0*abs(@)'),
    ]
    for ename, emk, einp, term in narrowing:
        for lname, lmk, shape in later:
            lab = '%s built and used first, then a plain %s' % (ename, lname)
            items.append(mk(lab, lmk, shape(term), 'control', credit=1, before_with=((emk, einp),)))
    # the same text: first graded by a grader that allows it, then by the grader that restricts it (and the other way round)
    same_text = [
        ('blacklist=[sin]', lambda **kw: FormulaGrader(answers=A, variables=['x'], **kw), dict(blacklist=['sin']), dict(),
         [A + '+0*sin(x)', A + '+sin(x)-sin(x)'], A, FUNC_ERR, 'blacklist'),
        ('whitelist=[cos]', lambda **kw: MatrixGrader(answers=A, variables=['x'], **kw), dict(whitelist=['cos']), dict(),
         [A + '+0*sqrt(4)', A + '*exp(0)'], A, FUNC_ERR, 'whitelist'),
        ('forbidden_strings=[2*x]', lambda **kw: FormulaGrader(answers='2*sin(x)*cos(x)', variables=['x'], **kw),
         dict(forbidden_strings=['2*x']), dict(), ['sin(2*x)', 'sin(2 * x)'], '2*sin(x)*cos(x)', FUNC_ERR, 'forbidden'),
        ('required_functions=[cos]', lambda **kw: FormulaGrader(answers='cos(2*x)', variables=['x'], **kw),
         dict(required_functions=['cos']), dict(), ['1-2*sin(x)^2', 'sin(2*x+pi/2)'], 'cos(2*x)', FUNC_ERR, 'required'),
        ('instructor_vars=[z]', lambda **kw: FormulaGrader(answers=A + '+z-z', variables=['x', 'z'], **kw), dict(instructor_vars=['z']),
         dict(), [A + '+0*z', A + '+z-z', A + '*z^0'], A, UNDEF_ERR, 'instructor-var'),
        ('instructor_vars=[c] (constant)', lambda **kw: NumericalGrader(answers='2*c', user_constants={'c': 3e8}, tolerance='0.01%', **kw),
         dict(instructor_vars=['c']), dict(), ['2*c', '6e8+0*c'], '6e8', UNDEF_ERR, 'instructor-var'),
        ('SumGrader blacklist=[sin]', lambda **kw: SumGrader(answers=dict(base), **kw), dict(blacklist=['sin']), dict(),
         [['1', '4', '2*cos(n)+n+0*sin(n)', 'n'], ['1+0*sin(0)', '4', '2*cos(n)+n', 'n']], ['1', '4', '2*cos(n)+n', 'n'], FUNC_ERR,
         'blacklist'),
        ('SumGrader instructor_vars=[z]', lambda **kw: SumGrader(answers=dict(base), variables=['z'], **kw), dict(instructor_vars=['z']),
         dict(), [['1', '4', '2*cos(n)+n+0*z', 'n'], ['1', '4+0*z', '2*cos(n)+n', 'n']], ['1', '4', '2*cos(n)+n', 'n'], UNDEF_ERR,
         'instructor-var'),
    ]
    for label, make, strict_kw, loose_kw, cheats, clean, allowed, tag in same_text:
        strict = lambda make=make, kw=strict_kw: make(**kw)
        loose = lambda make=make, kw=loose_kw: make(**kw)
        for cheat in (cheats[:1] if tier == 'quick' else cheats):
            lab = '%s: the same text was first graded (and credited) by the grader without the restriction' % label
            items.append(mk(lab, strict, cheat, 'cheat', allowed, tag=tag + ':same-text-permissive-first', before_with=((loose, cheat),)))
            items.append(mk(lab, strict, clean, 'control', credit=1, before_with=((loose, cheat),)))
            lab = '%s: the same text was first refused by the restricted grader, then goes to the grader without the restriction' % label
            items.append(mk(lab, loose, cheat, 'control', credit=1, before_with=((strict, cheat),)))
    return items


# ------------------------------------------------------------------------------ every short formula

TF_TOKENS = ['x', 'z', '0', '2', '+', '*', '-', 'sin(', 'cos(', ')', '^']
TF_X = (0.7, 1.9)


def _tf_graders():
    common = dict(variables=['x'], sample_from={'x': DiscreteSet(TF_X)}, samples=2)
    ans = {'expect': 'x', 'grade_decimal': 1}
    half = ({'expect': '2*x', 'grade_decimal': 0.5}, {'expect': 'x', 'grade_decimal': 1})
    return [
        ('blacklist=[sin]', 'func', {'sin'}, FormulaGrader(answers=half, blacklist=['sin'], **common)),
        ('whitelist=[cos]', 'func', {'sin'}, FormulaGrader(answers=half, whitelist=['cos'], **common)),
        ('whitelist=[None]', 'func', {'sin', 'cos'}, FormulaGrader(answers=half, whitelist=[None], **common)),
        ('instructor_vars=[z] (z a sampled variable)', 'name', {'z'},
         FormulaGrader(answers=half, variables=['x', 'z'], sample_from={'x': DiscreteSet(TF_X), 'z': DiscreteSet((0, 3))},
                       samples=2, instructor_vars=['z'])),
        ('instructor_vars=[z] (z the constant 0)', 'name', {'z'},
         FormulaGrader(answers=half, user_constants={'z': 0}, instructor_vars=['z'], **common)),
        ('plain (z unknown)', 'name', {'z'}, FormulaGrader(answers=half, **common)),
        ("forbidden_strings=['+0', '0*']", 'forbidden', ('+0', '0*'),
         FormulaGrader(answers=half, forbidden_strings=['+0', '0*'], **common)),
        ("required_functions=['cos']", 'required', {'cos'},
         FormulaGrader(answers={'expect': 'x+cos(0)-1', 'grade_decimal': 1}, required_functions=['cos'], **common)),
    ]


class TokenFormulas(Family):
    """every grammatical formula over a small token alphabet, not only hand-made cheats"""
    name = 'token_formulas'
    timeout = 60.0
    rule = ('every concatenation of 1..N tokens (N = 5 quick, 6 thorough) from %r that the reference grammar accepts, submitted to '
            '8 graders (blacklist, whitelist, whitelist=[None], instructor variable sampled / constant 0, unknown name, forbidden '
            'strings, required function; answers x [credit 1] and 2*x [credit 0.5], x drawn from {0.7, 1.9}): a formula that '
            'mentions z is never graded; a formula that uses a refused function, contains a forbidden string (spaces ignored) or '
            'lacks the required function never earns credit; non-trivial = it would earn credit by value' % (TF_TOKENS,))

    def setup(self, tier):
        from ..refs import expr as RX
        self.RX = RX
        self.graders = _tf_graders()

    def cases(self, tier):
        from ..refs import expr as RX
        n = 5 if tier == 'quick' else 6
        for L in range(1, n + 1):
            for combo in itertools.product(range(len(TF_TOKENS)), repeat=L):
                # cheap necessary conditions before asking the reference grammar
                first, last = TF_TOKENS[combo[0]], TF_TOKENS[combo[-1]]
                if first in ('+', '*', '^', ')') or last in ('+', '*', '-', '^', 'sin(', 'cos('):
                    continue
                opens = sum(1 for c in combo if TF_TOKENS[c].endswith('('))
                if opens != sum(1 for c in combo if TF_TOKENS[c] == ')'):
                    continue
                yield ''.join(TF_TOKENS[c] for c in combo)

    def describe(self, case):
        return case

    def value_class(self, ast, used_vars):
        """'x' / '2x' / 'other' / 'undefined' by value at both sample points (z taken as 0 and 3 to see cancellation)"""
        import math
        F = {'sin': (1, math.sin), 'cos': (1, math.cos)}
        kinds = set()
        for zval in (0.0, 3.0):
            vals = []
            for x in TF_X:
                try:
                    v = self.RX.evaluate(ast, {'x': x, 'z': zval}, F, {})
                except self.RX.AnyOutcome:
                    return 'open'
                except Exception:
                    return 'undefined'
                if isinstance(v, complex):
                    if abs(v.imag) > 1e-12:
                        return 'other'
                    v = v.real
                if not isinstance(v, (int, float)) or v != v:
                    return 'undefined'
                vals.append(v)
            if all(abs(v - x) <= 1e-9 * max(1, abs(x)) for v, x in zip(vals, TF_X)):
                kinds.add('x')
            elif all(abs(v - 2 * x) <= 1e-9 * max(1, abs(x)) for v, x in zip(vals, TF_X)):
                kinds.add('2x')
            elif all(abs(v - x) > 1e-3 and abs(v - 2 * x) > 1e-3 for v, x in zip(vals, TF_X)):
                kinds.add('other')
            else:
                return 'open'
        return kinds.pop() if len(kinds) == 1 else 'open'

    def check(self, case):
        s = case
        try:
            ast, rv, rf, rs = self.RX.parse(s)
        except self.RX.RefParseError:
            return Result('outside-the-grammar', False, None, 0)
        if rs:
            return Result('suffix', False, None, 0)
        vclass = self.value_class(ast, rv)
        nospace = s.replace(' ', '')
        calls = 0
        nontriv = False
        outcome = vclass
        for label, kind, what, g in self.graders:
            calls += 1
            out = run(g, s)
            got_credit = None
            if out[0] == 'ok':
                got_credit = out[1]['grade_decimal']
            where = 'FormulaGrader %s; input %r' % (label, s)
            if kind == 'name' and (set(rv) & what):
                nontriv = nontriv or vclass in ('x', '2x')
                if out[0] == 'ok':
                    return Result('graded-undefined-name', True,
                                  viol('token_formulas:name-graded:%s' % ('would-earn-credit' if vclass in ('x', '2x') else 'no-credit'),
                                       '%s: mentions a name the student may not use, expected UndefinedVariable, got %r' % (where, out[1]),
                                       'UndefinedVariable', out[1]), calls)
                if not isinstance(out[1], StudentFacingError):
                    return Result('wrong-error', True,
                                  viol('token_formulas:name-not-student-facing-error', '%s: raised %r' % (where, out[1]),
                                       'UndefinedVariable', repr(out[1])), calls)
                continue
            restricted = ((kind == 'func' and (set(rf) & what)) or (kind == 'forbidden' and any(w in nospace for w in what))
                          or (kind == 'required' and not (set(rf) & what)))
            if restricted:
                nontriv = nontriv or vclass in ('x', '2x')
                if got_credit:
                    return Result('restricted-credited', True,
                                  viol('token_formulas:bypass-earned-credit:%s' % kind,
                                       '%s: violates the restriction but earned %r' % (where, out[1]), 'refusal (InvalidInput)', out[1]),
                                  calls)
                if (vclass == 'x' or (vclass == '2x' and kind != 'required')) and out[0] == 'ok':
                    # would earn credit by value: must be REFUSED, not silently graded wrong
                    return Result('restricted-graded', True,
                                  viol('token_formulas:graded-instead-of-refused:%s' % kind,
                                       '%s: numerically earns credit, violates the restriction, expected InvalidInput, got %r'
                                       % (where, out[1]), 'InvalidInput', out[1]), calls)
            elif kind != 'name' and not (set(rv) - {'x'}) and vclass in ('x', '2x', 'other') and not (set(rf) - {'sin', 'cos'}):
                # permitted formula: graded by value
                want = {'x': 1.0, '2x': 0.5, 'other': 0.0}[vclass]
                if kind == 'required':
                    want = {'x': 1.0}.get(vclass, 0.0)
                if out[0] != 'ok':
                    if isinstance(out[1], MITxError) and vclass == 'other':
                        continue        # evaluation problems of wrong formulas (overflow, ...) are the student's
                    return Result('permitted-refused', True,
                                  viol('token_formulas:permitted-formula-refused:%s' % kind, '%s: raised %r' % (where, out[1]),
                                       want, repr(out[1])), calls)
                if abs(got_credit - want) > 1e-9:
                    return Result('permitted-wrong-credit', True,
                                  viol('token_formulas:permitted-formula-wrong-credit:%s' % kind,
                                       '%s: expected credit %r, got %r' % (where, want, out[1]), want, out[1]), calls)
        return Result(outcome, nontriv, None, calls)


class joined(object):
    """several builders as one family (fewer worker slices, hence fewer renewals of the process-wide parser)"""

    def __init__(self, *builders):
        self.builders = builders

    def __call__(self, tier):
        out = []
        for b in self.builders:
            out.extend(b(tier))
        return out


def families(tier):
    return [
        Restriction('function_restrictions',
                    'blacklist / whitelist / whitelist=[None] / user function + lists on Formula, Matrix, Numerical graders x restricted '
                    'functions x 9-12 neutralising contexts x space renderings x credit {1, .5}', build_functions),
        Restriction('required_and_forbidden',
                    'required_functions (answer rewritten without the function) and forbidden_strings (configured with and without '
                    'inner spaces; a space inserted at every position of the cheat) on Formula, Matrix, Numerical', build_required_forbidden),
        Restriction('names',
                    'instructor variables (sampled, dependent, constant), unknown / case-variant / primed / suffix-like names, '
                    'numbered-variable misuse, each in 9-11 neutralising contexts and alone', build_names),
        Restriction('siblings', 'ordered ListGrader whose second answer references sibling_1: student use of sibling names', build_siblings),
        TokenFormulas(),
        Restriction('sum_grader', 'SumGrader with all four fields entered by the student; restricted construct in summand, lower or upper',
                    build_sum),
        Restriction('partial_credit_and_look_alikes',
                    '(a) the verdict is partial because of the COMPARER (author comparers returning "partial" / a quarter, '
                    'LinearComparer multiples, MatrixGrader entry_partial_credit with one wrong entry) x blacklist / whitelist / '
                    'forbidden / required x neutralising contexts, on Formula, Matrix, Numerical; (b) functions whose names contain '
                    'the required / blacklisted / whitelisted name (cosh, arccos, sinh, arcsin), required user functions, '
                    'whitelist=[None] next to a user function, forbidden strings equal to the whole input / ending it / listed last, '
                    'author answers that themselves contain the forbidden string or lack the required function',
                    joined(build_comparer_partial, build_lookalikes), hermetic=True),
        Restriction('names_siblings_sums_wider',
                    '(a) single removed default constants, non-suffixes under metric_suffixes=True, function names used as variables '
                    'and constants / variables called as functions, non-integer numbered-variable indices and two numbered heads, '
                    'primed instructor variable, debug=True / samples=1 / failable_evals, identity I as instructor constant; '
                    '(b) ordered lists: forward reference (first answer in terms of sibling_2), chain of three, Matrix subgrader, '
                    'sibling + instructor variable, one grader per box, grouped nested lists; (c) SumGrader: instructor names with '
                    'falsy first value, removed constant, numbered variables, suffixes, whitelist=[None], user function + whitelist, '
                    'layouts where the student enters only some fields',
                    joined(build_names_wider, build_siblings_wider, build_sum_wider), hermetic=True),
        Restriction('lists_and_construction_order',
                    '(a) a restricted FormulaGrader inside SingleListGrader / ListGrader (ordered, unordered, other delimiter, '
                    'nested): a cheat in one entry, next to a right or a wrong other entry, in either position; (b) a grader that '
                    'allows more (allow_inf, user constants / functions, metric suffixes, identity, matrix functions, extra variables, '
                    'numbered variables, infty) or less (removed constants, instructor_vars, blacklist, whitelist, forbidden, required) '
                    'is built and used first in the same process, then a plain Formula / Matrix / Numerical / Sum grader; and the same '
                    'text graded first by the grader without the restriction (and the other way round)',
                    joined(build_list_wrappers, build_construction_order), hermetic=True),
    ]
