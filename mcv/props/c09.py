"""
C09 -- restrictions on student formulas cannot be bypassed to obtain credit.

ENUM: restriction configurations x "cheating" formulas built as (correct answer) combined with a
neutralising context around a restricted construct x renderings with spaces, for Formula,
Numerical, Matrix and Sum graders and ordered lists with sibling references.  Controls (the clean
answer and clean rewrites, and author answers that use the restricted constructs) must earn the
configured credit, so the configurations are known not to reject everything.
"""
import itertools
from ..core import Family, Result, viol, HarnessError
from .. import chooser

from mitxgraders import (FormulaGrader, NumericalGrader, MatrixGrader, SumGrader, ListGrader, DependentSampler, DiscreteSet,
                         RealInterval)
from mitxgraders.exceptions import InvalidInput, StudentFacingError, MITxError
from mitxgraders.helpers.calc.exceptions import UndefinedVariable, UndefinedFunction, CalcError

PROPERTY = 'C09'
RULE = ('restriction configs x (correct answer combined with a neutral term using the restricted construct) x neutralising '
        'contexts x space renderings x answer credit {1, 0.5}; every cheat would earn credit if the restriction were ignored '
        '(it is numerically equal to the answer), so every cheat is non-trivial; controls must earn exactly the credit')
EXPLANATION = 'states = distinct (configuration, formula) cases; transitions = real grader calls'
ASSUMPTIONS = ['forbidden strings are compared ignoring spaces only (tabs/em-dashes are outside the statement)',
               'Sum graders: all four fields are entered by the student',
               'RNG owned by the explorer with default answers (deterministic samples)']


def run(g, inp):
    def body(ch):
        try:
            return ('ok', g(None, inp))
        except Exception as e:
            return ('err', e)
    ch, out = chooser.run_with(body)
    return out


def contexts(A, R, matrix=False, userfn=None):
    """neutralising contexts: numerically equal to A but mentioning R"""
    out = [
        '%s+0*%s' % (A, R),
        '%s+%s-%s' % (A, R, R),
        '(%s)*(%s)^0' % (A, R),
        '%s+0*cos(%s)' % (A, R),
        '(%s)*2^(0*%s)' % (A, R),
        '0*%s+%s' % (R, A),
        '%s-0*(%s+1)' % (A, R),
        '%s+0/(2+(%s)^2)' % (A, R),
        '%s+0*abs(0*%s)' % (A, R),
    ]
    if matrix:
        out.append('%s+0*([%s,1]*[1,0])' % (A, R))
        out.append('%s+0*([0*%s,1]*[1,1])' % (A, R))
    if userfn:
        out.append('%s+0*%s(%s)' % (A, userfn, R))
    return out


def spaced(s):
    """renderings: plain, a space at every single position, spaces everywhere"""
    out = [s, ' '.join(s), ' ' + s + ' ']
    for i in range(1, len(s)):
        out.append(s[:i] + ' ' + s[i:])
    return out


FUNC_ERR = ('InvalidInput',)
UNDEF_ERR = ('UndefinedVariable', 'UndefinedFunction')


def classify(out, allowed, credit_forbidden=True):
    """returns (outcome, violation-tuple or None)"""
    if out[0] == 'ok':
        res = out[1]
        g = res.get('grade_decimal') if isinstance(res, dict) and 'grade_decimal' in res else None
        if g is None and isinstance(res, dict) and 'input_list' in res:
            g = max(e['grade_decimal'] for e in res['input_list'])
        return ('graded:%s' % ('credit' if g else 'zero')), ('credit' if g else 'zero', res)
    e = out[1]
    name = type(e).__name__
    names = [c.__name__ for c in type(e).__mro__]
    if any(n in names for n in allowed):
        return 'refused:' + name, None
    if not isinstance(e, MITxError):
        return 'raw:' + name, ('raw', repr(e))
    return 'other-error:' + name, ('wrongclass', repr(e))


class Restriction(Family):
    """generic: a list of (label, grader factory, cheats, allowed error classes, controls, credit)"""
    timeout = 60.0

    def __init__(self, name, rule, builder):
        self.name = name
        self.rule = rule
        self.builder = builder

    def setup(self, tier):
        self.items = self.builder(tier)
        self.control_for = {}
        for it in self.items:
            if it['kind'] == 'control' and it['label'] not in self.control_for:
                self.control_for[it['label']] = it

    def cases(self, tier):
        items = self.builder(tier)
        for i, it in enumerate(items):
            yield i

    def describe(self, case):
        it = self.items[case] if hasattr(self, 'items') else self.builder('thorough')[case]
        return {'config': it['label'], 'input': it['input'], 'kind': it['kind']}

    def check(self, case):
        it = self.items[case]
        g = it['grader']()
        for pre in it.get('before', ()):
            run(it['grader'](), pre)          # earlier submissions (whatever their outcome) must not matter
        out = run(g, it['input'])
        where = '%s; input %r' % (it['label'], it['input'])
        if it['kind'] == 'control':
            if out[0] != 'ok':
                return Result('control-raised', True,
                              viol(self.name + ':control-refused', '%s: a permitted answer was refused: %r' % (where, out[1]),
                                   it['credit'], repr(out[1])))
            res = out[1]
            g_ = res['grade_decimal'] if 'grade_decimal' in res else min(e['grade_decimal'] for e in res['input_list'])
            if abs(g_ - it['credit']) > 1e-9:
                return Result('control-wrong', True,
                              viol(self.name + ':control-wrong-credit', '%s: expected credit %r, got %r' % (where, it['credit'], res),
                                   it['credit'], res))
            return Result('control-credited', False)
        o, bad = classify(out, it['allowed'])
        if bad is None:
            # a refused submission must not poison later grading: the clean answer of this configuration (a fresh grader,
            # same process-wide parser) must still earn its credit right afterwards
            ctl = self.control_for.get(it['label'])
            if ctl is not None:
                out2 = run(it['grader'](), ctl['input'])
                ok2 = out2[0] == 'ok'
                if ok2:
                    res2 = out2[1]
                    g2 = res2['grade_decimal'] if 'grade_decimal' in res2 else min(e['grade_decimal'] for e in res2['input_list'])
                    ok2 = abs(g2 - ctl['credit']) <= 1e-9
                if not ok2:
                    return Result('control-after-cheat-wrong', True,
                                  viol(self.name + ':clean-answer-refused-after-a-refused-cheat:' + it['tag'],
                                       '%s: after the refused input %r the clean answer %r no longer earns %r: %r'
                                       % (it['label'], it['input'], ctl['input'], ctl['credit'], out2[1]), ctl['credit'], repr(out2[1])[:300]), 2)
            return Result(o, True, None, 2)
        what, detail = bad
        if what == 'credit':
            sig = ':bypass-earned-credit'
        elif what == 'zero':
            sig = ':graded-instead-of-refused'
        elif what == 'raw':
            sig = ':raw-error'
        else:
            sig = ':wrong-error-class'
        return Result(o, True, viol(self.name + sig + ':' + it['tag'],
                                    '%s: expected a refusal (%s), got %s' % (where, '/'.join(it['allowed']), detail),
                                    it['allowed'], detail))


def mk(label, grader, inp, kind, allowed=None, credit=None, tag='', before=()):
    return dict(label=label, grader=grader, input=inp, kind=kind, allowed=allowed, credit=credit, tag=tag, before=before)


# balanced, but too deep for the recursive grammar: fails inside the parser with a non-parse error (generic message)
DEEP = '(' * 150 + '1' + ')' * 150


def build_functions(tier):
    """blacklist / whitelist / whitelist=[None] / user function + blacklist, on Formula, Matrix, Numerical"""
    items = []
    for credit in (1, 0.5):
        ans = lambda e: {'expect': e, 'grade_decimal': credit}
        # Formula / Matrix with variable x
        for cls, clsname, matrix in ((FormulaGrader, 'FormulaGrader', False), (MatrixGrader, 'MatrixGrader', True)):
            A = '2*cos(x)+x'
            cfgs = [
                ('blacklist=[sin]', dict(blacklist=['sin']), ['sin(0)', 'sin(x)', 'sin(x+1)'], 'blacklist'),
                ('blacklist=[sin,tan,exp]', dict(blacklist=['sin', 'tan', 'exp']), ['tan(x)', 'exp(0)'], 'blacklist'),
                ('whitelist=[cos,abs]', dict(whitelist=['cos', 'abs']), ['sqrt(4)', 'sin(x)', 'exp(0)', 'sec(x)'], 'whitelist'),
                ('user h + blacklist=[sin]', dict(blacklist=['sin'], user_functions={'h': lambda t: t * t}), ['sin(x)'], 'blacklist'),
                ('user h + whitelist=[cos,abs]', dict(whitelist=['cos', 'abs'], user_functions={'h': lambda t: t * t}), ['sin(x)', 'sqrt(4)'],
                 'whitelist'),
            ]
            for label, kw, Rs, tag in cfgs:
                uf = 'h' if 'user_functions' in kw else None
                mkg = (lambda cls=cls, kw=kw, credit=credit: cls(answers={'expect': '2*cos(x)+x', 'grade_decimal': credit},
                                                                 variables=['x'], **kw))
                lab = '%s %s credit %r' % (clsname, label, credit)
                for ctrl in (A, 'x+cos(x)*2', '2*cos(x)+x+0*abs(x)') + (('2*cos(x)+x+0*h(x)',) if uf else ()):
                    items.append(mk(lab, mkg, ctrl, 'control', credit=credit))
                for R in Rs:
                    for cheat in contexts(A, R, matrix=matrix, userfn=uf):
                        for s in (spaced(cheat)[:3] if tier == 'quick' else spaced(cheat)[:3] + spaced(cheat)[3::7]):
                            items.append(mk(lab, mkg, s, 'cheat', FUNC_ERR, tag=tag))
            # author answers may use the restricted functions themselves
            mkg = (lambda cls=cls, credit=credit: cls(answers={'expect': 'sin(x)+2*cos(x)+x-sin(x)', 'grade_decimal': credit},
                                                      variables=['x'], blacklist=['sin']))
            items.append(mk('%s author answer uses blacklisted sin' % clsname, mkg, '2*cos(x)+x', 'control', credit=credit))
            mkg = (lambda cls=cls, credit=credit: cls(answers={'expect': 'sqrt(x^2)+cos(x)', 'grade_decimal': credit}, variables=['x'],
                                                      whitelist=['cos', 'abs'], sample_from={'x': [1, 3]}))
            items.append(mk('%s author answer uses non-whitelisted sqrt' % clsname, mkg, 'abs(x)+cos(x)', 'control', credit=credit))
            # whitelist=[None]
            mkg = (lambda cls=cls, credit=credit: cls(answers={'expect': '2*x+1', 'grade_decimal': credit}, variables=['x'],
                                                      whitelist=[None]))
            lab = '%s whitelist=[None] credit %r' % (clsname, credit)
            items.append(mk(lab, mkg, '1+2*x', 'control', credit=credit))
            for R in ('cos(0)', 'sqrt(4)', 'abs(x)'):
                for cheat in contexts('2*x+1', R, matrix=matrix)[:5]:
                    if 'cos(' in cheat and not cheat.count('cos(0)') and R != 'cos(0)':
                        pass
                    items.append(mk(lab, mkg, cheat, 'cheat', FUNC_ERR, tag='whitelist-none'))
        # Numerical
        A = '2*cos(1)+3'
        for label, kw, Rs, tag in [('blacklist=[sin]', dict(blacklist=['sin']), ['sin(0)', 'sin(1)'], 'blacklist'),
                                   ('whitelist=[cos,abs]', dict(whitelist=['cos', 'abs']), ['sqrt(4)', 'exp(0)'], 'whitelist')]:
            mkg = lambda kw=kw, credit=credit: NumericalGrader(answers={'expect': '2*cos(1)+3', 'grade_decimal': credit}, **kw)
            lab = 'NumericalGrader %s credit %r' % (label, credit)
            items.append(mk(lab, mkg, '3+2*cos(1)', 'control', credit=credit))
            for R in Rs:
                for cheat in contexts(A, R):
                    items.append(mk(lab, mkg, cheat, 'cheat', FUNC_ERR, tag=tag))
    return items


def build_required_forbidden(tier):
    items = []
    for credit in (1, 0.5):
        for cls, clsname in ((FormulaGrader, 'FormulaGrader'), (MatrixGrader, 'MatrixGrader')):
            # required_functions
            mkg = lambda cls=cls, credit=credit: cls(answers={'expect': 'cos(2*x)', 'grade_decimal': credit}, variables=['x'],
                                                     required_functions=['cos'])
            lab = '%s required_functions=[cos] credit %r' % (clsname, credit)
            for ctrl in ('cos(2*x)', '2*cos(x)^2-1', 'cos(x)^2-sin(x)^2', '1-2*sin(x)^2+0*cos(x)'):
                items.append(mk(lab, mkg, ctrl, 'control', credit=credit))
            for cheat in ('1-2*sin(x)^2', '1 - 2*sin(x)^2', '(1-tan(x)^2)/(1+tan(x)^2)', 're(exp(2*i*x))', 'sin(2*x+pi/2)',
                          '1/sec(2*x)', '1-2*sin(x)^2+0*Cos', 'sin(pi/2-2*x)'):
                if cheat.endswith('Cos'):
                    continue
                items.append(mk(lab, mkg, cheat, 'cheat', FUNC_ERR, tag='required'))
            # ... also right after a submission that fails deep inside the parser (first-time spellings of the cheat)
            for k, cheat in enumerate(('1-2*sin(x)^2+0*7919', 'sin(2*x+pi/2)+0*7907', '(1-tan(x)^2)/(1+tan(x)^2)+0*7901')):
                items.append(mk(lab + ' after a too-deeply nested submission', mkg, cheat + '*%d' % (k + 2), 'cheat', FUNC_ERR,
                                tag='required-after-failed-parse', before=('cos(1)+sin(1)+' + DEEP,)))
            # two required functions, student omits one
            mkg = lambda cls=cls, credit=credit: cls(answers={'expect': 'sin(x)+cos(x)', 'grade_decimal': credit}, variables=['x'],
                                                     required_functions=['sin', 'cos'])
            lab = '%s required_functions=[sin,cos] credit %r' % (clsname, credit)
            items.append(mk(lab, mkg, 'cos(x)+sin(x)', 'control', credit=credit))
            for cheat in ('sin(x)+sin(x+pi/2)', 'cos(x)+cos(x-pi/2)', 'sqrt(2)*sin(x+pi/4)'):
                items.append(mk(lab, mkg, cheat, 'cheat', FUNC_ERR, tag='required'))
            # forbidden strings (configured with and without inner spaces)
            for fs in (['2*x', '(x+x)'], ['2 * x', '( x + x )'], ['+x', '2*x']):
                mkg = lambda cls=cls, credit=credit, fs=fs: cls(answers={'expect': '2*sin(x)*cos(x)', 'grade_decimal': credit},
                                                                variables=['x'], forbidden_strings=fs)
                lab = '%s forbidden_strings=%r credit %r' % (clsname, fs, credit)
                for ctrl in ('2*sin(x)*cos(x)', 'cos(x)*sin(x)*2', 'sin(x)*cos(x)+cos(x)*sin(x)'):
                    items.append(mk(lab, mkg, ctrl, 'control', credit=credit))
                cheats = ['sin(2*x)']
                if fs[1].replace(' ', '') == '(x+x)':
                    cheats.append('sin((x+x))')
                if fs[0] == '+x':
                    cheats += ['sin(x+x)', '2*sin(x)*cos(x)+x-x']
                for cheat in cheats:
                    for s in spaced(cheat):
                        items.append(mk(lab, mkg, s, 'cheat', FUNC_ERR, tag='forbidden'))
        # Numerical
        mkg = lambda credit=credit: NumericalGrader(answers={'expect': 'sqrt(2)', 'grade_decimal': credit}, forbidden_strings=['sqrt', '^'],
                                                    tolerance='0.1%')
        lab = 'NumericalGrader forbidden_strings=[sqrt,^] credit %r' % credit
        items.append(mk(lab, mkg, '1.41421356', 'control', credit=credit))
        for cheat in ('sqrt(2)', 's q r t(2)', '2^0.5', '2 ^ (1/2)', '1.41421356+0*2^2', 'exp(ln(2)/2)+0*sqrt(1)'):
            items.append(mk(lab, mkg, cheat, 'cheat', FUNC_ERR, tag='forbidden'))
        mkg = lambda credit=credit: NumericalGrader(answers={'expect': 'exp(1)', 'grade_decimal': credit}, required_functions=['exp'],
                                                    tolerance='0.1%')
        lab = 'NumericalGrader required_functions=[exp] credit %r' % credit
        items.append(mk(lab, mkg, 'exp(1)', 'control', credit=credit))
        for cheat in ('e', 'e^1', '2.718281828', 'cosh(1)+sinh(1)'):
            items.append(mk(lab, mkg, cheat, 'cheat', FUNC_ERR, tag='required'))
    return items


def build_names(tier):
    """instructor variables, unknown / case-variant / primed names, numbered variables, suffixes"""
    items = []
    for credit in (1, 0.5):
        for cls, clsname, matrix in ((FormulaGrader, 'FormulaGrader', False), (MatrixGrader, 'MatrixGrader', True)):
            A = '2*cos(x)+x'
            setups = [
                ('instructor_vars=[z], z a sampled variable',
                 lambda cls=cls, credit=credit: cls(answers={'expect': '2*cos(x)+x+z-z', 'grade_decimal': credit},
                                                    variables=['x', 'z'], instructor_vars=['z']), ['z'], 'instructor-var'),
                ('instructor_vars=[z], z a DependentSampler',
                 lambda cls=cls, credit=credit: cls(answers={'expect': '2*cos(x)+x+z-x^2', 'grade_decimal': credit},
                                                    variables=['x', 'z'], instructor_vars=['z'],
                                                    sample_from={'z': DependentSampler(formula='x^2')}), ['z'], 'instructor-var'),
                ('instructor_vars=[z], z a user constant',
                 lambda cls=cls, credit=credit: cls(answers={'expect': '2*cos(x)+x+z-3', 'grade_decimal': credit},
                                                    variables=['x'], user_constants={'z': 3}, instructor_vars=['z']), ['z'], 'instructor-var'),
                # instructor-only names whose VALUE is zero (falsy): hidden all the same
                ('instructor_vars=[z], z a user constant equal to 0',
                 lambda cls=cls, credit=credit: cls(answers={'expect': '2*cos(x)+x+z', 'grade_decimal': credit},
                                                    variables=['x'], user_constants={'z': 0}, instructor_vars=['z']), ['z'], 'instructor-var'),
                ('instructor_vars=[z], z sampled from {0}',
                 lambda cls=cls, credit=credit: cls(answers={'expect': '2*cos(x)+x+z', 'grade_decimal': credit},
                                                    variables=['x', 'z'], sample_from={'z': DiscreteSet((0,))},
                                                    instructor_vars=['z']), ['z'], 'instructor-var'),
                ('instructor_vars=[z], z sampled from {0.0, 2} (first draw 0.0)',
                 lambda cls=cls, credit=credit: cls(answers={'expect': '2*cos(x)+x+z-z', 'grade_decimal': credit},
                                                    variables=['x', 'z'], sample_from={'z': DiscreteSet((0.0, 2))},
                                                    instructor_vars=['z']), ['z'], 'instructor-var'),
                ('instructor_vars=[pi,z]',
                 lambda cls=cls, credit=credit: cls(answers={'expect': '2*cos(x)+x+0*pi', 'grade_decimal': credit},
                                                    variables=['x', 'z'], instructor_vars=['pi', 'z']), ['pi', 'z'], 'instructor-var'),
                ('plain grader (unknown names)',
                 lambda cls=cls, credit=credit: cls(answers={'expect': '2*cos(x)+x', 'grade_decimal': credit}, variables=['x']),
                 ['y', 'X', "x'", 'x_1', 'xx', 'q', 'Pi', 'I', 'x2', 'sibling_1', 'infty', 'Cos(x)', 'COS(x)', 'cosx(x)', "cos'(x)",
                  'x(2)', 'f(x)', '2x', '2k', '3%'[:0] or '2m'], 'undefined-name'),
                ('numbered_vars=[a]',
                 lambda cls=cls, credit=credit: cls(answers={'expect': '2*cos(x)+x+a_{1}-a_{1}', 'grade_decimal': credit},
                                                    variables=['x'], numbered_vars=['a']),
                 ['a', 'a_1', 'a1', 'A_{1}', 'b_{1}', 'a_{x}', 'a_{1}^{2}', "a_{1}'", 'aa_{1}'], 'numbered-var'),
            ]
            for label, mkg, Rs, tag in setups:
                lab = '%s %s credit %r' % (clsname, label, credit)
                items.append(mk(lab, mkg, A, 'control', credit=credit))
                items.append(mk(lab, mkg, 'x+cos(x)*2', 'control', credit=credit))
                if tag == 'numbered-var':
                    items.append(mk(lab, mkg, 'x+cos(x)*2+0*a_{2}+0*a_{-3}+0*a_{0}', 'control', credit=credit))
                for R in Rs:
                    for cheat in contexts(A, R, matrix=matrix) + [R]:
                        items.append(mk(lab, mkg, cheat, 'cheat', UNDEF_ERR, tag=tag))
            # metric suffixes enabled: allowed; disabled: refused
            mkg = lambda cls=cls, credit=credit: cls(answers={'expect': '2*cos(x)+x', 'grade_decimal': credit}, variables=['x'],
                                                     metric_suffixes=True)
            items.append(mk('%s metric_suffixes=True' % clsname, mkg, '2*cos(x)+x+0*2k+0*3%', 'control', credit=credit))
        # Numerical: user constants as instructor vars, unknown names
        mkg = lambda credit=credit: NumericalGrader(answers={'expect': '2*c', 'grade_decimal': credit}, user_constants={'c': 3e8},
                                                    instructor_vars=['c'], tolerance='0.1%')
        lab = 'NumericalGrader instructor constant c credit %r' % credit
        items.append(mk(lab, mkg, '6e8', 'control', credit=credit))
        for cheat in ('2*c', 'c+c', '6e8+0*c', '6e8*c^0', '6e8+c-c', 'C*2', '6e8+0*y', '6e8+0*x', '6e8+0*cos(c)'):
            items.append(mk(lab, mkg, cheat, 'cheat', UNDEF_ERR, tag='instructor-var'))
        # nothing at all left for the student: no variables, every default constant hidden or removed
        empties = [
            ('FormulaGrader no variables, instructor_vars=[pi,e,i,j]',
             lambda credit=credit: FormulaGrader(answers={'expect': '2*pi', 'grade_decimal': credit},
                                                 instructor_vars=['pi', 'e', 'i', 'j'], tolerance='0.1%')),
            ('NumericalGrader with pi, e, i, j removed (user_constants None)',
             lambda credit=credit: NumericalGrader(answers={'expect': '6.283185307', 'grade_decimal': credit},
                                                   user_constants={'pi': None, 'e': None, 'i': None, 'j': None}, tolerance='0.1%')),
            ('MatrixGrader no variables, instructor_vars=[pi,e,i,j]',
             lambda credit=credit: MatrixGrader(answers={'expect': '2*pi', 'grade_decimal': credit},
                                                instructor_vars=['pi', 'e', 'i', 'j'], tolerance='0.1%')),
        ]
        for lab0, mkg in empties:
            lab = '%s credit %r' % (lab0, credit)
            items.append(mk(lab, mkg, '6.283185307', 'control', credit=credit))
            for cheat in ('2*pi', 'pi*2', '6.283185307+0*pi', '6.283185307+pi-pi', '6.283185307*e^0', '6.283185307+0*i',
                          '6.283185307+j-j', '6.283185307+0*x'):
                items.append(mk(lab, mkg, cheat, 'cheat', UNDEF_ERR, tag='empty-scope'))
    return items


def build_siblings(tier):
    items = []
    for credit in (1, 0.5):
        def mkg(credit=credit):
            return ListGrader(
                answers=['x', {'expect': 'sibling_1^2', 'grade_decimal': credit}],
                subgraders=FormulaGrader(variables=['x']), ordered=True)
        lab = 'ordered ListGrader, second answer = sibling_1^2, credit %r' % credit
        items.append(mk(lab, mkg, ['x', 'x^2'], 'control', credit=credit))
        for cheat in ('sibling_1^2', 'sibling_1*x', 'x^2+0*sibling_1', 'x^2+sibling_1-sibling_1', 'x^2*sibling_1^0',
                      'x^2+0*sibling_2', 'x^2+0*cos(sibling_1)', 'Sibling_1^2', 'sibling_1'):
            items.append(mk(lab, mkg, ['x', cheat], 'cheat', UNDEF_ERR, tag='sibling'))
        for cheat in ('sibling_2', 'x+0*sibling_2', 'x+0*sibling_1', 'sibling_1'):
            items.append(mk(lab, mkg, [cheat, 'x^2'], 'cheat', UNDEF_ERR, tag='sibling'))

        # the sibling is referenced only through a dependent sampling set (an instructor variable), not by the answer text
        def mkg2(credit=credit):
            return ListGrader(
                answers=['2*a', {'expect': 'sq', 'grade_decimal': credit}],
                subgraders=FormulaGrader(variables=['a', 'sq'], instructor_vars=['sq'],
                                         sample_from={'sq': DependentSampler(formula='sibling_1^2')}),
                ordered=True)
        lab2 = 'ordered ListGrader, second answer = instructor variable sq = sibling_1^2 (dependent sampler), credit %r' % credit
        items.append(mk(lab2, mkg2, ['2*a', '4*a^2'], 'control', credit=credit))
        items.append(mk(lab2, mkg2, ['2*a', '(2*a)^2'], 'control', credit=credit))
        for cheat in ('sibling_1^2', '4*a^2+sibling_1-sibling_1', '4*a^2*3^(sibling_1*0)', '4*a^2+0*sibling_1', 'sq', '4*a^2+0*sq',
                      '4*a^2+sq-sq', '4*a^2+0*sibling_2'):
            items.append(mk(lab2, mkg2, ['2*a', cheat], 'cheat', UNDEF_ERR, tag='sibling-via-sampler'))
    return items


def build_sum(tier):
    """SumGrader: all four fields entered by the student; the restricted construct may hide in any field"""
    items = []
    base = dict(lower='1', upper='4', summand='2*cos(n)+n', summation_variable='n')

    def fields(**over):
        d = dict(base)
        d.update(over)
        return [d['lower'], d['upper'], d['summand'], d['summation_variable']]
    cfgs = [
        ('blacklist=[sin]', dict(blacklist=['sin']), 'sin(0)', FUNC_ERR, 'blacklist'),
        ('whitelist=[cos]', dict(whitelist=['cos']), 'sqrt(4)', FUNC_ERR, 'whitelist'),
        ('instructor_vars=[z]', dict(variables=['z'], instructor_vars=['z']), 'z', UNDEF_ERR, 'instructor-var'),
        ('plain (unknown name q)', dict(), 'q', UNDEF_ERR, 'undefined-name'),
    ]
    for label, kw, R, allowed, tag in cfgs:
        mkg = lambda kw=kw: SumGrader(answers=dict(base), **kw)
        lab = 'SumGrader ' + label
        items.append(mk(lab, mkg, fields(), 'control', credit=1))
        items.append(mk(lab, mkg, fields(summand='n+cos(n)*2', summation_variable='n'), 'control', credit=1))
        items.append(mk(lab, mkg, fields(summand='m+cos(m)*2', summation_variable='m'), 'control', credit=1))
        for cheat in contexts('2*cos(n)+n', R)[:6]:
            items.append(mk(lab, mkg, fields(summand=cheat), 'cheat', allowed, tag=tag + ':summand'))
        for cheat in ('1+0*%s' % R, '1+%s-%s' % (R, R)):
            items.append(mk(lab, mkg, fields(lower=cheat), 'cheat', allowed, tag=tag + ':lower'))
        for cheat in ('4+0*%s' % R, '4*(%s)^0' % R if R != 'sin(0)' else '4+0*sin(0)^2'):
            items.append(mk(lab, mkg, fields(upper=cheat), 'cheat', allowed, tag=tag + ':upper'))
    mkg = lambda: SumGrader(answers=dict(base), required_functions=['cos'])
    items.append(mk('SumGrader required_functions=[cos]', mkg, fields(), 'control', credit=1))
    items.append(mk('SumGrader required_functions=[cos]', mkg, fields(summand='2*sin(n+pi/2)+n'), 'cheat', FUNC_ERR, tag='required'))
    # the forbidden string hidden in the FIRST box (lower limit), and in a summand-only layout
    mkg = lambda: SumGrader(answers=dict(base), forbidden_strings=['0+1', '3 + 1'])
    items.append(mk('SumGrader forbidden_strings=[0+1, 3 + 1]', mkg, fields(), 'control', credit=1))
    for lo, up in (('0+1', '4'), ('0 + 1', '4'), ('1', '3+1'), ('1', '3 +1'), ('0+1', '3+1')):
        items.append(mk('SumGrader forbidden_strings=[0+1, 3 + 1]', mkg, fields(lower=lo, upper=up), 'cheat', FUNC_ERR, tag='forbidden:limits'))
    mkg = lambda: SumGrader(answers=dict(base), forbidden_strings=['+n'], input_positions={'summand': 1})
    items.append(mk('SumGrader summand only, forbidden_strings=[+n]', mkg, 'n+2*cos(n)', 'control', credit=1))
    for sx in spaced('2*cos(n)+n')[:4]:
        items.append(mk('SumGrader summand only, forbidden_strings=[+n]', mkg, sx, 'cheat', FUNC_ERR, tag='forbidden:first-box'))
        items.append(mk('SumGrader summand only, forbidden_strings=[+n]', mkg, [sx], 'cheat', FUNC_ERR, tag='forbidden:first-box'))
    mkg = lambda: SumGrader(answers=dict(base), forbidden_strings=['+n'])
    items.append(mk('SumGrader forbidden_strings=[+n]', mkg, fields(summand='n+2*cos(n)'), 'control', credit=1))
    for s in spaced('2*cos(n)+n'):
        items.append(mk('SumGrader forbidden_strings=[+n]', mkg, fields(summand=s), 'cheat', FUNC_ERR, tag='forbidden'))
    return items


# ------------------------------------------------------------------------------ every short formula

TF_TOKENS = ['x', 'z', '0', '2', '+', '*', '-', 'sin(', 'cos(', ')', '^']
TF_X = (0.7, 1.9)


def _tf_graders():
    common = dict(variables=['x'], sample_from={'x': DiscreteSet(TF_X)}, samples=2)
    ans = {'expect': 'x', 'grade_decimal': 1}
    half = ({'expect': '2*x', 'grade_decimal': 0.5}, {'expect': 'x', 'grade_decimal': 1})
    return [
        ('blacklist=[sin]', 'func', {'sin'}, FormulaGrader(answers=half, blacklist=['sin'], **common)),
        ('whitelist=[cos]', 'func', {'sin'}, FormulaGrader(answers=half, whitelist=['cos'], **common)),
        ('whitelist=[None]', 'func', {'sin', 'cos'}, FormulaGrader(answers=half, whitelist=[None], **common)),
        ('instructor_vars=[z] (z a sampled variable)', 'name', {'z'},
         FormulaGrader(answers=half, variables=['x', 'z'], sample_from={'x': DiscreteSet(TF_X), 'z': DiscreteSet((0, 3))},
                       samples=2, instructor_vars=['z'])),
        ('instructor_vars=[z] (z the constant 0)', 'name', {'z'},
         FormulaGrader(answers=half, user_constants={'z': 0}, instructor_vars=['z'], **common)),
        ('plain (z unknown)', 'name', {'z'}, FormulaGrader(answers=half, **common)),
        ("forbidden_strings=['+0', '0*']", 'forbidden', ('+0', '0*'),
         FormulaGrader(answers=half, forbidden_strings=['+0', '0*'], **common)),
        ("required_functions=['cos']", 'required', {'cos'},
         FormulaGrader(answers={'expect': 'x+cos(0)-1', 'grade_decimal': 1}, required_functions=['cos'], **common)),
    ]


class TokenFormulas(Family):
    """every grammatical formula over a small token alphabet, not only hand-made cheats"""
    name = 'token_formulas'
    timeout = 60.0
    rule = ('every concatenation of 1..N tokens (N = 5 quick, 6 thorough) from %r that the reference grammar accepts, submitted to '
            '8 graders (blacklist, whitelist, whitelist=[None], instructor variable sampled / constant 0, unknown name, forbidden '
            'strings, required function; answers x [credit 1] and 2*x [credit 0.5], x drawn from {0.7, 1.9}): a formula that '
            'mentions z is never graded; a formula that uses a refused function, contains a forbidden string (spaces ignored) or '
            'lacks the required function never earns credit; non-trivial = it would earn credit by value' % (TF_TOKENS,))

    def setup(self, tier):
        from ..refs import expr as RX
        self.RX = RX
        self.graders = _tf_graders()

    def cases(self, tier):
        from ..refs import expr as RX
        n = 5 if tier == 'quick' else 6
        for L in range(1, n + 1):
            for combo in itertools.product(range(len(TF_TOKENS)), repeat=L):
                # cheap necessary conditions before asking the reference grammar
                first, last = TF_TOKENS[combo[0]], TF_TOKENS[combo[-1]]
                if first in ('+', '*', '^', ')') or last in ('+', '*', '-', '^', 'sin(', 'cos('):
                    continue
                opens = sum(1 for c in combo if TF_TOKENS[c].endswith('('))
                if opens != sum(1 for c in combo if TF_TOKENS[c] == ')'):
                    continue
                yield ''.join(TF_TOKENS[c] for c in combo)

    def describe(self, case):
        return case

    def value_class(self, ast, used_vars):
        """'x' / '2x' / 'other' / 'undefined' by value at both sample points (z taken as 0 and 3 to see cancellation)"""
        import math
        F = {'sin': (1, math.sin), 'cos': (1, math.cos)}
        kinds = set()
        for zval in (0.0, 3.0):
            vals = []
            for x in TF_X:
                try:
                    v = self.RX.evaluate(ast, {'x': x, 'z': zval}, F, {})
                except self.RX.AnyOutcome:
                    return 'open'
                except Exception:
                    return 'undefined'
                if isinstance(v, complex):
                    if abs(v.imag) > 1e-12:
                        return 'other'
                    v = v.real
                if not isinstance(v, (int, float)) or v != v:
                    return 'undefined'
                vals.append(v)
            if all(abs(v - x) <= 1e-9 * max(1, abs(x)) for v, x in zip(vals, TF_X)):
                kinds.add('x')
            elif all(abs(v - 2 * x) <= 1e-9 * max(1, abs(x)) for v, x in zip(vals, TF_X)):
                kinds.add('2x')
            elif all(abs(v - x) > 1e-3 and abs(v - 2 * x) > 1e-3 for v, x in zip(vals, TF_X)):
                kinds.add('other')
            else:
                return 'open'
        return kinds.pop() if len(kinds) == 1 else 'open'

    def check(self, case):
        s = case
        try:
            ast, rv, rf, rs = self.RX.parse(s)
        except self.RX.RefParseError:
            return Result('outside-the-grammar', False, None, 0)
        if rs:
            return Result('suffix', False, None, 0)
        vclass = self.value_class(ast, rv)
        nospace = s.replace(' ', '')
        calls = 0
        nontriv = False
        outcome = vclass
        for label, kind, what, g in self.graders:
            calls += 1
            out = run(g, s)
            got_credit = None
            if out[0] == 'ok':
                got_credit = out[1]['grade_decimal']
            where = 'FormulaGrader %s; input %r' % (label, s)
            if kind == 'name' and (set(rv) & what):
                nontriv = nontriv or vclass in ('x', '2x')
                if out[0] == 'ok':
                    return Result('graded-undefined-name', True,
                                  viol('token_formulas:name-graded:%s' % ('would-earn-credit' if vclass in ('x', '2x') else 'no-credit'),
                                       '%s: mentions a name the student may not use, expected UndefinedVariable, got %r' % (where, out[1]),
                                       'UndefinedVariable', out[1]), calls)
                if not isinstance(out[1], StudentFacingError):
                    return Result('wrong-error', True,
                                  viol('token_formulas:name-not-student-facing-error', '%s: raised %r' % (where, out[1]),
                                       'UndefinedVariable', repr(out[1])), calls)
                continue
            restricted = ((kind == 'func' and (set(rf) & what)) or (kind == 'forbidden' and any(w in nospace for w in what))
                          or (kind == 'required' and not (set(rf) & what)))
            if restricted:
                nontriv = nontriv or vclass in ('x', '2x')
                if got_credit:
                    return Result('restricted-credited', True,
                                  viol('token_formulas:bypass-earned-credit:%s' % kind,
                                       '%s: violates the restriction but earned %r' % (where, out[1]), 'refusal (InvalidInput)', out[1]),
                                  calls)
                if (vclass == 'x' or (vclass == '2x' and kind != 'required')) and out[0] == 'ok':
                    # would earn credit by value: must be REFUSED, not silently graded wrong
                    return Result('restricted-graded', True,
                                  viol('token_formulas:graded-instead-of-refused:%s' % kind,
                                       '%s: numerically earns credit, violates the restriction, expected InvalidInput, got %r'
                                       % (where, out[1]), 'InvalidInput', out[1]), calls)
            elif kind != 'name' and not (set(rv) - {'x'}) and vclass in ('x', '2x', 'other') and not (set(rf) - {'sin', 'cos'}):
                # permitted formula: graded by value
                want = {'x': 1.0, '2x': 0.5, 'other': 0.0}[vclass]
                if kind == 'required':
                    want = {'x': 1.0}.get(vclass, 0.0)
                if out[0] != 'ok':
                    if isinstance(out[1], MITxError) and vclass == 'other':
                        continue        # evaluation problems of wrong formulas (overflow, ...) are the student's
                    return Result('permitted-refused', True,
                                  viol('token_formulas:permitted-formula-refused:%s' % kind, '%s: raised %r' % (where, out[1]),
                                       want, repr(out[1])), calls)
                if abs(got_credit - want) > 1e-9:
                    return Result('permitted-wrong-credit', True,
                                  viol('token_formulas:permitted-formula-wrong-credit:%s' % kind,
                                       '%s: expected credit %r, got %r' % (where, want, out[1]), want, out[1]), calls)
        return Result(outcome, nontriv, None, calls)


def families(tier):
    return [
        Restriction('function_restrictions',
                    'blacklist / whitelist / whitelist=[None] / user function + lists on Formula, Matrix, Numerical graders x restricted '
                    'functions x 9-12 neutralising contexts x space renderings x credit {1, .5}', build_functions),
        Restriction('required_and_forbidden',
                    'required_functions (answer rewritten without the function) and forbidden_strings (configured with and without '
                    'inner spaces; a space inserted at every position of the cheat) on Formula, Matrix, Numerical', build_required_forbidden),
        Restriction('names',
                    'instructor variables (sampled, dependent, constant), unknown / case-variant / primed / suffix-like names, '
                    'numbered-variable misuse, each in 9-11 neutralising contexts and alone', build_names),
        Restriction('siblings', 'ordered ListGrader whose second answer references sibling_1: student use of sibling names', build_siblings),
        TokenFormulas(),
        Restriction('sum_grader', 'SumGrader with all four fields entered by the student; restricted construct in summand, lower or upper',
                    build_sum),
    ]
