"""
C13 -- sampled variable sets are complete and dependent values are consistent.

Every configuration of the stated finite families (dependency digraphs in every declaration order,
constant / shadowing / dangling / vector / numbered-variable / sibling variants) is executed on the real
code, and for each configuration EVERY combination of answers of the random source is explored
(mcv.chooser, full product: all sampling sets are DiscreteSets with one or two members).

Three observation points (the property's `observe_at`):
  D  `sampling.gen_symbols_samples(...)` output,
  M  `MathMixin.gen_var_and_func_samples(...)` output of a real FormulaGrader (numbered instances, constants),
  G  the argument tuples seen by an author-defined recording function while a grader grades.

The oracle is mcv/refs/c13_model.py (no library import): key completeness, membership of independent
values, each dependent value == its formula on the SAME sample, ConfigError for cyclic / dangling
configurations, termination (watchdog).

Later additions (gap review): recording SUBCLASSES of DiscreteSet / DependentSampler and literal-only dependents
(variants 'subclass', 'literal'); zero-valued user constants; several numbered heads whose instances reach the sampler
through two comparer_params, an answer dictionary (SumGrader / IntegralGrader), a sibling formula or a MatrixGrader
(numbered_multi); one grader called with different inputs in a row, one of them raising (numbered_history); sibling
variables in lists with a StringGrader, forward references, separately built and Matrix subgraders (sibling_mixed);
formulas with functions, suffixes, complex values, vector literals, primed / case-distinct names, default number of
samples and coerced / default sampling sets (formula_features, oracle mcv/refs/c13_features.py).
"""
import math
import itertools
from collections import OrderedDict

import numpy as np

from ..core import Family, Result, viol, Watchdog, HarnessError
from ..chooser import explore
from ..refs import c13_model as M
from ..refs import c13_features as F

EXTRA_HASH_SEEDS = {'thorough': ('1',)}        # the order of a dependent variable's dependencies comes from a set
PROPERTY = 'C13'
RULE = ('a case is one sampling configuration (dependency digraph by index -> edge bits, declaration order and '
        'sample_from insertion order by permutation index, variant, number of samples); for each case the full '
        'product of RNG answers is executed.  A case is non-trivial when it has at least one dependent variable, '
        'numbered instance or sibling (a wrong resolution would be distinguishable) or when it is cyclic/dangling '
        '(an error is required)')
EXPLANATION = ('states = distinct configurations; transitions = executions of the real sampler / grader (one per '
               'combination of RNG answers per configuration); every execution runs the implementation itself, so '
               'traces_validated_against_impl = number of executions')
ASSUMPTIONS = ['formulas are integer-coefficient sums of products (plus the constants e, pi where stated); the reference '
               'evaluates them in Python arithmetic and compares with relative guard band 1e-12 (all values < 1e10)',
               'formula_features: the nine formulas of mcv/refs/c13_features.py are evaluated by hand-written Python '
               'lambdas (twice(x) = 2x, sqrt(p*p) = |p|, 50% = 0.5, vector*vector = dot product as documented for '
               'MatrixGrader); continuous sampling sets (RealInterval, default [1,5] per docs/grading_math/'
               'formula_grader.md) are judged by interval membership under the 5-entry draw menu of mcv.chooser',
               'IntegralGrader is only observed at gen_var_and_func_samples (scipy is not installed here, integrals '
               'cannot be evaluated); SumGrader shares the same raw_check and is run end to end',
               'numbered_multi / numbered_history use 1 sample, so that all calls of the recording functions within '
               'one grading belong to one sample and must agree on every common name',
               'mcv.chooser owns random.choice: DiscreteSet draws are enumerated, not sampled',
               'the exact wording of the ConfigError and extra keys in a sample dictionary are left open',
               'a DependentSampler that names a numbered instance occurring in no graded expression may either be '
               'reported as ConfigError or be given a consistent value (statement leaves it open)',
               'long shapes (5-8 variables): only the listed declaration orders; independent roots beyond the third '
               'have one-element sets to keep the RNG product finite and small',
               'after 3 non-terminating cases in one worker process the remaining cases of that worker that expect '
               'an error are not executed (outcome not-run:...); this only happens in an already failing run']

TIMEOUT_SIG = 'non-termination'
_TIMEOUTS = [0]
MAX_TIMEOUTS = 3


class C13Family(Family):
    """
    check() = check_case() behind a per-process circuit breaker: once MAX_TIMEOUTS cases of this worker did not
    terminate, further cases that expect an error (the only ones that can loop in the resolution) are not run.
    """
    timeout = 10.0
    timeout_sig = TIMEOUT_SIG

    def expects_error(self, case):
        return False

    def check_case(self, case):
        raise NotImplementedError

    def check(self, case):
        case = tuple(case)
        if _TIMEOUTS[0] >= MAX_TIMEOUTS and self.expects_error(case):
            return Result('not-run:worker-saw-%d-timeouts' % MAX_TIMEOUTS, False, None, calls=0)
        try:
            return self.check_case(case)
        except Watchdog:
            _TIMEOUTS[0] += 1
            raise


# ----------------------------------------------------------------------------- conversions

def to_py(x):
    """library value -> plain Python (ints/floats/complex, lists for arrays)"""
    if isinstance(x, np.ndarray):
        return [to_py(v) for v in x.tolist()]
    if isinstance(x, np.generic):
        return x.item()
    if isinstance(x, (list, tuple)):
        return [to_py(v) for v in x]
    return x


def lib_value(v):
    from mitxgraders import MathArray
    return MathArray(v) if isinstance(v, list) else v


def err_bucket(e):
    from mitxgraders.exceptions import ConfigError
    if isinstance(e, ConfigError):
        s = str(e)
        if 'ircular' in s:
            return 'ConfigError:circular'
        if 'ndefined' in s:
            return 'ConfigError:undefined'
        return 'ConfigError:other'
    return 'raised:' + type(e).__name__


def is_config_error(e):
    from mitxgraders.exceptions import ConfigError
    return isinstance(e, ConfigError)


class Recorder(object):
    """author-defined function of fixed arity that records what it is called with"""
    def __init__(self, nin, log, tag):
        self.nin = nin
        self.log = log
        self.tag = tag

    def __call__(self, *args):
        self.log.append((self.tag, [to_py(a) for a in args]))
        tot = 0.0
        for k, a in enumerate(args):
            a = to_py(a)
            tot = tot + (k + 2) * (sum(a) if isinstance(a, list) else a)
        return tot


# ----------------------------------------------------------------------------- building library objects

_DS = {}
_DEP = {}


def discrete(vals):
    from mitxgraders import DiscreteSet
    key = repr(vals)
    if key not in _DS:
        _DS[key] = DiscreteSet(tuple(lib_value(v) for v in vals))
    return _DS[key]


def dependent(form, depends='infer'):
    from mitxgraders import DependentSampler
    f = M.formula_str(form)
    if depends != 'infer':
        return DependentSampler(depends=depends, formula=f)
    if f not in _DEP:
        _DEP[f] = DependentSampler(formula=f)
    return _DEP[f]


SAMPLER_LOG = []
_SUB = {}


def sampler_subclasses():
    """
    'recording samplers': author-side subclasses of DiscreteSet / DependentSampler (a subclass must be treated like
    its base class).  RecDependent notes, at every compute_sample call, which names the working dictionary holds.
    """
    if not _SUB:
        from mitxgraders import DiscreteSet, DependentSampler

        class RecDiscrete(DiscreteSet):
            def gen_sample(self):
                v = super(RecDiscrete, self).gen_sample()
                SAMPLER_LOG.append(('draw', self.tag, None))
                return v

        class RecDependent(DependentSampler):
            def compute_sample(self, sample_dict, functions, suffixes):
                SAMPLER_LOG.append(('compute', self.tag, sorted(sample_dict)))
                return super(RecDependent, self).compute_sample(sample_dict, functions, suffixes)

        _SUB['set'], _SUB['dep'] = RecDiscrete, RecDependent
    return _SUB['set'], _SUB['dep']


def judge_sampler_log(site, spec, samples, log):
    """
    a dependent is only computed when all names of its formula have a value in the working dictionary (how often
    the samplers are asked is left open)
    """
    for kind, tag, keys in log:
        if kind != 'compute':
            continue
        absent = [p for p in M.parents(spec['forms'][tag]) if p not in keys]
        if absent:
            return viol('%s:dependent-computed-before-its-dependencies' % site,
                        '%s was computed while %s had no value yet' % (tag, ', '.join(absent)),
                        M.parents(spec['forms'][tag]), keys)
    return None


def sample_from_of(spec, dict_order=None, wrong_depends=False):
    """
    sample_from dictionary with the given insertion order of names (default: sorted names).
    wrong_depends: False | True (explicit, wrong depends= lists) | 'subclass' (recording subclasses, fresh objects)
    """
    names = sorted(list(spec['sets']) + list(spec['forms']))
    if dict_order is not None:
        names = [names[k] for k in dict_order]
    sf = OrderedDict()
    for k, n in enumerate(names):
        if wrong_depends == 'subclass':
            rset, rdep = sampler_subclasses()
            if n in spec['sets']:
                sf[n] = rset(tuple(lib_value(v) for v in spec['sets'][n]))
            else:
                sf[n] = rdep(formula=M.formula_str(spec['forms'][n]))
            sf[n].tag = n
        elif n in spec['sets']:
            sf[n] = discrete(spec['sets'][n])
        elif wrong_depends:
            sf[n] = dependent(spec['forms'][n], depends=[[], ['zz'], [n]][k % 3])
        else:
            sf[n] = dependent(spec['forms'][n])
    return dict(sf)          # a plain dict keeps insertion order


# ----------------------------------------------------------------------------- judging

def pick(viols):
    """deterministic representative of a set of violations found over the RNG product"""
    if not viols:
        return None
    return min(viols, key=lambda v: (v['sig'], repr(v['observed']), v['msg']))


def judge_error(site, cls, e):
    """an exception was observed; cls is the reference classification of the configuration"""
    if cls == 'ok':
        return viol('%s:valid-config-raises' % site,
                    'acyclic, fully defined configuration raised %s: %s' % (type(e).__name__, e),
                    'samples', type(e).__name__)        # message only in msg: it may name hash-ordered items
    if not is_config_error(e):
        return viol('%s:%s-raises-%s' % (site, cls, 'non-ConfigError'),
                    '%s configuration raised %s instead of a ConfigError: %s' % (cls, type(e).__name__, e),
                    'ConfigError', type(e).__name__)
    return None


def judge_no_error(site, cls, observed):
    if cls != 'ok':
        return viol('%s:%s-not-reported' % (site, cls),
                    '%s dependencies were not reported as a configuration error' % cls, 'ConfigError', observed)
    return None


def judge_dicts(site, spec, samples, dicts, extra_sets=None, open_names=()):
    if not isinstance(dicts, list) or len(dicts) != samples:
        return viol('%s:wrong-sample-count' % site, 'expected %d sample dictionaries' % samples, samples,
                    len(dicts) if isinstance(dicts, list) else repr(dicts))
    for k, d in enumerate(dicts):
        d = {n: to_py(v) for n, v in d.items()}
        bad = M.judge_sample(spec, d, extra_sets, open_names)
        if bad:
            kind, msg, exp, obs = bad
            return viol('%s:%s' % (site, kind), 'sample %d: %s' % (k + 1, msg), exp, {'sample': d, 'value': obs})
    return None


def product_check(body, judge, nontrivial, ok_label):
    """run body under every combination of RNG answers; judge(out) -> violation or None"""
    viols = []
    buckets = set()
    n = 0
    for ch, out in explore(body):
        n += 1
        if out[0] == 'err':
            buckets.add(err_bucket(out[1]))
        else:
            buckets.add(ok_label(out) if callable(ok_label) else ok_label)
        v = judge(out)
        if v is not None:
            viols.append(v)
            if len(viols) >= 64:
                break
    v = pick(viols)
    outcome = '+'.join(sorted(buckets))
    if v is not None:
        outcome = 'VIOL ' + v['sig']
    return Result(outcome, nontrivial, v, calls=n)


# ----------------------------------------------------------------------------- the three arms

def run_direct(site, spec, samples, dict_order=None, wrong_depends=False, extra_sets=None):
    """observation point D: gen_symbols_samples"""
    from mitxgraders.sampling import gen_symbols_samples
    cls = M.classify(spec)
    sf = sample_from_of(spec, dict_order, wrong_depends)
    for n, vals in (extra_sets or {}).items():
        sf[n] = discrete(vals)
    symbols = list(spec['vars'])
    consts = dict(spec['consts'])

    def body(ch):
        c = dict(consts)
        del SAMPLER_LOG[:]
        try:
            out = gen_symbols_samples(list(symbols), samples, dict(sf), {}, {}, c)
        except Exception as e:        # noqa
            return ('err', e)
        return ('ok', out, list(SAMPLER_LOG))

    def judge(out):
        if out[0] == 'err':
            return judge_error(site, cls, out[1])
        v = judge_no_error(site, cls, [sorted(d) for d in out[1]] if isinstance(out[1], list) else repr(out[1]))
        v = v or judge_dicts(site, spec, samples, out[1])
        if v is None and wrong_depends == 'subclass':
            v = judge_sampler_log(site, spec, samples, out[2])
        return v

    nontriv = bool(spec['forms']) or cls != 'ok'
    return product_check(body, judge, nontriv, 'values:%ddep' % len(spec['forms']))


DEFAULT_CONSTS = {'e': M.E, 'pi': M.PI, 'i': 1j, 'j': 1j}


def make_grader(spec, samples, dict_order, answer, user_functions, numbered=(), user_constants=None,
                suppress=False, klass=None, wrong_depends=False, extra_sets=None):
    from mitxgraders import FormulaGrader
    sf = sample_from_of(spec, dict_order, wrong_depends)
    for n, vals in (extra_sets or {}).items():
        sf[n] = discrete(vals)
    kw = dict(answers=answer, variables=list(spec['vars']), sample_from=sf, samples=samples,
              user_functions=user_functions, numbered_vars=list(numbered),
              user_constants={n: lib_value(v) for n, v in (user_constants or {}).items()})
    if suppress:
        kw['suppress_warnings'] = True
    return (klass or FormulaGrader)(**kw)


def run_grader(site, spec, samples, dict_order, rec_names, user_constants=None, suppress=False,
               wrong_depends=False, klass=None, cls_spec=None):
    """
    observation point G: answer and student input are both rec(<all names>); the recording function sees the
    values of one sample per call.  spec['consts'] lists the constants that are passed to rec.
    Every execution builds a fresh grader, so executions are independent of each other.
    """
    cls = M.classify(cls_spec or spec)
    log = []
    rec = Recorder(len(rec_names), log, 'rec')
    expr = 'rec(%s)' % ','.join(rec_names)

    def body(ch):
        del log[:]
        del SAMPLER_LOG[:]
        try:
            g = make_grader(spec, samples, dict_order, expr, {'rec': rec}, user_constants=user_constants,
                            suppress=suppress, wrong_depends=wrong_depends, klass=klass)
            res = g(None, expr)
        except Exception as e:      # noqa
            return ('err', e)
        return ('ok', res, [c[1] for c in log], list(SAMPLER_LOG))

    def judge(out):
        if out[0] == 'err':
            return judge_error(site, cls, out[1])
        _, res, calls, slog = out
        v = judge_no_error(site, cls, res)
        if v:
            return v
        if not calls:
            raise HarnessError('recording function was never called for %r' % (spec,))
        for args in calls:
            d = dict(zip(rec_names, args))
            bad = M.judge_sample(spec, d)
            if bad:
                kind, msg, exp, obs = bad
                return viol('%s:%s' % (site, kind), 'values seen by the author function: %s' % msg, exp,
                            {'sample': d, 'value': obs})
        if not (isinstance(res, dict) and res.get('ok') is True):
            return viol('%s:identical-input-not-correct' % site,
                        'student input identical to the answer was not graded correct', True, res)
        if wrong_depends == 'subclass':
            return judge_sampler_log(site, spec, samples, slog)
        return None

    nontriv = bool(spec['forms']) or cls != 'ok'
    return product_check(body, judge, nontriv, 'graded-ok:%ddep' % len(spec['forms']))


def run_mid(site, spec, samples, dict_order, exprs, numbered=(), extra_sets=None, open_names=(),
            user_constants=None, removed=(), suppress=False, classify_extra=None, base_sets=None, repeat=1):
    """
    observation point M: gen_var_and_func_samples(student_input, sibling_dict, comparer_params) of a real
    FormulaGrader (fresh per execution; called `repeat` times in a row on the same grader, every return value
    is judged).  Constants expected: defaults (minus removed) + user constants, unless shadowed.
    """
    consts = dict(DEFAULT_CONSTS)
    uc = dict(user_constants or {})
    for n in removed:
        consts.pop(n, None)
        uc[n] = None
    consts.update(user_constants or {})
    full = dict(spec)
    full['consts'] = consts
    names_present = set(extra_sets or {})
    cls = M.classify(full, names_present if classify_extra is None else classify_extra)
    open_cls = bool(open_names)
    student, sib, params = exprs

    def body(ch):
        outs = []
        try:
            g = make_grader(spec, samples, dict_order, '0', {}, numbered=numbered, user_constants=uc,
                            suppress=suppress, extra_sets=base_sets)
            for _ in range(repeat):
                outs.append(g.gen_var_and_func_samples(student, dict(sib), list(params)))
        except Exception as e:      # noqa
            return ('err', e, len(outs))
        return ('ok', outs)

    def judge(out):
        if out[0] == 'err':
            if open_cls and is_config_error(out[1]):
                return None
            where = site if out[2] == 0 else site + '/repeated-call'
            return judge_error(where, cls if not open_cls else 'ok', out[1])
        for k, pair in enumerate(out[1]):
            where = site if k == 0 else site + '/repeated-call'
            if not (isinstance(pair, tuple) and len(pair) == 2):
                return viol('%s:bad-return' % where, 'expected (var_samples, func_samples)', None, repr(pair))
            v = judge_no_error(where, cls, [sorted(d) for d in pair[0]])
            v = v or judge_dicts(where, full, samples, pair[0], extra_sets, open_names)
            if v:
                return v
        return None

    return product_check(body, judge, True, 'values:%ddep' % len(spec['forms']))


# ----------------------------------------------------------------------------- graph cases

def order5():
    base = [0, 1, 2, 3, 4]
    rev = base[::-1]
    out = [base, rev]
    for r in range(1, 5):
        out.append(base[r:] + base[:r])
    for r in range(1, 5):
        out.append(rev[r:] + rev[:r])
    out += [[0, 2, 4, 1, 3], [3, 1, 4, 2, 0]]
    return out


ORDER5 = order5()
KE = {'k': 7, 'e': M.E}


def apply_variant(spec, n, variant):
    """returns (spec, wrong_depends) or None when the variant does not apply to this graph"""
    deps = sorted(spec['forms'])
    if variant == 'plain':
        spec['consts'] = dict(KE)
    elif variant == 'const':
        if not deps:
            return None
        spec['consts'] = dict(KE)
        for k, name in enumerate(deps):
            spec['forms'][name][1].append([2, ['k']])
            if k % 2 == 0:
                spec['forms'][name][1].append([-3, ['e']])
    elif variant == 'constroot':
        # every independent variable is replaced by a dependent one that hangs on constants only
        if not spec['sets']:
            return None
        spec['consts'] = dict(KE)
        for k, name in enumerate(sorted(spec['sets'])):
            if k % 2 == 0:
                del spec['sets'][name]
                spec['forms'][name] = [M.C0[k], [[3, ['k']], [2, ['e']]]]
    elif variant == 'shadow':
        if not deps:
            return None
        spec['consts'] = dict(KE)
        for k, name in enumerate(M.NAMES[:n]):
            spec['consts'][name] = 1000 + k
    elif variant in ('dangling-first', 'dangling-last'):
        if not deps:
            return None
        spec['consts'] = dict(KE)
        name = deps[0] if variant == 'dangling-first' else deps[-1]
        spec['forms'][name][1].append([2, ['zz']])
    elif variant == 'depends':
        if not deps:
            return None
        spec['consts'] = dict(KE)
        return spec, True
    elif variant == 'subclass':
        # all samplers are instances of author-side SUBCLASSES of DiscreteSet / DependentSampler that record their use
        spec['consts'] = dict(KE)
        return spec, 'subclass'
    elif variant == 'literal':
        # every second independent variable becomes a dependent one whose formula is a bare number: it has NO
        # dependency at all (empty depends list), yet it is a dependent variable that others may hang on
        if not spec['sets']:
            return None
        spec['consts'] = dict(KE)
        for k, name in enumerate(sorted(spec['sets'])):
            if k % 2 == 0:
                del spec['sets'][name]
                spec['forms'][name] = [M.C0[k] + 40, []]
    else:
        raise HarnessError('unknown variant %r' % variant)
    return spec, False


def decode_graph_case(case):
    arm, n, loops, gidx, vperm, dperm, samples, variant = case
    edges = M.graph_edges(n, bool(loops), gidx)
    order = ORDER5[-vperm - 1] if vperm < 0 else M.perm_of(n, vperm)
    spec = M.graph_spec(n, edges, order)
    r = apply_variant(spec, n, variant)
    if r is None:
        return None
    spec, wrong = r
    dorder = M.perm_of(n, dperm) if dperm >= 0 else list(range(n))[::-1]
    return arm, spec, samples, dorder, wrong, variant, edges


class GraphFamily(C13Family):
    """dependency digraphs on n labelled nodes; edge (i, j): variable i's formula mentions variable j"""
    timeout = 5.0

    def __init__(self, name, arm, ns, loops, variants=('plain',), samples=(2,), vorders='all', dorders='all',
                 acyclic_only=False, note=''):
        self.name = name
        self.arm = arm
        self.ns = ns
        self.loops = loops
        self.variants = variants
        self.samples = samples
        self.vorders = vorders
        self.dorders = dorders
        self.acyclic_only = acyclic_only
        where = {'D': 'gen_symbols_samples', 'G': 'a FormulaGrader whose answer calls a recording function of all '
                 'variables and the constants k, e'}[arm]
        self.rule = ('every %s digraph on %s nodes (edge i<-j: formula of i is C0_i + sum c_ij*j; nodes without '
                     'in-edge are DiscreteSets of two values), variants %s, samples %s, declaration orders: %s, '
                     'sample_from insertion orders: %s; observed at %s; full RNG product%s'
                     % ('loop-allowing' if loops else 'loop-free', '/'.join(map(str, ns)), list(variants),
                        list(samples), vorders, dorders, where, note))

    def cases(self, tier):
        for n in self.ns:
            npos = len(M.edge_positions(n, self.loops))
            if self.vorders == 'all':
                vps = range(math.factorial(n))
            elif self.vorders == 'fixed12':
                vps = [-(k + 1) for k in range(len(ORDER5))]
            else:
                vps = self.vorders
            if self.dorders == 'all':
                dps = list(range(math.factorial(n)))
            elif self.dorders == 'same+reversed':
                dps = [0, -1]
            elif self.dorders == 'reversed':
                dps = [-1]
            else:
                dps = [0]
            for variant in self.variants:
                for gidx in range(2 ** npos):
                    if variant != 'plain' and gidx == 0:
                        continue
                    if self.acyclic_only and not M.is_acyclic_index(n, self.loops, gidx):
                        continue
                    for s in self.samples:
                        for vp in vps:
                            for dp in dps:
                                yield (self.arm, n, int(self.loops), gidx, vp, dp, s, variant)

    def describe(self, case):
        dec = decode_graph_case(tuple(case))
        if dec is None:
            return {'variant-not-applicable': list(case)}
        arm, spec, samples, dorder, wrong, variant, edges = dec
        names = sorted(list(spec['sets']) + list(spec['forms']))
        return {'observe': arm, 'variables': spec['vars'], 'samples': samples,
                'sample_from (insertion order)': [
                    '%s: %s' % (names[k], ('DiscreteSet(%r)' % (tuple(spec['sets'][names[k]]),))
                                if names[k] in spec['sets'] else 'DependentSampler(%r)' % M.formula_str(spec['forms'][names[k]]))
                    for k in dorder if k < len(names)],
                'constants': spec['consts'], 'explicit wrong depends=': wrong}

    def expects_error(self, case):
        dec = decode_graph_case(case)
        return dec is not None and M.classify(dec[1]) != 'ok'

    def check_case(self, case):
        dec = decode_graph_case(case)
        if dec is None:
            return Result('variant-n/a', False, None, calls=0)
        arm, spec, samples, dorder, wrong, variant, edges = dec
        site = ('direct' if arm == 'D' else 'grader') + ('' if variant == 'plain' else '/' + variant.split('-')[0])
        # dorder indexes the sorted names of the spec (the constroot variant keeps the same names)
        if arm == 'D':
            return run_direct(site, spec, samples, dorder, wrong)
        rec_names = sorted(list(spec['sets']) + list(spec['forms'])) + ['k', 'e']
        user = {n: v for n, v in spec['consts'].items() if n not in DEFAULT_CONSTS}
        return run_grader(site, spec, samples, dorder, rec_names, user_constants=user, wrong_depends=wrong)


# ----------------------------------------------------------------------------- long shapes (5..8 variables)

def _chain(n):
    return [(i, i - 1) for i in range(1, n)]


SHAPES = OrderedDict([
    ('chain8', (8, _chain(8))),
    ('diamond4', (4, [(1, 0), (2, 0), (3, 1), (3, 2)])),
    ('double_diamond7', (7, [(1, 0), (2, 0), (3, 1), (3, 2), (4, 3), (5, 3), (6, 4), (6, 5)])),
    ('fan_in8', (8, [(7, j) for j in range(7)])),
    ('fan_out8', (8, [(i, 0) for i in range(1, 8)])),
    ('tree_in7', (7, [(0, 1), (0, 2), (1, 3), (1, 4), (2, 5), (2, 6)])),
    ('complete6', (6, [(i, j) for i in range(6) for j in range(i)])),
    ('two_chains8', (8, [(1, 0), (2, 1), (3, 2), (5, 4), (6, 5), (7, 6)])),
    ('ladder8', (8, [(2, 0), (3, 1), (4, 2), (5, 3), (6, 4), (7, 5), (3, 2), (5, 4), (7, 6)])),
    ('skip_chain8', (8, _chain(8) + [(i, i - 2) for i in range(2, 8)])),
    ('backward_chain8', (8, [(i, i + 1) for i in range(7)])),
    ('w5', (5, [(1, 0), (1, 2), (3, 2), (3, 4)])),
])


def topo_order(n, edges):
    par = {i: set() for i in range(n)}
    for i, j in edges:
        par[i].add(j)
    done = []
    while len(done) < n:
        for i in range(n):
            if i not in done and par[i] <= set(done):
                done.append(i)
                break
        else:
            raise HarnessError('shape is cyclic')
    return done


def shape_orders(n, edges):
    t = topo_order(n, edges)
    out = [t, t[::-1]]
    for r in range(1, n):
        out.append(t[r:] + t[:r])
    return out


def shape_spec(shape, variant, oidx):
    n, edges = SHAPES[shape]
    order = shape_orders(n, edges)[oidx]
    edges = list(edges)
    t = topo_order(n, edges)
    if variant == 'cyclic':
        par = {i: [j for (c, j) in edges if c == i] for i in range(n)}
        anc, todo = set(), [t[-1]]
        while todo:
            for p in par[todo.pop()]:
                if p not in anc:
                    anc.add(p)
                    todo.append(p)
        root = min(a for a in anc if not par[a])
        edges.append((root, t[-1]))          # a root above the last sink now hangs on that sink: one long cycle
    spec = M.graph_spec(n, edges, order, consts=KE, single_after=3)
    if variant == 'dangling':
        spec['forms'][M.NAMES[t[-1]]][1].append([2, ['zz']])
    elif variant == 'const':
        for k, name in enumerate(sorted(spec['forms'])):
            spec['forms'][name][1].append([[2, ['k']], [-3, ['e']]][k % 2])
    return spec


class ShapeFamily(C13Family):
    name = 'long_shapes'
    rule = ('12 fixed dependency shapes on 4..8 variables (%s), variants plain / +constants k,e / one long cycle '
            '(first root made dependent on the deepest sink) / dangling name at the sink; each declared in its '
            'topological order, the reverse of it and every rotation of it; observed at gen_symbols_samples (D) and '
            'through a FormulaGrader with recording function (G); 2 samples; full RNG product (at most three '
            'two-valued roots, further roots one-valued)' % ', '.join(SHAPES))

    def cases(self, tier):
        for shape, (n, edges) in SHAPES.items():
            for variant in ('plain', 'const', 'cyclic', 'dangling'):
                for oidx in range(n + 1):
                    for arm in ('D', 'G'):
                        yield (arm, shape, variant, oidx)

    def describe(self, case):
        arm, shape, variant, oidx = case
        spec = shape_spec(shape, variant, oidx)
        return {'observe': arm, 'variables': spec['vars'],
                'independent': spec['sets'],
                'dependent': {n: M.formula_str(f) for n, f in spec['forms'].items()}}

    def expects_error(self, case):
        return case[2] in ('cyclic', 'dangling')

    def check_case(self, case):
        arm, shape, variant, oidx = case
        spec = shape_spec(shape, variant, oidx)
        site = ('direct' if arm == 'D' else 'grader') + '/shape'
        n = len(spec['vars'])
        dorder = list(range(n))[::-1] if oidx % 2 else None
        if arm == 'D':
            return run_direct(site, spec, 2, dorder)
        rec_names = sorted(list(spec['sets']) + list(spec['forms'])) + ['k', 'e']
        return run_grader(site, spec, 2, dorder, rec_names, user_constants={'k': 7})


# ----------------------------------------------------------------------------- vector-valued roots

VEC_NAMES = ['v', 's', 'd1', 'd2', 'd3', 'd4']


def vector_spec(order):
    return {'vars': [VEC_NAMES[k] for k in order],
            'sets': {'v': [[1, 2], [3, 5]], 's': [2, 3]},
            'forms': {'d1': [None, [[3, ['v']], [1, ['s', 'v']]]],          # vector
                      'd2': [None, [[1, ['d1', 'v']], [1, ['s']]]],         # dot product + scalar
                      'd3': [None, [[1, ['d2', 'd1']], [-2, ['v']]]],       # scalar*vector - vector
                      'd4': [None, [[1, ['d3', 'd3']], [1, ['d2']]]]},      # |d3|^2 + scalar
            'consts': dict(KE)}


class VectorFamily(C13Family):
    name = 'vector_roots'
    rule = ('one configuration with a vector-valued root v in {[1,2],[3,5]}, scalar root s in {2,3} and the chain '
            'd1=3*v+s*v (vector), d2=d1*v+s (dot product), d3=d2*d1-2*v (vector), d4=d3*d3+d2; observed at '
            'gen_symbols_samples in all 720 declaration orders (2 samples) and, in every third order, through '
            'FormulaGrader and MatrixGrader with a recording function (1 sample); full RNG product')

    def cases(self, tier):
        for vp in range(720):
            for arm in ('D', 'G', 'X'):
                if arm == 'D' or vp % 3 == 0:
                    yield (arm, vp)

    def describe(self, case):
        arm, vp = case
        spec = vector_spec(M.perm_of(6, vp))
        return {'observe': arm, 'variables': spec['vars'], 'independent': spec['sets'],
                'dependent': {n: M.formula_str(f) for n, f in spec['forms'].items()}}

    def check_case(self, case):
        arm, vp = case
        order = M.perm_of(6, vp)
        spec = vector_spec(order)
        if arm == 'D':
            return run_direct('direct/vector', spec, 2, order)
        from mitxgraders import MatrixGrader
        rec_names = VEC_NAMES + ['k', 'e']
        return run_grader('grader/vector', spec, 1, order, rec_names, user_constants={'k': 7},
                          klass=MatrixGrader if arm == 'X' else None)


# ----------------------------------------------------------------------------- numbered variables

INDICES = [0, 1, -1, 12, -345, 10, 101, -100]      # incl. indices with a zero after the first digit
NSET = [11, 13]
PLAINSET = [17, 19]


def inst(i):
    return 'n_{%d}' % i


def numbered_setup(case):
    ia, ib, dep_mode, collide, samples, rev = case
    na, nb = inst(INDICES[ia]), inst(INDICES[ib])
    vars_ = ['x', 'd']
    sets = {'x': [2, 3]}
    form = [1, [[2, ['x']]]]
    dep_inst = {0: None, 1: na, 2: nb, 3: inst(7)}[dep_mode]
    if dep_inst:
        form[1].append([3, [dep_inst]])
    plain = {0: None, 1: na, 2: nb}[collide]
    if plain:
        vars_.append(plain)
        sets[plain] = list(PLAINSET)
    if rev:
        vars_ = vars_[::-1]
    spec = {'vars': vars_, 'sets': sets, 'forms': {'d': form}, 'consts': {}}
    extra_sets = {}
    for nm in (na, nb):
        if nm != plain:
            extra_sets[nm] = list(NSET)
    open_names = ()
    if dep_inst and dep_inst not in extra_sets and dep_inst != plain:
        open_names = (dep_inst,)              # instance named only by the DependentSampler: left open
    return spec, na, nb, extra_sets, open_names, samples, plain


class NumberedFamily(C13Family):
    name = 'numbered_vars'
    rule = ('numbered variable n (DiscreteSet {11,13}); answer recA(x,d,n_{ia}), student input recS(x,d,n_{ib}) for '
            'every ordered pair of indices from %s; d = 1+2*x [+3*instance]: no instance / the answer\'s / the '
            'student\'s / n_{7} that occurs in no expression (left open: ConfigError or consistent value); a plain '
            'variable literally named like the answer\'s or the student\'s instance with its own set {17,19} (must '
            'take priority); 1 sample in both declaration orders (the same grader is then called twice in a row and both calls are judged), 2 samples in one.  Observed through the two recording '
            'functions (G) and at gen_var_and_func_samples (M: complete key set incl. default constants); full RNG '
            'product' % INDICES)

    def cases(self, tier):
        for samples in (1, 2):
            for dep_mode in range(4):
                for collide in range(3):
                    for ia in range(len(INDICES)):
                        # thorough: every ordered pair of indices; quick: every answer index x student index in {0, 10}
                        for ib in (range(len(INDICES)) if tier == 'thorough' else (0, 5)):
                            for rev in ((0, 1) if samples == 1 else (0,)):
                                yield (ia, ib, dep_mode, collide, samples, rev)

    def describe(self, case):
        spec, na, nb, extra_sets, open_names, samples, plain = numbered_setup(tuple(case))
        return {'variables': spec['vars'], 'numbered_vars': ['n'], 'samples': samples,
                'sample_from': dict([('n', NSET)] + list(spec['sets'].items())
                                    + [('d', M.formula_str(spec['forms']['d']))]),
                'answer': 'recA(x,d,%s)' % na, 'student': 'recS(x,d,%s)' % nb}

    def expects_error(self, case):
        return bool(numbered_setup(case)[4])

    def check_case(self, case):
        spec, na, nb, extra_sets, open_names, samples, plain = numbered_setup(case)
        ans, stu = 'recA(x,d,%s)' % na, 'recS(x,d,%s)' % nb
        repeat = 2 if samples == 1 else 1
        # ---- M: full dictionaries
        r1 = run_mid('numbered/mid', spec, samples, None, (stu, {}, [ans]), numbered=['n'],
                     extra_sets=extra_sets, open_names=open_names, classify_extra=set(extra_sets) | set(open_names),
                     user_constants={'k': 7}, base_sets={'n': NSET}, repeat=repeat)
        if r1.violation is None and case[3] == 0:
            # a user constant literally named like the numbered HEAD: the head is not a variable (only n_{i} are), so the
            # constant n belongs to every sample
            r0 = run_mid('numbered/mid/constant-named-like-head', spec, samples, None, (stu, {}, [ans]), numbered=['n'],
                         extra_sets=extra_sets, open_names=open_names, classify_extra=set(extra_sets) | set(open_names),
                         user_constants={'k': 7, 'n': 5}, base_sets={'n': NSET}, repeat=repeat)
            if r0.violation is not None:
                r1 = r0
        # ---- G: what the recording functions see
        log = []
        fa, fs = Recorder(3, log, 'A'), Recorder(3, log, 'S')

        def body(ch):
            del log[:]
            done = []
            try:
                g = make_grader(spec, samples, None, ans, {'recA': fa, 'recS': fs}, numbered=['n'],
                                extra_sets={'n': NSET})
                for _ in range(repeat):
                    n0 = len(log)
                    res = g(None, stu)
                    done.append((res, list(log[n0:])))
            except Exception as e:      # noqa
                return ('err', e, len(done))
            return ('ok', done)

        def judge_call(site, res, calls):
            a_calls = [c[1] for c in calls if c[0] == 'A']
            s_calls = [c[1] for c in calls if c[0] == 'S']
            if not a_calls or not s_calls:
                raise HarnessError('recording functions not called: %r' % (calls,))
            views = [dict(zip(['x', 'd', na], c)) for c in a_calls] + [dict(zip(['x', 'd', nb], c)) for c in s_calls]
            if len(a_calls) == len(s_calls):
                # k-th evaluation of the answer and of the student input belong to the k-th sample
                for ca, cs in zip(a_calls, s_calls):
                    da, ds = dict(zip(['x', 'd', na], ca)), dict(zip(['x', 'd', nb], cs))
                    for nm in sorted(set(da) & set(ds)):
                        if not M.close(da[nm], ds[nm]):
                            return viol('%s:answer-and-student-see-different-samples' % site,
                                        '%s differs between the evaluation of the answer and of the student input '
                                        'within one sample' % nm, da, ds)
                    merged = dict(da)
                    merged.update(ds)
                    views.append(merged)
            for d in views:
                present = {nm: vals for nm, vals in extra_sets.items() if nm in d}
                absent = [nm for nm in list(extra_sets) + list(open_names) if nm not in d]
                sp = dict(spec)
                if plain and plain not in d:
                    sp = dict(spec, vars=[v_ for v_ in spec['vars'] if v_ != plain],
                              sets={k_: v_ for k_, v_ in spec['sets'].items() if k_ != plain})
                bad = M.judge_sample(sp, d, present, absent)
                if bad:
                    kind, msg, exp, obs = bad
                    return viol('%s:%s' % (site, kind), 'values seen by the author functions: %s' % msg, exp,
                                {'sample': d, 'value': obs})
            if na == nb and not (isinstance(res, dict) and res.get('ok') is True):
                return viol('%s:identical-input-not-correct' % site,
                            'student input with the same arguments as the answer was not graded correct', True, res)
            return None

        def judge(out):
            if out[0] == 'err':
                if open_names and is_config_error(out[1]):
                    return None
                return judge_error('numbered' if out[2] == 0 else 'numbered/repeated-call', 'ok', out[1])
            for k, (res, calls) in enumerate(out[1]):
                v = judge_call('numbered' if k == 0 else 'numbered/repeated-call', res, calls)
                if v:
                    return v
            return None

        r2 = product_check(body, judge, True, 'graded')
        return self.merge(r1, r2)

    @staticmethod
    def merge(r1, r2):
        v = pick([r.violation for r in (r1, r2) if r.violation])
        return Result('M[%s] G[%s]' % (r1.outcome, r2.outcome), True, v, calls=r1.calls + r2.calls)


# ----------------------------------------------------------------------------- constants and shadowing through a grader

CONST_KINDS = ['user-const', 'user-overrides-default', 'indep-var-shadows-default', 'dep-var-shadows-default',
               'removed-default-is-undefined', 'removed-default-redeclared-as-variable',
               'user-const-zero', 'user-overrides-default-with-zero', 'user-const-vector']


def consts_setup(case):
    kind, vperm, dperm = case
    kind = CONST_KINDS[kind]
    # chain x -> P -> d, where the middle name P is the interesting one
    kw = dict(user_constants={}, removed=(), suppress=False)
    if kind == 'user-const':
        names = ['x', 'p', 'd']
        sets = {'x': [2, 3]}
        forms = {'p': [1, [[2, ['x']], [3, ['k']]]], 'd': [2, [[3, ['p']], [-2, ['k']], [2, ['e']]]]}
        kw['user_constants'] = {'k': 7}
    elif kind == 'user-overrides-default':
        names = ['x', 'p', 'd']
        sets = {'x': [2, 3]}
        forms = {'p': [1, [[2, ['x']], [3, ['pi']]]], 'd': [2, [[3, ['p']], [-2, ['pi']]]]}
        kw['user_constants'] = {'pi': 3}
        kw['suppress'] = True
    elif kind == 'indep-var-shadows-default':
        names = ['x', 'pi', 'd']
        sets = {'x': [2, 3], 'pi': [5, 7]}
        forms = {'d': [2, [[3, ['pi']], [-2, ['x']]]]}
        kw['suppress'] = True
    elif kind == 'dep-var-shadows-default':
        names = ['x', 'pi', 'd']
        sets = {'x': [2, 3]}
        forms = {'pi': [1, [[2, ['x']]]], 'd': [2, [[3, ['pi']], [-2, ['x']]]]}
        kw['suppress'] = True
    elif kind == 'user-const-zero':
        # falsy but valid constants: the integer 0 and the float 0.0
        names = ['x', 'p', 'd']
        sets = {'x': [2, 3]}
        forms = {'p': [1, [[2, ['x']], [3, ['z']]]], 'd': [2, [[3, ['p']], [-2, ['zf']], [2, ['z']]]]}
        kw['user_constants'] = {'z': 0, 'zf': 0.0}
    elif kind == 'user-const-vector':
        # a vector-valued user constant u = [1,2]: p = x*u is a vector, d = p.u + 2*x a number
        names = ['x', 'p', 'd']
        sets = {'x': [2, 3]}
        forms = {'p': [None, [[1, ['x', 'u']]]], 'd': [None, [[1, ['p', 'u']], [2, ['x']]]]}
        kw['user_constants'] = {'u': [1, 2]}
    elif kind == 'user-overrides-default-with-zero':
        names = ['x', 'p', 'd']
        sets = {'x': [2, 3]}
        forms = {'p': [1, [[2, ['x']], [3, ['pi']]]], 'd': [2, [[3, ['p']], [-2, ['e']]]]}
        kw['user_constants'] = {'pi': 0, 'e': 0.0}
        kw['suppress'] = True
    elif kind == 'removed-default-is-undefined':
        names = ['x', 'p', 'd']
        sets = {'x': [2, 3]}
        forms = {'p': [1, [[2, ['x']]]], 'd': [2, [[3, ['p']], [-2, ['pi']]]]}
        kw['removed'] = ('pi',)
    else:
        names = ['x', 'pi', 'd']
        sets = {'x': [2, 3]}
        forms = {'pi': [1, [[2, ['x']]]], 'd': [2, [[3, ['pi']], [-2, ['x']]]]}
        kw['removed'] = ('pi',)
    spec = {'vars': [names[k] for k in M.perm_of(3, vperm)], 'sets': sets, 'forms': forms, 'consts': {}}
    return kind, spec, M.perm_of(3, dperm), kw


class ConstFamily(C13Family):
    name = 'grader_constants'
    rule = ('chain x -> P -> d in a FormulaGrader, kinds %s, in all 6 declaration orders x 6 sample_from insertion '
            'orders; observed at gen_var_and_func_samples (complete key set: variables, default constants e/pi/i/j '
            'minus removed ones, user constants, unless shadowed by a variable) and through a recording function; '
            '2 samples; full RNG product' % CONST_KINDS)

    def cases(self, tier):
        for kind in range(len(CONST_KINDS)):
            for vp in range(6):
                for dp in range(6):
                    yield (kind, vp, dp)

    def describe(self, case):
        kind, spec, dorder, kw = consts_setup(tuple(case))
        return {'kind': kind, 'variables': spec['vars'], 'independent': spec['sets'],
                'dependent': {n: M.formula_str(f) for n, f in spec['forms'].items()},
                'user_constants': dict(kw['user_constants'], **{n: None for n in kw['removed']})}

    def expects_error(self, case):
        return CONST_KINDS[case[0]] == 'removed-default-is-undefined'

    def check_case(self, case):
        kind, spec, dorder, kw = consts_setup(case)
        r1 = run_mid('consts/mid', spec, 2, dorder, ('0', {}, ['0']), **kw)
        # G: recording function of the three variables and the constants that exist in this kind
        consts = dict(DEFAULT_CONSTS)
        uc = dict(kw['user_constants'])
        for n in kw['removed']:
            consts.pop(n)
            uc[n] = None
        consts.update(kw['user_constants'])
        seen = sorted(n for n in consts if n not in ('i', 'j') and n not in spec['vars'])
        gspec = dict(spec, consts={n: consts[n] for n in seen})
        full = dict(spec, consts=consts)
        rec_names = sorted(list(spec['sets']) + list(spec['forms'])) + seen
        # classification must know all constants, the recorder only sees some
        r2 = run_grader('consts', gspec, 2, dorder, rec_names, user_constants=uc, suppress=kw['suppress'],
                        cls_spec=full)
        return NumberedFamily.merge(r1, r2)


# ----------------------------------------------------------------------------- sibling variables

SIB_PALETTE = [
    [1, [[2, ['x']]]],            # 1+2*x
    [None, [[1, ['x', 'x']]]],    # x*x
    [7, []],                      # 7
    [1, [[1, ['d']]]],            # 1+d       (circular when d itself hangs on this sibling)
    [2, [[3, ['k']]]],            # 2+3*k
]


def sibling_setup(case):
    m, inputs, dsib, rev, samples = case
    sibs = ['sibling_%d' % (k + 1) for k in range(m - 1)]
    dform = [1, [[2, ['x']]]]
    if dsib:
        dform[1].append([3, [sibs[dsib - 1]]])
    sub = {'vars': ['d', 'x'] if rev else ['x', 'd'], 'sets': {'x': [2, 3]}, 'forms': {'d': dform},
           'consts': {'k': 7}}
    full = {'vars': sub['vars'] + sibs, 'sets': sub['sets'], 'consts': {'k': 7},
            'forms': dict({'d': dform}, **{s: SIB_PALETTE[inputs[k]] for k, s in enumerate(sibs)})}
    return sub, full, sibs


class SiblingFamily(C13Family):
    name = 'sibling_variables'
    rule = ('ordered ListGrader of m = 2, 3 FormulaGraders (variables x in {2,3}, d = 1+2*x [+3*sibling_j]); the '
            'first m-1 student inputs run over the palette 1+2*x, x*x, 7, 1+d, 2+3*k; the last answer is '
            'rec(sibling_1.., x, d) with a recording function; both declaration orders; 1 or 2 samples; full RNG '
            'product.  sibling_j must equal the j-th input evaluated on the same sample; 1+d with d hanging on that '
            'sibling is circular')

    def cases(self, tier):
        for m in (2, 3):
            for inputs in itertools.product(range(len(SIB_PALETTE)), repeat=m - 1):
                for dsib in range(m):
                    for rev in (0, 1):
                        for samples in (1, 2):
                            yield (m, list(inputs), dsib, rev, samples)

    def describe(self, case):
        m, inputs, dsib, rev, samples = case
        sub, full, sibs = sibling_setup(case)
        return {'subgrader variables': sub['vars'], 'd': M.formula_str(sub['forms']['d']),
                'student inputs': [M.formula_str(SIB_PALETTE[k]) for k in inputs] + ['5'],
                'last answer': 'rec(%s)' % ','.join(sibs + ['x', 'd']), 'samples': samples}

    def expects_error(self, case):
        return M.classify(sibling_setup(case)[1]) != 'ok'

    def check_case(self, case):
        from mitxgraders import ListGrader
        m, inputs, dsib, rev, samples = case
        sub, full, sibs = sibling_setup(case)
        cls = M.classify(full)
        rec_names = sibs + ['x', 'd']
        log = []
        rec = Recorder(len(rec_names), log, 'rec')
        last = 'rec(%s)' % ','.join(rec_names)
        student = [M.formula_str(SIB_PALETTE[k]) for k in inputs] + ['5']

        def body(ch):
            del log[:]
            try:
                subgrader = make_grader(sub, samples, None, '0', {'rec': rec}, user_constants={'k': 7})
                lg = ListGrader(answers=['x'] * (m - 1) + [last], ordered=True, subgraders=subgrader)
                res = lg(None, list(student))
            except Exception as e:      # noqa
                return ('err', e)
            return ('ok', res, [c[1] for c in log])

        view = dict(full, vars=rec_names, consts={})

        def judge(out):
            if out[0] == 'err':
                return judge_error('sibling', cls, out[1])
            v = judge_no_error('sibling', cls, out[1])
            if v:
                return v
            if not out[2]:
                raise HarnessError('recording function never called')
            for args in out[2]:
                d = dict(zip(rec_names, args))
                d['k'] = 7
                bad = M.judge_sample(dict(view, consts={'k': 7}), d)
                if bad:
                    kind, msg, exp, obs = bad
                    return viol('sibling:%s' % kind, 'values seen by the author function: %s' % msg, exp,
                                {'sample': d, 'value': obs})
            return None

        return product_check(body, judge, True, 'graded')


# ----------------------------------------------------------------------------- several numbered heads, other carriers

HEADS = ['n', 'N', 'nn']                       # case-distinct heads and a head that is a prefix of another
HEADSETS = {'n': [11, 13], 'N': [23], 'nn': [31]}
IDXPATS = [(1, 1, 1), (1, 10, -1), (0, 0, 0), (101, -100, 12), (-345, 0, 1)]
MULTI_CARRIERS = ['formula-mid', 'integral-mid', 'params2', 'matrix2', 'sum', 'sibling']


def always_equal(comparer_params_eval, student_eval, utils):
    return True


def multi_setup(case):
    car, h1, h2, h3, pat, dep = case
    hs = (h1, h2, h3)
    insts = ['%s_{%d}' % (HEADS[h], i) for h, i in zip(hs, IDXPATS[pat])]
    form = [1, [[2, ['x']]]]
    if dep:
        form[1].append([3, [insts[dep - 1]]])
    spec = {'vars': ['x', 'd'], 'sets': {'x': [2, 3]}, 'forms': {'d': form}, 'consts': {}}
    extra_sets = {nm: list(HEADSETS[HEADS[h]]) for nm, h in zip(insts, hs)}
    return MULTI_CARRIERS[car], insts, spec, extra_sets


class NumberedMultiFamily(C13Family):
    name = 'numbered_multi'
    rule = ('three numbered heads at once: n {11,13}, N {23}, nn {31} (case-distinct; one a prefix of another); three '
            'instances I1, I2, I3 with heads from every triple of heads and index patterns (1,1,1), (1,10,-1) '
            '[thorough: also (0,0,0), (101,-100,12), (-345,0,1)]; d = 1+2*x [+3*I1 | I2 | I3]; the instances reach the '
            'sampler through different CARRIERS: formula-mid = gen_var_and_func_samples(I3-expression, {}, [two comparer '
            'parameters]) of a FormulaGrader; integral-mid = the same with the (answer dict, student dict) call shape of an '
            'IntegralGrader (full key set incl. the constant infty); params2 / matrix2 = FormulaGrader / MatrixGrader '
            'whose answer has TWO comparer_params (recA(x,d,I1), recB(I2)) and student input recS(I3); sum = SumGrader '
            'with I1 in the limits, I2 in the author\'s summand, I3 in the student\'s summand; sibling = ordered '
            'ListGrader whose first input I1+x reaches the second grading only as sibling_1 (I1 = sibling_1 - x must '
            'be in the set of its head).  1 sample (all recorded calls belong to one sample and must agree); full RNG '
            'product')

    def cases(self, tier):
        pats = range(len(IDXPATS)) if tier == 'thorough' else (0, 1)
        for car in range(len(MULTI_CARRIERS)):
            for pat in pats:
                for dep in range(4):
                    if MULTI_CARRIERS[car] == 'sibling' and dep > 1:
                        continue        # the first input is graded without I2 / I3 in any expression: left open
                    for h1 in range(3):
                        for h2 in range(3):
                            for h3 in range(3):
                                yield (car, h1, h2, h3, pat, dep)

    def describe(self, case):
        carrier, insts, spec, extra_sets = multi_setup(tuple(case))
        return {'carrier': carrier, 'numbered_vars': HEADS, 'sets of the heads': HEADSETS, 'I1,I2,I3': insts,
                'd': M.formula_str(spec['forms']['d']), 'x': spec['sets']['x'], 'samples': 1}

    def check_case(self, case):
        from mitxgraders import FormulaGrader, MatrixGrader, SumGrader, IntegralGrader, ListGrader
        carrier, insts, spec, extra_sets = multi_setup(case)
        i1, i2, i3 = insts
        site = 'multi/' + carrier
        log = []
        fa, fb, fs = Recorder(3, log, 'A'), Recorder(1, log, 'B'), Recorder(1, log, 'S')
        funcs = {'recA': fa, 'recB': fb, 'recS': fs}

        def common():
            sf = sample_from_of(spec)
            for h in HEADS:
                sf[h] = discrete(HEADSETS[h])
            return dict(variables=list(spec['vars']), sample_from=sf, samples=1, numbered_vars=list(HEADS),
                        user_functions=dict(funcs))

        # ---------------- M carriers: full dictionaries
        if carrier in ('formula-mid', 'integral-mid'):
            consts = dict(DEFAULT_CONSTS)

            def body(ch):
                try:
                    if carrier == 'formula-mid':
                        g = FormulaGrader(answers='0', **common())
                        out = g.gen_var_and_func_samples(i3, {}, ['x+d+' + i1, '2*' + i2])
                    else:
                        g = IntegralGrader(answers={'lower': 'x', 'upper': 'd', 'integrand': i1 + '*t',
                                                    'integration_variable': 't'},
                                           input_positions={'integrand': 1, 'lower': 2}, **common())
                        out = g.gen_var_and_func_samples(dict(g.config['answers']),
                                                         {'integrand': i2 + '+t', 'lower': i3, 'upper': 'd',
                                                          'integration_variable': 't'})
                except Exception as e:      # noqa
                    return ('err', e)
                return ('ok', out)

            full = dict(spec, consts=consts)

            def judge(out):
                if out[0] == 'err':
                    return judge_error(site, 'ok', out[1])
                pair = out[1]
                if not (isinstance(pair, tuple) and len(pair) == 2):
                    return viol('%s:bad-return' % site, 'expected (var_samples, func_samples)', None, repr(pair))
                v = judge_dicts(site, full, 1, pair[0], extra_sets)
                if v is None and carrier == 'integral-mid':
                    d0 = pair[0][0]
                    if 'infty' not in d0 or d0['infty'] != float('inf'):
                        return viol('%s:missing-key' % site, 'default constant infty of the IntegralGrader is not in '
                                    'the sample', 'inf', repr(d0.get('infty')))
                return v

            return product_check(body, judge, True, 'values')

        # ---------------- G carriers: what the recording functions see
        a_names = ['sibling_1', 'x', 'd'] if carrier == 'sibling' else ['x', 'd', i1]
        two = {'comparer_params': ['recA(%s)' % ','.join(a_names), 'recB(%s)' % i2], 'comparer': always_equal}
        stu = 'recS(%s)' % i3

        def body(ch):
            del log[:]
            try:
                if carrier in ('params2', 'matrix2'):
                    g = (MatrixGrader if carrier == 'matrix2' else FormulaGrader)(answers=two, **common())
                    res = g(None, stu)
                elif carrier == 'sum':
                    lower = 'recA(%s)' % ','.join(a_names)
                    g = SumGrader(answers={'lower': lower, 'upper': lower + '+1', 'summand': 'recB(%s)' % i2,
                                           'summation_variable': 't'},
                                  input_positions={'summand': 1}, **common())
                    res = g(None, stu)
                else:
                    sub = FormulaGrader(answers='0', **common())
                    lg = ListGrader(answers=[i1 + '+x', two], subgraders=sub, ordered=True)
                    res = lg(None, [i1 + '+x', stu])
            except Exception as e:      # noqa
                return ('err', e)
            return ('ok', res, list(log))

        names_of = {'A': a_names, 'B': [i2], 'S': [i3]}

        def judge(out):
            if out[0] == 'err':
                return judge_error(site, 'ok', out[1])
            calls = out[2]
            tags = set(c[0] for c in calls)
            if tags != set('ABS'):
                raise HarnessError('recording functions called: %r' % (sorted(tags),))
            merged = {}
            for tag, args in calls:
                for nm, val in zip(names_of[tag], args):
                    if nm in merged and not M.close(merged[nm], val):
                        return viol('%s:one-sample-two-values' % site,
                                    '%s has two different values within the single sample of this grading' % nm,
                                    merged[nm], val)
                    merged[nm] = val
            sp = spec
            if carrier == 'sibling':
                try:
                    merged[i1] = merged['sibling_1'] - merged['x']
                except TypeError:
                    return viol('%s:dependent-inconsistent' % site, 'sibling_1 is not a number', 'number',
                                merged['sibling_1'])
                sp = dict(spec, vars=spec['vars'] + ['sibling_1'],
                          forms=dict(spec['forms'], sibling_1=[None, [[1, [i1]], [1, ['x']]]]))
            bad = M.judge_sample(sp, merged, extra_sets)
            if bad:
                kind, msg, exp, obs = bad
                return viol('%s:%s' % (site, kind), 'values seen by the author functions: %s' % msg, exp,
                            {'sample': merged, 'value': obs})
            return None

        return product_check(body, judge, True, 'graded')


# ----------------------------------------------------------------------------- one grader, several different inputs

HIST_HEADS = ['n', 'N']
HIST_SETS = {'n': [11], 'N': [23]}


def history_setup(case):
    h1, h2, hj1, hj3, j3idx, dep = case
    i1, i2 = '%s_{5}' % HIST_HEADS[h1], '%s_{6}' % HIST_HEADS[h2]
    j1, j3 = '%s_{1}' % HIST_HEADS[hj1], '%s_{%d}' % (HIST_HEADS[hj3], j3idx)
    form = [1, [[2, ['x']]]]
    if dep:
        form[1].append([3, [[i1, i2][dep - 1]]])
    spec = {'vars': ['x', 'd'], 'sets': {'x': [2, 3]}, 'forms': {'d': form}, 'consts': {}}
    return i1, i2, j1, j3, spec


class NumberedHistoryFamily(C13Family):
    name = 'numbered_history'
    rule = ('ONE FormulaGrader (heads n {11}, N {23}; answer with two comparer_params recA(x,d,I1), recB(I2); d = 1+2*x '
            '[+3*I1 | +3*I2]) is called three times in a row: student input recS(J1), then an input that raises '
            '(undefined variable), then recS(J3) with ANOTHER instance (other index and/or other head): every call '
            'must sample exactly the instances of ITS OWN expressions from the right head; heads of I1, I2, J1, J3 '
            'and the index of J3 in {1, 2} enumerated; 1 sample; full RNG product')

    def cases(self, tier):
        for dep in range(3):
            for h1 in range(2):
                for h2 in range(2):
                    for hj1 in range(2):
                        for hj3 in range(2):
                            for j3idx in (1, 2):
                                yield (h1, h2, hj1, hj3, j3idx, dep)

    def describe(self, case):
        i1, i2, j1, j3, spec = history_setup(tuple(case))
        return {'numbered_vars': HIST_HEADS, 'sets of the heads': HIST_SETS,
                'answer': ['recA(x,d,%s)' % i1, 'recB(%s)' % i2], 'd': M.formula_str(spec['forms']['d']),
                'student inputs in a row': ['recS(%s)' % j1, 'recS(undefined_q)', 'recS(%s)' % j3]}

    def check_case(self, case):
        from mitxgraders import FormulaGrader
        i1, i2, j1, j3, spec = history_setup(case)
        log = []
        funcs = {'recA': Recorder(3, log, 'A'), 'recB': Recorder(1, log, 'B'), 'recS': Recorder(1, log, 'S')}
        two = {'comparer_params': ['recA(x,d,%s)' % i1, 'recB(%s)' % i2], 'comparer': always_equal}

        def body(ch):
            del log[:]
            done = []
            try:
                sf = sample_from_of(spec)
                for h in HIST_HEADS:
                    sf[h] = discrete(HIST_SETS[h])
                g = FormulaGrader(answers=two, variables=list(spec['vars']), sample_from=sf, samples=1,
                                  numbered_vars=list(HIST_HEADS), user_functions=dict(funcs))
                for k, stu in enumerate(['recS(%s)' % j1, 'recS(undefined_q)', 'recS(%s)' % j3]):
                    n0 = len(log)
                    if k == 1:
                        try:
                            g(None, stu)
                        except Exception:       # noqa  (the student's mistake; whatever is raised)
                            pass
                        continue
                    g(None, stu)
                    done.append((k, list(log[n0:])))
            except Exception as e:      # noqa
                return ('err', e, len(done))
            return ('ok', done)

        def judge(out):
            if out[0] == 'err':
                return judge_error('history' if out[2] == 0 else 'history/later-call', 'ok', out[1])
            for k, calls in out[1]:
                site = 'history' if k == 0 else 'history/later-call'
                jn = j1 if k == 0 else j3
                names_of = {'A': ['x', 'd', i1], 'B': [i2], 'S': [jn]}
                if set(c[0] for c in calls) != set('ABS'):
                    raise HarnessError('recording functions called: %r' % (calls,))
                merged = {}
                for tag, args in calls:
                    for nm, val in zip(names_of[tag], args):
                        if nm in merged and not M.close(merged[nm], val):
                            return viol('%s:one-sample-two-values' % site,
                                        '%s has two different values within the single sample of this grading' % nm,
                                        merged[nm], val)
                        merged[nm] = val
                extra_sets = {nm: HIST_SETS[nm.split('_')[0]] for nm in (i1, i2, jn)}
                bad = M.judge_sample(spec, merged, extra_sets)
                if bad:
                    kind, msg, exp, obs = bad
                    return viol('%s:%s' % (site, kind), 'values seen by the author functions: %s' % msg, exp,
                                {'sample': merged, 'value': obs})
            return None

        def label(out):
            seen = [args[0] for k, calls in out[1] for tag, args in calls if tag == 'S']
            return 'graded:student-instance-values=%s' % '/'.join(str(v) for v in sorted(set(seen)))

        return product_check(body, judge, True, label)


# ----------------------------------------------------------------------------- siblings in mixed lists

MIX_PALETTES = {
    'scalar': [('1+2*x', [1, [[2, ['x']]]]), ('x*x', [None, [[1, ['x', 'x']]]]), ('7', [7, []])],
    'matrix': [('[1,2]*x', [None, [[1, ['x', 'v12']]]]), ('x*x', [None, [[1, ['x', 'x']]]]),
               ('[3,4]', [None, [[1, ['v34']]]])],
}
MIX_MODES = ['shared', 'distinct', 'matrix']
MIX_PSEUDO = {'v12': [1, 2], 'v34': [3, 4]}          # only for the reference: the literals of the matrix palette
MIX_PAIRS_QUICK = [(0, 1), (1, 0), (2, 0), (0, 2), (2, 2)]


def mixed_setup(case):
    mode, strpos, rpos, a_in, b_in, dsib = case
    mode = MIX_MODES[mode]
    pal = MIX_PALETTES['matrix' if mode == 'matrix' else 'scalar']
    slots = ['f0', 'f1', 'f2']
    layout = list(slots)
    if strpos >= 0:
        layout.insert(strpos, 'str')
    providers = [sl for sl in slots if sl != slots[rpos]]
    sib = {sl: 'sibling_%d' % (layout.index(sl) + 1) for sl in providers}
    sa, sb = sib[providers[0]], sib[providers[1]]
    if mode == 'matrix':
        dform = [1, [[2, ['x']]]]
        if dsib:
            dform[1].append([3, [[sa, sb][dsib - 1]] * 2])         # 3*(sibling . sibling): a number either way
    else:
        dform = [1, [[2, ['x']]]]
        if dsib:
            dform[1].append([3, [[sa, sb][dsib - 1]]])
    inputs = {providers[0]: pal[a_in], providers[1]: pal[b_in]}
    return mode, layout, slots[rpos], providers, sa, sb, dform, inputs


class SiblingMixedFamily(C13Family):
    name = 'sibling_mixed'
    rule = ('ordered ListGrader with a LIST of subgraders: three formula slots and optionally a StringGrader inserted at '
            'position 0..3 (sibling_k is numbered by the position in the whole list); the recording answer '
            'rec(sibling_a, sibling_b, x, d) sits in the first, middle or last formula slot (so it refers to later '
            'inputs as well as earlier ones); the two other inputs run over a palette (scalar: 1+2*x, x*x, 7; matrix: '
            '[1,2]*x, x*x, [3,4]); d = 1+2*x [+3*sibling_a | +3*sibling_b] (matrix mode: 3*sibling*sibling); modes: '
            'one FormulaGrader object in all three slots / three separately built FormulaGraders / one MatrixGrader '
            'object (vector-valued siblings); 1 sample; full RNG product.  Quick: StringGrader absent / first / '
            'between, 5 of the 9 input pairs')

    def cases(self, tier):
        strposs = (-1, 0, 1, 2, 3) if tier == 'thorough' else (-1, 0, 2)
        pairs = [(a, b) for a in range(3) for b in range(3)] if tier == 'thorough' else MIX_PAIRS_QUICK
        for mode in range(len(MIX_MODES)):
            for strpos in strposs:
                for rpos in range(3):
                    for a_in, b_in in pairs:
                        for dsib in range(3):
                            yield (mode, strpos, rpos, a_in, b_in, dsib)

    def describe(self, case):
        mode, layout, rslot, providers, sa, sb, dform, inputs = mixed_setup(tuple(case))
        return {'mode': mode, 'list': ['StringGrader' if sl == 'str' else
                                       ('rec(%s,%s,x,d)' % (sa, sb) if sl == rslot else 'input ' + inputs[sl][0])
                                       for sl in layout],
                'd': M.formula_str(dform), 'x': [2, 3], 'samples': 1}

    def check_case(self, case):
        from mitxgraders import ListGrader, StringGrader, MatrixGrader
        mode, layout, rslot, providers, sa, sb, dform, inputs = mixed_setup(case)
        sub = {'vars': ['x', 'd'], 'sets': {'x': [2, 3]}, 'forms': {'d': dform}, 'consts': {}}
        rec_names = [sa, sb, 'x', 'd']
        log = []
        rec = Recorder(4, log, 'rec')
        last = 'rec(%s)' % ','.join(rec_names)
        view = {'vars': rec_names, 'sets': {'x': [2, 3]}, 'consts': dict(MIX_PSEUDO),
                'forms': {sa: inputs[providers[0]][1], sb: inputs[providers[1]][1], 'd': dform}}

        def build():
            if mode == 'matrix':
                return make_grader(sub, 1, None, '0', {'rec': rec}, klass=MatrixGrader)
            return make_grader(sub, 1, None, '0', {'rec': rec})

        def body(ch):
            del log[:]
            try:
                shared = build()
                graders, answers, student = [], [], []
                for sl in layout:
                    if sl == 'str':
                        graders.append(StringGrader())
                        answers.append('cat')
                        student.append('cat')
                        continue
                    graders.append(build() if mode == 'distinct' else shared)
                    answers.append(last if sl == rslot else inputs[sl][0])      # (MatrixGrader compares shapes)
                    student.append('5' if sl == rslot else inputs[sl][0])
                lg = ListGrader(answers=answers, subgraders=graders, ordered=True)
                res = lg(None, student)
            except Exception as e:      # noqa
                return ('err', e)
            return ('ok', res, [c[1] for c in log])

        def judge(out):
            if out[0] == 'err':
                return judge_error('sibling-mixed', 'ok', out[1])
            if not out[2]:
                raise HarnessError('recording function never called')
            for args in out[2]:
                d = dict(zip(rec_names, args))
                d.update(MIX_PSEUDO)
                bad = M.judge_sample(view, d)
                if bad:
                    kind, msg, exp, obs = bad
                    return viol('sibling-mixed:%s' % kind, 'values seen by the author function: %s' % msg, exp,
                                {'sample': d, 'value': obs})
            return None

        def label(out):
            kinds = sorted(set('vector' if isinstance(a, list) else 'number' for args in out[2] for a in args[:2]))
            return 'graded:siblings=' + '/'.join(kinds)

        return product_check(body, judge, True, label)


# ----------------------------------------------------------------------------- what a formula may contain

FEATURE_SHAPES = [(1, 0), (2, 0), (0, 0), (1, 1), (1, 2)]          # (samples; 0 = the grader's default of 5, root mode)


class FormulaFeatureFamily(C13Family):
    name = 'formula_features'
    timeout = 30.0           # up to 32 gradings with a 17-argument recording function per case
    rule = ('one configuration of 12 variables whose dependent formulas use an author-defined function, a default '
            'function, the % suffix, a bare number (no dependency at all), the zero constants 0 and 0.0, the default '
            'constant i (complex values), a vector literal and a dot product, with a primed name x\' and the '
            'case-distinct names x / X (mcv/refs/c13_features.py); declared in topological order, its reverse, every '
            'rotation and one interleaving (sample_from insertion order reversed for odd order numbers); observed at '
            'gen_symbols_samples (D: 1 and 2 samples; roots as DiscreteSets, or X as RealInterval [5,7]), at '
            'gen_var_and_func_samples (M) and through a recording function (G) of a FormulaGrader with 1, 2 and the '
            'DEFAULT number of samples (samples not passed: 5; X then one-valued) and, with 1 sample, roots given in '
            'the raw forms the grader coerces (x as tuple (2,3), x\' as number 11, X left at the default sampling set '
            '(docs: RealInterval [1,5]) or given as list [5,7]); full RNG product (continuous draws: the 5-entry menu of mcv.chooser)')

    def cases(self, tier):
        for oidx in range(len(F.ORDERS)):
            for arm in ('D', 'M', 'G'):
                for samples, rmode in FEATURE_SHAPES:
                    if arm == 'D' and (samples == 0 or rmode == 1):
                        continue
                    yield (arm, oidx, samples, rmode)

    def describe(self, case):
        arm, oidx, samples, rmode = case
        return {'observe': arm, 'variables': [F.TOPO[k] for k in F.ORDERS[oidx]],
                'samples': samples or 'default (5)', 'roots': self.roots(samples, rmode)[1],
                'dependent': {n: t[0] for n, t in F.DEPS.items()}, 'user_constants': dict(F.USER_CONSTS)}

    @staticmethod
    def roots(samples, rmode):
        """(sample_from entries as given to the library, reference description of the roots)"""
        xs, Xs = [2, 3], ([5, 7] if samples else [5])
        if rmode == 0:
            return ({'x': discrete(xs), 'X': discrete(Xs), "x'": discrete([11])},
                    {'x': ['set', xs], 'X': ['set', Xs], "x'": ['set', [11]]})
        if rmode == 1:
            return ({'x': tuple(xs), "x'": 11},
                    {'x': ['set', xs], 'X': ['interval', 1, 5], "x'": ['set', [11]]})
        return ({'x': tuple(xs), 'X': [5, 7], "x'": 11},
                {'x': ['set', xs], 'X': ['interval', 5, 7], "x'": ['set', [11]]})

    def check_case(self, case):
        from mitxgraders import FormulaGrader, RealInterval, DiscreteSet
        from mitxgraders.sampling import gen_symbols_samples
        from mitxgraders.helpers.calc import DEFAULT_FUNCTIONS, DEFAULT_SUFFIXES
        arm, oidx, samples, rmode = case
        order = [F.TOPO[k] for k in F.ORDERS[oidx]]
        given, roots = self.roots(samples, rmode)
        nsamples = samples or 5
        names = sorted(F.TOPO)
        if oidx % 2:
            names = names[::-1]
        site = {'D': 'direct', 'M': 'mid', 'G': 'grader'}[arm] + '/features'
        rec_names = F.TOPO + ['z0', 'zf', 'k', 'e', 'pi']
        log = []
        rec = Recorder(len(rec_names), log, 'rec')
        expr = 'rec(%s)' % ','.join(rec_names)

        def sample_from():
            sf = OrderedDict()
            for n in names:
                if n in F.DEPS:
                    sf[n] = dependent_text(F.DEPS[n][0])
                elif n in given:
                    sf[n] = given[n]
            return dict(sf)

        def body(ch):
            del log[:]
            try:
                sf = sample_from()
                if arm == 'D':
                    for n in list(sf):
                        if isinstance(sf[n], list):
                            sf[n] = RealInterval(sf[n])
                        elif isinstance(sf[n], (tuple, int)):
                            sf[n] = DiscreteSet(sf[n])
                    funcs = dict(DEFAULT_FUNCTIONS, twice=F.twice)
                    out = gen_symbols_samples(list(order), nsamples, sf, funcs, dict(DEFAULT_SUFFIXES), F.constants())
                    return ('ok', out)
                kw = dict(answers=expr, variables=list(order), sample_from=sf,
                          user_functions={'twice': F.twice, 'rec': rec}, user_constants=dict(F.USER_CONSTS))
                if samples:
                    kw['samples'] = samples
                g = FormulaGrader(**kw)
                if arm == 'M':
                    return ('ok', g.gen_var_and_func_samples(expr, {}, [expr])[0])
                res = g(None, expr)
                return ('ok', [dict(zip(rec_names, c[1])) for c in log], res)
            except Exception as e:      # noqa
                return ('err', e)

        def judge(out):
            if out[0] == 'err':
                return judge_error(site, 'ok', out[1])
            dicts = out[1]
            if arm != 'G' and (not isinstance(dicts, list) or len(dicts) != nsamples):
                return viol('%s:wrong-sample-count' % site, 'expected %d sample dictionaries' % nsamples, nsamples,
                            len(dicts) if isinstance(dicts, list) else repr(dicts))
            if arm == 'G':
                if not dicts:
                    raise HarnessError('recording function never called')
                if not (isinstance(out[2], dict) and out[2].get('ok') is True):
                    return viol('%s:identical-input-not-correct' % site,
                                'student input identical to the answer was not graded correct', True, out[2])
            for k, d in enumerate(dicts):
                d = {n: to_py(v) for n, v in d.items()}
                bad = F.judge_sample(d, roots, need_consts=(arm != 'G'))
                if bad:
                    kind, msg, exp, obs = bad
                    return viol('%s:%s' % (site, kind), 'sample %d: %s' % (k + 1, msg), exp,
                                {'sample': d, 'value': obs})
            return None

        return product_check(body, judge, True, 'values' if arm != 'G' else 'graded')


_DEPT = {}


def dependent_text(text):
    from mitxgraders import DependentSampler
    if text not in _DEPT:
        _DEPT[text] = DependentSampler(formula=text)
    return _DEPT[text]


# ----------------------------------------------------------------------------- registry

SOME_ORDERS4 = [0, 5, 10, 15, 20, 23]


def families(tier):
    fams = [
        GraphFamily('direct_digraph_le3', 'D', (1, 2, 3), True),
        GraphFamily('direct_dag4', 'D', (4,), False, dorders='first',
                    note=' (gen_symbols_samples only looks names up in sample_from: its insertion order is varied '
                         'in the <=3-node families and in the grader families)'),
        GraphFamily('direct_variants_le3', 'D', (2, 3), False,
                    variants=('const', 'constroot', 'shadow', 'dangling-first', 'dangling-last', 'depends',
                              'subclass', 'literal'),
                    dorders='same+reversed'),
        GraphFamily('direct_samples_1_3', 'D', (3,), False, samples=(1, 3), dorders='first'),
        GraphFamily('grader_digraph_le3', 'G', (1, 2, 3), True),
        GraphFamily('grader_variants_le3', 'G', (2, 3), False,
                    variants=('const', 'constroot', 'dangling-first', 'depends', 'subclass', 'literal'),
                    dorders='same+reversed'),
        ShapeFamily(),
        VectorFamily(),
        NumberedFamily(),
        ConstFamily(),
        SiblingFamily(),
        NumberedMultiFamily(),
        NumberedHistoryFamily(),
        SiblingMixedFamily(),
        FormulaFeatureFamily(),
    ]
    if tier == 'thorough':
        fams += [
            GraphFamily('direct_digraph4_loops', 'D', (4,), True, vorders=[0, 23], dorders='first'),
            GraphFamily('direct_digraph5', 'D', (5,), False, vorders=[-2], dorders='first', samples=(1,),
                        note=' (all 2^20 graphs, 97% cyclic: one declaration order, the reverse of the names)'),
            GraphFamily('direct_dag5_orders', 'D', (5,), False, vorders='fixed12', dorders='first', samples=(1,),
                        acyclic_only=True, note=' (the 29281 acyclic graphs only)'),
            GraphFamily('direct_variants4', 'D', (4,), False,
                        variants=('const', 'constroot', 'shadow', 'dangling-first', 'dangling-last', 'depends',
                                  'subclass', 'literal'),
                        vorders=SOME_ORDERS4, dorders='first'),
            GraphFamily('grader_dag4', 'G', (4,), False, dorders='first'),
            GraphFamily('grader_dag4_acyclic_revdict', 'G', (4,), False, dorders='reversed', acyclic_only=True,
                        note=' (the 543 acyclic graphs only)'),
        ]
    return fams
