"""
Canonical, order-normalised rendering of Python object graphs, used as the state
key of the explicit-state searches.  Nothing reachable is dropped (an over-fine
key only costs time; see DESIGN.md 2.4).
"""
import types
import numpy as np


def canon(x, _depth=0, _seen=None):
    if _seen is None:
        _seen = set()
    if _depth > 25:
        return ('<deep>',)
    if x is None or isinstance(x, (bool, int, str, bytes)):
        return x
    if isinstance(x, float):
        return ('f', repr(x))
    if isinstance(x, complex):
        return ('c', repr(x))
    if isinstance(x, np.ndarray):
        return ('nd', type(x).__name__, str(x.dtype), x.shape, x.tobytes())
    if isinstance(x, np.generic):
        return ('ng', type(x).__name__, repr(x.item()))
    if isinstance(x, dict):
        items = [(canon(k, _depth + 1, _seen), canon(v, _depth + 1, _seen)) for k, v in x.items()]
        return ('d', tuple(sorted(items, key=repr)))
    if isinstance(x, (set, frozenset)):
        return ('s', tuple(sorted((canon(v, _depth + 1, _seen) for v in x), key=repr)))
    if isinstance(x, tuple):
        return ('t', tuple(canon(v, _depth + 1, _seen) for v in x))
    if isinstance(x, list):
        return ('l', tuple(canon(v, _depth + 1, _seen) for v in x))
    if isinstance(x, (types.FunctionType, types.BuiltinFunctionType, types.MethodType, type)):
        return ('fn', getattr(x, '__module__', ''), getattr(x, '__qualname__', repr(x)))
    if isinstance(x, np.ufunc):
        return ('ufunc', x.__name__)
    ident = id(x)
    if ident in _seen:
        return ('<cycle>', type(x).__name__)
    _seen = _seen | {ident}
    d = getattr(x, '__dict__', None)
    if d is not None:
        return ('o', type(x).__module__, type(x).__qualname__, canon(dict(d), _depth + 1, _seen))
    slots = getattr(type(x), '__slots__', None)
    if slots:
        return ('o', type(x).__qualname__,
                tuple((s, canon(getattr(x, s, None), _depth + 1, _seen)) for s in slots))
    r = repr(x)
    if ' at 0x' in r:
        r = type(x).__qualname__
    return ('r', r)
