"""
Reference model for C17 (attempt-based credit), written from the property statement and
/repo/docs/graders.md -- it never calls the library.

Schedules are described by small JSON-able specs:

    ['lin', after, steps, 'min']   LinearCredit(decrease_credit_after, decrease_credit_steps, minimum_credit)
    ['geo', 'factor']              GeometricCredit(factor)
    ['rec']                        ReciprocalCredit()
    ['const', name]                author function n -> VALUES[name]
    ['step', name]                 author function n -> 1 if n == 1 else VALUES[name]
    ['ramp', name]                 author function n -> VALUES[name] ** (n - 1) computed WITHOUT rounding

`exact(spec, n)` is the mathematically exact value (a Fraction) that the documentation
promises for attempt n >= 1; the library rounds its values to four decimals (documented by the
examples 0.3333 / 33.3%), which the comparisons allow for with a guard band of half a unit
in the fourth decimal.
"""
import re
from fractions import Fraction

ROUND_BAND = 0.5e-4 + 1e-9      # 4-decimal rounding (left open by the statement) + float noise
EPS = 1e-12

# numbers are written as strings in the cases so that the JSON form is exact and readable
NUMBERS = {
    '0': 0, '1': 1,                       # ints (the schema accepts the literals 0 and 1)
    '0.0': 0.0, '1.0': 1.0,
}

VALUES = {
    'int1': 1, 'int0': 0, 'float1': 1.0, 'float0': 0.0,
    'half': 0.5, 'eighth': 0.125, 'sixteenth': 0.0625, 'p1875': 0.1875,
    'p3333': 0.3333, 'third': 1.0 / 3, 'p999': 0.999, 'p8': 0.8,
    'r99996': 0.99996,      # rounds to 1 at four decimals
    'r99994': 0.99994,      # rounds to 0.9999
    'tiny': 0.00004,        # rounds to 0
    'p0004': 0.0004,        # 0.04 %
    'p0001': 0.0001,        # the smallest value that survives four-decimal rounding
}


def number(text):
    """'0' -> int 0, '1' -> int 1, anything else -> float (what an author would type)."""
    if text in NUMBERS:
        return NUMBERS[text]
    return float(text)


def frac(text):
    """the decimal number the author wrote, exactly"""
    return Fraction(text)


def exact(spec, n):
    """Exact documented value of the schedule at attempt n (n >= 1)."""
    kind = spec[0]
    if n < 1:
        raise ValueError('attempts below 1 count as 1; clamp before asking the reference')
    if kind == 'as':        # ['as', how, *inner]: the inner schedule handed over as another kind of callable
        return exact(spec[2:], n)
    if n > BIG and kind in ('geo', 'ramp'):
        return exact_big(spec, n)
    if kind == 'lin':
        after, steps, minimum = int(spec[1]), int(spec[2]), frac(spec[3])
        if n <= after:
            return Fraction(1)
        k = n - after
        if k >= steps:
            return minimum
        return 1 + (minimum - 1) * Fraction(k, steps)
    if kind == 'geo':
        f = frac(spec[1])
        return Fraction(1) if n == 1 else f ** (n - 1)
    if kind == 'rec':
        return Fraction(1, n)
    if kind == 'const':
        return Fraction(VALUES[spec[1]])
    if kind == 'step':
        return Fraction(1) if n == 1 else Fraction(VALUES[spec[1]])
    if kind == 'ramp':
        return Fraction(VALUES[spec[1]]) ** (n - 1)
    raise ValueError('unknown schedule spec %r' % (spec,))


BIG = 5000


def exact_big(spec, n):
    """
    Documented value for attempts far beyond the exhaustive range (a Fraction; for a geometric schedule
    a Fraction of the float power, which is all the four-decimal comparison needs -- the exact rational
    power of e.g. 0.99 ** (10**18) cannot be written down).
    """
    import math
    kind = spec[0]
    if kind in ('geo', 'ramp'):
        f = frac(spec[1]) if kind == 'geo' else Fraction(VALUES[spec[1]])
        if f == 1:
            return Fraction(1)
        if f == 0:
            return Fraction(0)
        if n - 1 <= BIG:
            return f ** (n - 1)
        exponent = (n - 1) * math.log(float(f))
        return Fraction(0) if exponent < -60 else Fraction(math.exp(exponent))
    return exact(spec, n)


def describe_spec(spec):
    kind = spec[0]
    if kind == 'as':
        return '%s [handed over as a %s]' % (describe_spec(spec[2:]), spec[1])
    if kind == 'lin':
        return 'LinearCredit(decrease_credit_after=%s, decrease_credit_steps=%s, minimum_credit=%s)' % tuple(spec[1:4])
    if kind == 'geo':
        return 'GeometricCredit(factor=%s)' % spec[1]
    if kind == 'rec':
        return 'ReciprocalCredit()'
    if kind == 'const':
        return 'lambda n: %r' % (VALUES[spec[1]],)
    if kind == 'step':
        return 'lambda n: 1 if n == 1 else %r' % (VALUES[spec[1]],)
    if kind == 'ramp':
        return 'lambda n: %r ** (n - 1)' % (VALUES[spec[1]],)
    return repr(spec)


def ok_of(grade):
    """'ok' recomputed from a grade: True for 1, False for 0, otherwise 'partial' (docs/graders.md examples)."""
    if grade == 1:
        return True
    if grade == 0:
        return False
    return 'partial'


NOTE_RE = re.compile(r'Maximum credit for attempt #(-?[0-9.]+) is ([^ %]*)%\.$')
PCT_RE = re.compile(r'^[0-9]+(\.[0-9])?$')
SEP_RE = re.compile(r'^(\s|<br/>)*$')


def split_note(base_msg, new_msg):
    """
    Decompose new_msg into base_msg + separator + note.
    Returns (problem, attempt_text, percent_text); problem is None when the shape is right.
    """
    m = NOTE_RE.search(new_msg)
    if m is None:
        return ('missing' if new_msg == base_msg else 'malformed'), None, None
    head = new_msg[:m.start()]
    if not head.startswith(base_msg):
        return 'original-message-lost', m.group(1), m.group(2)
    sep = head[len(base_msg):]
    if not SEP_RE.match(sep):
        return 'misplaced', m.group(1), m.group(2)
    if base_msg == '' and sep != '':
        return 'misplaced', m.group(1), m.group(2)
    if 'Maximum credit for attempt' in base_msg + sep:
        return 'duplicated', m.group(1), m.group(2)
    return None, m.group(1), m.group(2)


def percent_problem(ptxt, s):
    """p must be 100*s printed with at most one decimal (no '.0'), rounding direction left open."""
    if not PCT_RE.match(ptxt) or ptxt.endswith('.0'):
        return 'percent-format'
    # 0.05 for the one printed decimal, 0.005 for the four-decimal rounding of the credit
    if abs(float(ptxt) - 100.0 * s) > 0.055 + 1e-9:
        return 'wrong-percent'
    return None
