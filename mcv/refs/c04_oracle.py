"""
Independent oracle helpers for C04 (no numpy, no library code): values are Python numbers
(int/float/complex, possibly +-inf) or nested lists of them.

    agree(expected, student, tol)   one sample: does the student's value agree with the author's?
    verdict(failures, n, k)         the counting rule of the statement
"""
import math
from ..core import HarnessError

INF = float('inf')
GUARD = 0.04


def tol_value(tol):
    """('abs', t) or ('pct', p); the JSON-able spelling 'inf' stands for an infinite absolute tolerance"""
    if tol == 'inf':
        return ('abs', INF)
    if isinstance(tol, str):
        return ('pct', float(tol.strip()[:-1]) / 100.0)
    return ('abs', float(tol))


def tol_config(tol):
    """the value handed to the grader"""
    return INF if tol == 'inf' else tol


def flat(v):
    if isinstance(v, (list, tuple)):
        out = []
        for e in v:
            out.extend(flat(e))
        return out
    return [v]


def frob(v):
    """Frobenius norm: square root of the sum of the squared moduli of all entries"""
    return math.sqrt(sum(abs(z) ** 2 for z in flat(v)))


def shape(v):
    if isinstance(v, (list, tuple)):
        return (len(v),) + shape(v[0])
    return ()


def is_inf(v):
    return not isinstance(v, (list, tuple, complex)) and v in (INF, -INF)


def agree(expected, student, tol, guard=True):
    """
    Returns (agrees, miss, tolerance_here).  An infinite scalar on either side agrees only with the
    same infinity; otherwise |expected - student| (Frobenius) <= t  or  <= p * |expected|.
    """
    mode, t = tol_value(tol)
    if is_inf(expected) or is_inf(student):
        same = is_inf(expected) and is_inf(student) and expected == student
        return same, None, None
    if shape(expected) != shape(student):
        raise HarnessError('oracle: shapes differ %r / %r' % (shape(expected), shape(student)))
    fe, fs = flat(expected), flat(student)
    miss = math.sqrt(sum(abs(a - b) ** 2 for a, b in zip(fe, fs)))
    tl = t if mode == 'abs' else t * frob(expected)
    if guard and miss != 0 and tl != 0 and tl != INF and abs(miss - tl) <= GUARD * tl:
        raise HarnessError('guard band violated: miss %r tolerance %r' % (miss, tl))
    return (not (miss > tl)), miss, tl


def verdict(failures, n, k):
    """enough samples agree: failures <= failable_evals; a single-sample grader tolerates no failure"""
    return failures <= k and not (n == 1 and failures >= 1)


def ok_of(grade):
    return {1: True, 0: False}.get(grade, 'partial')
