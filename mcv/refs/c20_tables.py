"""
Hand-transcribed option tables for C20: for every public class the documented options with
(documented default, pool of in-domain values, pool of out-of-domain values).

Sources: the class docstrings in /repo/mitxgraders and the "Option Listing" sections / prose of
/repo/docs.  Where two documents disagree (SumGrader.samples, GeometricCredit.factor, LinearComparer
*_msg defaults) the default is not asserted (NODEF).  Booleans are never offered where a number is
documented (Python makes them integers); integers ARE offered where a bool is documented.

Values are stored raw (deep-copied for every use) or as Lazy factories (library objects).
"""
import copy
import numpy as np
import mitxgraders as m
from mitxgraders.comparers import LinearComparer, MatrixEntryComparer, EqualityComparer, equality_comparer
from mitxgraders.helpers.calc import specify_domain
from . import c20_model as M

SAME = 'SAME'        # the stored value equals the supplied value
FREE = 'FREE'        # the stored value is not compared
ANSWERS = 'ANSWERS'  # the stored value must match the canonical form computed by the answers model
NODEF = 'NODEF'      # no (unambiguous) documented default
REQUIRED = 'REQUIRED'
OMIT = '<omitted>'   # pseudo value: leave a required option out


class ComponentFailure(Exception):
    """a documented-valid component (subgrader, sampling set, ...) of a configuration could not be constructed"""
    def __init__(self, label, exc):
        Exception.__init__(self, label, exc)
        self.label = label
        self.exc = exc


class Lazy(object):
    def __init__(self, fn, label):
        self.fn = fn
        self.label = label

    def __call__(self):
        try:
            return self.fn()
        except Exception as e:      # noqa
            raise ComponentFailure(self.label, e)


class Check(object):
    """predicate on the stored value: fn(stored, cfg) -> bool"""
    def __init__(self, fn, text):
        self.fn = fn
        self.text = text


def label_of(v):
    return v.label if isinstance(v, Lazy) else M.short(v, 80)


def fresh(v):
    return v() if isinstance(v, Lazy) else copy.deepcopy(v)


class V(object):
    def __init__(self, value, dom, expect=SAME, vclass=None, label=None):
        self.value = value
        self.dom = dom
        self.expect = expect
        self.vclass = vclass or ('in' if dom else 'wrong-type')
        self.label = label or (value.label if isinstance(value, Lazy) else M.short(value, 48))

    def make(self):
        return fresh(self.value)


def I(value, expect=SAME, label=None):
    return V(value, True, expect, None, label)


def O(value, vclass='wrong-type', label=None):
    return V(value, False, None, vclass, label)


class Opt(object):
    def __init__(self, name, default, ins, outs, default_cfg=SAME, kind='plain', present=True):
        self.name = name
        self.default = default          # documented author-level default (or NODEF / REQUIRED)
        self.default_cfg = default_cfg  # what the configuration must hold when omitted (SAME = the default itself)
        self.ins = list(ins)
        self.outs = list(outs)
        self.kind = kind                # root-cause group used in signatures of wrong-exception findings
        self.present = present          # must the key be present in obj.config when omitted?
        if default is REQUIRED:
            self.outs.append(V(OMIT, False, None, 'required-missing', OMIT))
        self.by_label = {}
        for v in self.ins + self.outs:
            if v.label in self.by_label:
                raise ValueError('duplicate label %r in option %s' % (v.label, name))
            self.by_label[v.label] = v

    def values(self):
        return self.ins + self.outs


class Spec(object):
    def __init__(self, name, cls, base, opts, kind, rules=None, answers_model=None, reconstruct=None,
                 adjust=None, cause=None):
        self.name = name
        self.cls = cls
        self.base = base
        self.opts = opts
        self.kind = kind
        self.rules = rules or (lambda cfg: None)
        self.answers_model = answers_model
        self.reconstruct = (kind == 'grader') if reconstruct is None else reconstruct
        self.adjust = adjust            # adjust(cfg, optname, expected) -> expected (documented rewrites)
        self.cause = cause              # cause(cfg) -> short tag naming the input class of a re-construction failure
        self.by_name = {}
        for o in opts:
            if o.name in self.by_name:
                raise ValueError('duplicate option %s in %s' % (o.name, name))
            self.by_name[o.name] = o

    def base_cfg(self):
        return {k: fresh(v) for k, v in self.base.items()}


# ----------------------------------------------------------------------------- values used in pools

def f1(x):
    return x * x


def f2(x):
    return x + 1


def cmp3(comparer_params_eval, student_eval, utils):
    return True


def credit_fn(attempt):
    return 1.0 / attempt


COMPLEX = 1 + 2j
NAN = float('nan')       # not a member of any interval: every range-checked option must refuse it
INF = float('inf')
ABOVE_ONE = 1.0000000000000002      # the float next to 1
BELOW_ONE = 0.9999999999999999      # the float before 1
TINY = 5e-324                       # the smallest positive float


def L(fn, label):
    return Lazy(fn, label)


# plugins.md: "You can define custom grading classes in your plugin": an author's class built on a library class
# is accepted wherever the library class is
class AuthorStringGrader(m.StringGrader):
    pass


class AuthorFormulaGrader(m.FormulaGrader):
    pass


class AuthorSingleListGrader(m.SingleListGrader):
    pass


class AuthorListGrader(m.ListGrader):
    pass


SG = L(lambda: m.StringGrader(), 'StringGrader()')
ASG = L(lambda: AuthorStringGrader(), 'AuthorStringGrader()')
ASLG_semi = L(lambda: AuthorSingleListGrader(subgrader=m.StringGrader(), delimiter=';'),
              "AuthorSingleListGrader(subgrader=StringGrader(), delimiter=';')")
AFGab = L(lambda: AuthorFormulaGrader(variables=['a', 'b']), "AuthorFormulaGrader(variables=['a','b'])")
FG = L(lambda: m.FormulaGrader(), 'FormulaGrader()')
FGab = L(lambda: m.FormulaGrader(variables=['a', 'b']), "FormulaGrader(variables=['a','b'])")
NG = L(lambda: m.NumericalGrader(), 'NumericalGrader()')
SLG_semi = L(lambda: m.SingleListGrader(subgrader=m.StringGrader(), delimiter=';'),
             "SingleListGrader(subgrader=StringGrader(), delimiter=';')")
SLG_comma = L(lambda: m.SingleListGrader(subgrader=m.StringGrader()), 'SingleListGrader(subgrader=StringGrader())')
LG_str = L(lambda: m.ListGrader(subgraders=m.StringGrader()), 'ListGrader(subgraders=StringGrader())')
IG_dflt_sub = L(lambda: m.NumericalGrader(tolerance=1e-13, allow_inf=True),
                'NumericalGrader(tolerance=1e-13, allow_inf=True)')


# ----------------------------------------------------------------------------- generic pools

def BOOL(name, default, **kw):
    return Opt(name, default, [I(True), I(False)],
               [O(1, 'int-for-bool'), O('yes', 'str-for-bool'), O(None, 'none')], **kw)


def ONLY(name, default, value, others, **kw):
    """option documented as fixed to one value"""
    return Opt(name, default, [I(value)], [O(x, 'fixed-option-changed') for x in others], **kw)


def STR(name, default, **kw):
    return Opt(name, default, [I(''), I('hello'), I(u'caf\xe9 ✓')],
               [O(5), O(None, 'none'), O(['a'], 'wrong-container')], **kw)


def POSINT(name, default, **kw):
    return Opt(name, default, [I(1), I(2), I(7)],
               [O(0, 'out-of-range'), O(-1, 'out-of-range'), O(2.0, 'float-for-int'), O(1.5, 'float-for-int'),
                O('a'), O(None, 'none'), O([1], 'wrong-container')], **kw)


def NONNEGINT(name, default, **kw):
    return Opt(name, default, [I(0), I(1), I(5)],
               [O(-1, 'out-of-range'), O(1.5, 'float-for-int'), O('a'), O(None, 'none')], **kw)


def LIST_STR(name, default, ins=None, **kw):
    return Opt(name, default, ins if ins is not None else [I([]), I(['a']), I(['a', 'b'])],
               [O('a', 'wrong-container'), O([1], 'wrong-element-type'), O(('a',), 'wrong-container'),
                O(None, 'none'), O({'a': 1}, 'wrong-container')], **kw)


def ENUM(name, default, allowed, bad, **kw):
    return Opt(name, default, [I(a) for a in allowed], [O(b, 'bad-literal') for b in bad], **kw)


def interval_check(a, b):
    return Check(lambda stored, cfg: M.interval_of(stored) == (a, b), 'interval (%r, %r)' % (a, b))


def INTERVAL(name, default_pair, **kw):
    """NumberRange-style option: [start, stop] or {'start':, 'stop':}"""
    a, b = default_pair
    return Opt(name, [a, b],
               [I([0, 1], interval_check(0, 1)), I({'start': 0, 'stop': 1}, interval_check(0, 1)),
                I([-1.5, 2], interval_check(-1.5, 2)), I([2, 2], interval_check(2, 2))],
               [O([1], 'wrong-length'), O([1, 2, 3], 'wrong-length'), O('a'), O(5, 'wrong-container'),
                O([1, 'a'], 'wrong-element-type'), O(None, 'none'), O((1, 2), 'wrong-container'),
                O({'start': 1, 'end': 2}, 'unknown-key'), O([COMPLEX, 2], 'complex')],
               default_cfg=interval_check(a, b), kind='interval-endpoint', **kw)


# ----------------------------------------------------------------------------- graders

def common_opts():
    return [
        BOOL('debug', False),
        BOOL('suppress_warnings', False),
        Opt('attempt_based_credit', None,
            [I(None), I(L(lambda: m.ReciprocalCredit(), 'ReciprocalCredit()')),
             I(L(lambda: m.LinearCredit(), 'LinearCredit()')), I(credit_fn, label='credit_fn'),
             I(L(lambda: m.GeometricCredit(factor=0.5), 'GeometricCredit(factor=0.5)'))],
            [O(5), O('abc'), O([1], 'wrong-container')]),
        BOOL('attempt_based_credit_msg', True),
    ]


def string_answers_opt():
    return Opt('answers', (), [
        I('cat', ANSWERS), I({'expect': 'cat'}, ANSWERS), I(('cat', 'dog'), ANSWERS),
        I({'expect': ('a', 'b'), 'grade_decimal': 0.5, 'msg': 'hi'}, ANSWERS), I((), ANSWERS),
        I({'expect': 'zebra', 'grade_decimal': 0, 'msg': 'no'}, ANSWERS),
        # within rounding distance of the ends of [0, 1]
        I({'expect': 'a', 'grade_decimal': TINY}, ANSWERS), I({'expect': 'a', 'grade_decimal': BELOW_ONE}, ANSWERS),
        I({'expect': 'a', 'grade_decimal': -0.0}, ANSWERS), I({'expect': 'a', 'grade_decimal': 1.0, 'ok': 'partial'}, ANSWERS),
    ], [
        O({'expect': 'a', 'grade_decimal': ABOVE_ONE}, 'out-of-range'),
        O({'expect': 'a', 'grade_decimal': -TINY}, 'out-of-range'),
        O({'expect': 'a', 'grade_decimal': INF}, 'out-of-range'),
        O({'expect': 'a', 'grade_decimal': -INF}, 'out-of-range'),
        O({'expect': 'a', 'grade_decimal': 2}, 'out-of-range', label="{'expect': 'a', 'grade_decimal': 2 (int)}"),
        O({'expect': 'a', 'grade_decimal': -1}, 'out-of-range'),
        O({'expect': ('a', 5)}, 'wrong-element-type'),
        O(5), O(['cat'], 'wrong-container'), O({'grade_decimal': 1}, 'required-missing'),
        O({'expect': 'a', 'grade_decimal': 1.5}, 'out-of-range'),
        O({'expect': 'a', 'grade_decimal': -0.5}, 'out-of-range'),
        O({'expect': 'a', 'grade_decimal': 'x'}, 'wrong-type'),
        O({'expect': 'a', 'grade_decimal': COMPLEX}, 'complex'),
        O({'expect': 'a', 'grade_decimal': NAN}, 'out-of-range', label="{'expect': 'a', 'grade_decimal': nan}"),
        O({'expect': 'a', 'msg': 5}, 'wrong-type'), O({'expect': 'a', 'ok': 'maybe'}, 'bad-literal'),
        O({'expect': 'a', 'foo': 1}, 'unknown-key'), O({'expect': 5}, 'wrong-type'), O(None, 'none'),
        O(('cat', 5), 'wrong-element-type'),
    ], kind='bounded-number')


def string_spec():
    opts = common_opts() + [
        string_answers_opt(),
        STR('wrong_msg', ''),
        BOOL('case_sensitive', True), BOOL('strip', True), BOOL('strip_all', False), BOOL('clean_spaces', True),
        BOOL('accept_any', False), BOOL('accept_nonempty', False),
        NONNEGINT('min_length', 0), NONNEGINT('min_words', 0),
        ENUM('explain_minimums', 'err', ['err', 'msg', None], ['error', 0, 'ERR', ['err']]),
        Opt('validation_pattern', None, [I(None), I(r'\d+'), I('')], [O(5), O(['a'], 'wrong-container')]),
        ENUM('explain_validation', 'err', ['err', 'msg', None], ['error', 0, 'MSG', ['msg']]),
        STR('invalid_msg', 'Your input is not in the expected format'),
    ]
    return Spec('StringGrader', m.StringGrader, {}, opts, 'grader', answers_model=lambda cfg: M.StringModel())


def percent_check(x):
    def fn(stored, cfg):
        return isinstance(stored, str) and stored.endswith('%') and float(stored[:-1]) == x
    return Check(fn, 'a percentage string worth %r%%' % x)


def tolerance_opt(default):
    dflt = percent_check(float(default[:-1])) if isinstance(default, str) else SAME
    return Opt('tolerance', default,
               [I(0), I(0.1), I(5), I('0%', percent_check(0.0)), I('1%', percent_check(1.0)), I('0.01%', percent_check(0.01)),
                I('2.5%', percent_check(2.5)), I(1e-300), I(0.0), I('100%', percent_check(100.0)), I('250%', percent_check(250.0))],
               [O(-1, 'out-of-range'), O(-0.5, 'out-of-range'), O('-1%', 'out-of-range'), O('abc', 'malformed'),
                O('5', 'malformed'), O(None, 'none'), O([0.1], 'wrong-container'), O(COMPLEX, 'complex'), O(NAN, 'out-of-range', label='nan'),
                O(-1e-300, 'out-of-range'), O(-INF, 'out-of-range'), O('-0.01%', 'out-of-range'), O('%', 'malformed'),
                O('5%%', 'malformed'), O('', 'malformed'), O('five%', 'malformed'), O('%5', 'malformed')],
               default_cfg=dflt, kind='bounded-number')


def sample_from_check(make_expected):
    def fn(stored, cfg):
        names = list(cfg.get('variables', [])) + list(cfg.get('numbered_vars', []))
        if not isinstance(stored, dict) or set(stored) != set(names):
            return False
        exp = make_expected()
        for n in names:
            want = exp.get(n, None)
            if want is None:
                want = m.RealInterval([1, 5])        # "By default, each variable samples from RealInterval([1, 5])"
            if not M.deep_eq(stored[n], want):
                return False
        return True
    return Check(fn, 'every declared variable has its sampling set (default RealInterval([1, 5]))')


def formula_answers_opt():
    return Opt('answers', (), [
        I('x+1', ANSWERS), I({'expect': 'x+1', 'grade_decimal': 0.5}, ANSWERS), I(('x+1', '2*x'), ANSWERS),
        I({'comparer': cmp3, 'comparer_params': ['x', '2']}, ANSWERS, label='comparer-dict'),
        I({'expect': {'comparer': cmp3, 'comparer_params': ['x']}, 'msg': 'm'}, ANSWERS, label='expect=comparer-dict'),
        I({'expect': ('x', 'x+0')}, ANSWERS), I((), ANSWERS),
        # comparer_functions.md: a comparer may be a callable object such as LinearComparer()
        I(L(lambda: {'comparer': LinearComparer(), 'comparer_params': ['x']}, 'LinearComparer-dict'), ANSWERS),
        I({'expect': 'x', 'grade_decimal': BELOW_ONE}, ANSWERS), I({'expect': 'x', 'grade_decimal': TINY}, ANSWERS),
    ], [
        O({'comparer': cmp3, 'comparer_params': ['x'], 'foo': 1}, 'unknown-key', label='comparer-dict-extra-key'),
        O({'comparer_params': ['x']}, 'required-missing', label='params-without-comparer'),
        O({'comparer': cmp3, 'comparer_params': ('x',)}, 'wrong-container', label='params-a-tuple'),
        O({'expect': 'x', 'grade_decimal': ABOVE_ONE}, 'out-of-range'), O({'expect': 'x', 'grade_decimal': -TINY}, 'out-of-range'),
        O(5), O(['x'], 'wrong-container'), O({'comparer': cmp3}, 'required-missing', label='comparer-without-params'),
        O({'comparer': f1, 'comparer_params': ['x']}, 'wrong-arity', label='comparer-with-1-arg'),
        O({'comparer': 5, 'comparer_params': ['x']}, 'wrong-type'),
        O({'comparer': cmp3, 'comparer_params': 'x'}, 'wrong-container', label='params-not-a-list'),
        O({'comparer': cmp3, 'comparer_params': [1]}, 'wrong-element-type', label='params-not-strings'),
        O({'expect': 'x', 'grade_decimal': 1.5}, 'out-of-range'), O({'expect': 'x', 'msg': None}, 'none'),
        O(None, 'none'),
    ])


def math_opts(tolerance, samples, numerical=False):
    rf = L(lambda: m.RandomFunction(), 'RandomFunction()')
    opts = [
        Opt('user_functions', {},
            [I({}), I({'f': f1}, label="{'f': f1}"), I({'f': f1, 'g': np.tan}, label="{'f': f1, 'g': np.tan}")] +
            ([] if numerical else [
                I({'f': [f1, f2]}, Check(lambda s, c: M.deep_eq(s, {'f': m.SpecificFunctions([f1, f2])}),
                                         "{'f': SpecificFunctions([f1, f2])}"), label="{'f': [f1, f2]}"),
                I(L(lambda: {'f': m.RandomFunction()}, "{'f': RandomFunction()}")),
                I(L(lambda: {'f': m.SpecificFunctions([f1, f2])}, "{'f': SpecificFunctions([f1, f2])}")),
                I(L(lambda: {'f': m.SpecificFunctions(f1), 'g': f2}, "{'f': SpecificFunctions(f1), 'g': f2}"))]),
            [O({'f': 5}, 'wrong-element-type'), O({'f': 'sin'}, 'wrong-element-type'),
             O({1: f1}, 'wrong-key-type', label='{1: f1}'), O({'f': []}, 'wrong-length'),
             O([f1], 'wrong-container', label='[f1]'), O('f'), O(None, 'none')] +
            ([O(L(lambda: {'f': m.RandomFunction()}, "{'f': RandomFunction()}"), 'random-function-in-numerical'),
              O({'f': [f1, f2]}, 'random-function-in-numerical', label="{'f': [f1, f2]}"),
              O(L(lambda: {'f': m.SpecificFunctions([f1, f2])}, "{'f': SpecificFunctions([f1, f2])}"),
                'random-function-in-numerical')] if numerical else [])),
        Opt('user_constants', {},
            [I({}), I({'c': 3e10}), I({'c': 2 + 1j, 'd': -1}), I({'pi': None}, Check(lambda s, c: s in ({}, {'pi': None}), "{} or {'pi': None}")),
             # matrix_grader.md: constants may be arrays; falsy numbers are numbers
             I(L(lambda: {'A': m.MathArray([[1, 2, 3], [4, 5, 6]])}, "{'A': MathArray(2x3)}")), I({'z': 0, 'w': 0.0})],
            [O({'c': 'a'}, 'wrong-element-type'), O({1: 2}, 'wrong-key-type'), O([1], 'wrong-container'), O('c'),
             O({'c': [1, 2]}, 'wrong-element-type'), O(None, 'none'), O({'c': (1, 2)}, 'wrong-element-type'),
             O({'': 'a'}, 'wrong-element-type')]),
        LIST_STR('blacklist', [], ins=[I([]), I(['sin']), I(['sin', 'cos'])]),
        Opt('whitelist', [], [I([]), I(['sin']), I(['sin', 'cos']), I([None])],
            [O('sin', 'wrong-container'), O([1], 'wrong-element-type'), O([None, 'sin'], 'wrong-length'),
             O([None, None], 'wrong-length'), O(('sin',), 'wrong-container'), O(None, 'none')]),
        LIST_STR('forbidden_strings', []),
        STR('forbidden_message', 'Invalid Input: This particular answer is forbidden'),
        LIST_STR('required_functions', []),
        tolerance_opt(tolerance),
        BOOL('metric_suffixes', False),
        LIST_STR('instructor_vars', []),
    ]
    if numerical:
        opts += [
            ONLY('samples', 1, 1, [2, 5, 0, 'a']),
            ONLY('variables', [], [], [['x'], 'x']),
            ONLY('numbered_vars', [], [], [['a'], 'a']),
            ONLY('sample_from', {}, {}, [{'x': [1, 2]}, [1]]),
            ONLY('failable_evals', 0, 0, [1, -1, 'a']),
        ]
    else:
        opts += [
            POSINT('samples', samples),
            LIST_STR('variables', [], ins=[I([]), I(['x']), I(['a', 'b']), I(['x', 'y', 'z'])]),
            LIST_STR('numbered_vars', [], ins=[I([]), I(['a']), I(['a', 'b'])]),
            Opt('sample_from', {},
                [I({}, sample_from_check(lambda: {})),
                 I({'x': [1, 3]}, sample_from_check(lambda: {'x': m.RealInterval([1, 3])})),
                 I({'x': (1, 2, 3)}, sample_from_check(lambda: {'x': m.DiscreteSet((1, 2, 3))})),
                 I({'x': 3.5}, sample_from_check(lambda: {'x': m.DiscreteSet(3.5)})),
                 I(L(lambda: {'x': m.IntegerRange([1, 3])}, "{'x': IntegerRange([1, 3])}"),
                   sample_from_check(lambda: {'x': m.IntegerRange([1, 3])})),
                 I(L(lambda: {'x': m.RealMatrices()}, "{'x': RealMatrices()}"),
                   sample_from_check(lambda: {'x': m.RealMatrices()})),
                 I(L(lambda: {'x': m.DependentSampler(formula='2')}, "{'x': DependentSampler('2')}"),
                   sample_from_check(lambda: {'x': m.DependentSampler(formula='2')}))],
                [O({'x': 'abc'}, 'wrong-element-type'), O({'x': [1, 2, 3]}, 'wrong-length'), O({'x': [1]}, 'wrong-length'),
                 O({'x': None}, 'none'), O('x'), O([('x', [1, 2])], 'wrong-container'), O(None, 'none'),
                 O(L(lambda: {'x': m.RandomFunction()}, "{'x': RandomFunction()}"), 'wrong-element-type')],
                default_cfg=sample_from_check(lambda: {})),
            NONNEGINT('failable_evals', 0),
        ]
    return opts


def math_cause(cfg):
    if any(v is None for v in cfg.get('user_constants', {}).values()):
        return 'removed-default-constant'
    return None


def list_cause(cfg):
    if isinstance(cfg.get('subgraders'), list) and not cfg.get('answers'):
        return 'subgrader-list-without-answers'
    return None


def formula_spec(name, cls, tolerance, numerical=False):
    opts = common_opts() + [formula_answers_opt(), STR('wrong_msg', '')] + math_opts(tolerance, 5, numerical)
    opts.append(BOOL('allow_inf', False))
    base = {} if numerical else {'variables': ['x']}
    return Spec(name, cls, base, opts, 'grader',
                rules=lambda cfg: M.math_rules(cfg), cause=math_cause,
                answers_model=lambda cfg: M.FormulaModel(equality_comparer))


def matrix_spec():
    opts = common_opts() + [formula_answers_opt(), STR('wrong_msg', '')] + math_opts('0.01%', 5)
    opts += [
        Opt('identity_dim', None, [I(None), I(2), I(3)], [O(-1, 'out-of-range'), O(1.5, 'float-for-int'), O('a')]),
        Opt('max_array_dim', 1, [I(0), I(1), I(2)], [O(-1, 'out-of-range'), O(1.5, 'float-for-int'), O('a')]),
        BOOL('negative_powers', True), BOOL('shape_errors', True), BOOL('suppress_matrix_messages', False),
        Opt('answer_shape_mismatch', {'is_raised': True, 'msg_detail': 'type'},
            [I({'is_raised': False}, {'is_raised': False, 'msg_detail': 'type'}),
             I({'msg_detail': 'shape'}, {'is_raised': True, 'msg_detail': 'shape'}),
             I({'is_raised': False, 'msg_detail': None}), I({}, {'is_raised': True, 'msg_detail': 'type'})],
            [O({'is_raised': 1}, 'int-for-bool'), O({'msg_detail': 'foo'}, 'bad-literal'), O({'foo': 1}, 'unknown-key'),
             O('type', 'wrong-container'), O(None, 'none')]),
        Opt('entry_partial_credit', NODEF, [I('proportional'), I(0.5), I(0), I(1), I(BELOW_ONE), I(TINY), I(1.0), I(0.0)],
            [O('partial', 'bad-literal'), O(1.5, 'out-of-range'), O(-0.1, 'out-of-range'), O([0.5], 'wrong-container'),
             O(None, 'none'), O(2, 'out-of-range'), O(-1, 'out-of-range'), O(ABOVE_ONE, 'out-of-range'),
             O(-TINY, 'out-of-range'), O(NAN, 'out-of-range', label='nan'), O('Proportional', 'bad-literal')],
            present=False, kind='bounded-number'),
        Opt('entry_partial_msg', NODEF, [I('some entries are wrong'), I('')], [O(5), O(None, 'none')], present=False),
        # docs: "The FormulaGrader configuration keys that MatrixGrader does not have are: allow_inf"
        Opt('allow_inf', NODEF, [], [O(True, 'option-not-available')], present=False),
    ]

    def amodel(cfg):
        keys = {k: cfg[k] for k in ('entry_partial_credit', 'entry_partial_msg') if k in cfg}
        return M.FormulaModel(Lazy(lambda: MatrixEntryComparer(keys), 'MatrixEntryComparer(%s)' % M.short(keys))()
                              if keys else equality_comparer)
    return Spec('MatrixGrader', m.MatrixGrader, {'variables': ['x']}, opts, 'grader',
                rules=lambda cfg: M.math_rules(cfg, matrix=True), answers_model=amodel, cause=math_cause)


def singlelist_answers_opt():
    return Opt('answers', (), [
        I(['cat', 'dog'], ANSWERS), I('cat,dog', ANSWERS), I((['cat', 'dog'], ['goat', 'vole']), ANSWERS),
        I([('cat', 'feline'), 'dog'], ANSWERS),
        I({'expect': ['unicorn', 'lumberjack'], 'msg': 'strange', 'grade_decimal': 0.5}, ANSWERS),
        I(([('cat', {'expect': 'feline', 'msg': 'Good enough!'}), 'dog'],
           {'expect': ['unicorn', 'lumberjack'], 'msg': 'm', 'grade_decimal': 0.5}), ANSWERS, label='all-styles'),
    ], [
        O(5), O({'expect': 5}, 'wrong-type'), O({'cat': 1}, 'wrong-container'), O(None, 'none'),
        O({'expect': ['a', 'b'], 'grade_decimal': 7}, 'out-of-range'),
    ])


def singlelist_spec():
    opts = common_opts() + [
        singlelist_answers_opt(), STR('wrong_msg', ''),
        BOOL('ordered', False), BOOL('length_error', False), BOOL('missing_error', True),
        Opt('delimiter', ',', [I(','), I(';'), I('|'), I(', ')], [O(5), O(None, 'none'), O([','], 'wrong-container')]),
        BOOL('partial_credit', True),
        Opt('subgrader', REQUIRED, [I(SG), I(FG), I(NG), I(SLG_semi), I(ASG), I(ASLG_semi)],
            [O(LG_str, 'not-an-ItemGrader'), O('StringGrader'), O(None, 'none'), O(5),
             O(L(lambda: m.StringGrader, 'the class StringGrader'), 'class-not-instance'),
             O(L(lambda: [m.StringGrader()], '[StringGrader()]'), 'wrong-container')]),
    ]
    return Spec('SingleListGrader', m.SingleListGrader, {'subgrader': SG}, opts, 'grader',
                rules=M.singlelist_rules,
                answers_model=lambda cfg: M.SingleListModel(M.model_of(cfg['subgrader']), cfg.get('delimiter', ','),
                                                            cfg.get('missing_error', True),
                                                            cfg.get('length_error', False)))


def list_spec():
    opts = common_opts() + [
        Opt('answers', [], [
            I(['cat', 'dog'], ANSWERS), I((['cat', 'dog'], ['a', 'b']), ANSWERS),
            I([('cat', 'feline'), {'expect': 'dog', 'msg': 'm'}], ANSWERS), I([], ANSWERS),
            I(['a', 'b', 'c'], ANSWERS),
        ], [
            O('cat', 'wrong-container'), O(5), O({'expect': 'cat'}, 'wrong-container'),
            O(('cat', 'dog'), 'wrong-element-type'), O(None, 'none'), O((['a', 'b'], 'c'), 'wrong-element-type'),
            O(['cat', 5], 'wrong-element-type'),
        ], default_cfg=()),
        BOOL('ordered', False), BOOL('partial_credit', True),
        Opt('subgraders', REQUIRED,
            [I(SG), I(FG), I(SLG_comma), I(ASG), I(L(lambda: AuthorListGrader(subgraders=m.StringGrader()), 'AuthorListGrader(SG)')),
             I(L(lambda: [m.StringGrader(), m.StringGrader()], '[SG, SG]')),
             I(L(lambda: [m.StringGrader(), m.FormulaGrader()], '[SG, FG]')),
             I(L(lambda: [m.StringGrader(), m.StringGrader(), m.StringGrader()], '[SG, SG, SG]'))],
            [O('StringGrader'), O(None, 'none'), O(5), O(L(lambda: (m.StringGrader(),), '(SG,)'), 'wrong-container'),
             O(L(lambda: [m.StringGrader(), 5], '[SG, 5]'), 'wrong-element-type'),
             O(L(lambda: m.RealInterval(), 'RealInterval()'), 'not-a-grader')]),
        Opt('grouping', [], [I([])],
            [O([0, 1], 'out-of-range'), O(['a'], 'wrong-element-type'), O([1.5], 'float-for-int'), O('a'),
             O((1, 1), 'wrong-container'), O(None, 'none'), O([-1], 'out-of-range')]),
    ]
    return Spec('ListGrader', m.ListGrader, {'subgraders': SG}, opts, 'grader',
                rules=M.listgrader_rules, cause=list_cause,
                answers_model=lambda cfg: M.model_of_listcfg(cfg))


def interval_spec():
    opts = common_opts() + [
        Opt('answers', (), [
            I('[1,2]', ANSWERS), I('(0, 1]', ANSWERS), I(['[', '0', '1', ']'], ANSWERS),
            I([('[', {'expect': '(', 'msg': 'open', 'grade_decimal': 0.5}), '0', '1',
               (']', {'expect': ')', 'msg': 'close', 'grade_decimal': 0.5})], ANSWERS, label='docs-partial-credit'),
            I(('[1,2]', '(1,2)'), ANSWERS), I({'expect': '[1,2)', 'msg': 'm', 'grade_decimal': 0.5}, ANSWERS),
        ], [
            O(5), O(None, 'none'), O({'cat': 1}, 'wrong-container'),
        ]),
        STR('wrong_msg', ''),
        Opt('opening_brackets', '[(', [I('[('), I('[({'), I('[')], [O('', 'wrong-length'), O(5), O(['['], 'wrong-container'),
                                                                  O(None, 'none')]),
        Opt('closing_brackets', '])', [I('])'), I('])}'), I(']')], [O('', 'wrong-length'), O(5), O([']'], 'wrong-container'),
                                                                  O(None, 'none')]),
        Opt('delimiter', ',', [I(','), I(':'), I(';')], [O(5), O([','], 'wrong-container')]),
        BOOL('partial_credit', True),
        Opt('subgrader', IG_dflt_sub, [I(FGab), I(NG), I(L(lambda: m.MatrixGrader(), 'MatrixGrader()')), I(AFGab)],
            [O(SG, 'not-a-FormulaGrader'), O('x'), O(5), O(SLG_comma, 'not-a-FormulaGrader')]),
    ]
    return Spec('IntervalGrader', m.IntervalGrader, {}, opts, 'grader',
                rules=lambda cfg: M.interval_rules(cfg, IG_dflt_sub()),
                answers_model=lambda cfg: M.IntervalModel(M.model_of(cfg.get('subgrader') or IG_dflt_sub()),
                                                          cfg.get('opening_brackets', '[('),
                                                          cfg.get('closing_brackets', '])'), cfg.get('delimiter', ',')))


def summation_spec(name, cls, body, var, samples_default, tol_default, extra):
    ans = {'lower': 'a', 'upper': 'b', body: 'x*t^2', var: 't'}
    full = {'lower': 1, 'upper': 2, body: 3, var: 4}

    def pos(d):
        out = {'lower': None, 'upper': None, body: None, var: None}
        out.update(d)
        return out
    opts = common_opts() + [
        Opt('answers', REQUIRED, [I(ans), I({'lower': '0', 'upper': 'infty', body: 'e^(-x)', var: 'x'})],
            [O({k: v for k, v in ans.items() if k != 'lower'}, 'required-missing', label='lower-missing'),
             O(dict(ans, foo='1'), 'unknown-key', label='extra-key'),
             O(dict(ans, lower=0), 'wrong-element-type', label='lower-not-a-string'),
             O('x^2', 'wrong-container'), O(None, 'none'), O((), 'wrong-container'), O(['a', 'b', 'x^2', 'x'], 'wrong-container')]),
        Opt('input_positions', full,
            [I({'lower': 1, 'upper': 2, body: 3}, pos({'lower': 1, 'upper': 2, body: 3})),
             I({body: 1}, pos({body: 1})), I(dict(full)),
             I({body: 1, var: 2, 'lower': None}, pos({body: 1, var: 2}))],
            [O({'lower': 0}, 'out-of-range'), O({'lower': 'a'}, 'wrong-element-type'), O({'foo': 1}, 'unknown-key'),
             O({'lower': 1.0}, 'float-for-int'), O('a', 'wrong-container'), O([1, 2, 3, 4], 'wrong-container'),
             O(None, 'none')]),
    ] + math_opts(tol_default, samples_default) + extra
    return Spec(name, cls, {'answers': ans, 'variables': ['x']}, opts, 'grader', rules=M.summation_rules, cause=math_cause)


def integral_spec():
    extra = [
        Opt('integrator_options', {'full_output': 1},
            [I({'epsabs': 1e-10}, {'full_output': 1, 'epsabs': 1e-10}), I({'full_output': 1}),
             I({'limit': 100, 'epsrel': 1e-8}, {'full_output': 1, 'limit': 100, 'epsrel': 1e-8})],
            [O('a', 'wrong-container'), O([1], 'wrong-container'), O(None, 'none')]),
        BOOL('complex_integrand', False),
    ]
    return summation_spec('IntegralGrader', m.IntegralGrader, 'integrand', 'integration_variable', 1, '0.01%', extra)


def sum_spec():
    extra = [
        Opt('infty_val', 1000, [I(1000), I(50), I(1)], [O(0, 'out-of-range'), O(-5, 'out-of-range'), O('a'), O(None, 'none'),
                                                        O(COMPLEX, 'complex'), O(NAN, 'out-of-range', label='nan'),
                                                        O(0.0, 'out-of-range'), O(-INF, 'out-of-range')], kind='bounded-number'),
        Opt('infty_val_fact', 80, [I(80), I(20)], [O(0, 'out-of-range'), O(-5, 'out-of-range'), O('a'), O(None, 'none')]),
        ENUM('even_odd', 0, [0, 1, 2], [3, -1, 'a', 1.5, None]),
    ]
    # samples: docstring says "default changed to 2", sum_grader.md Option Listing says 1 -> not asserted
    return summation_spec('SumGrader', m.SumGrader, 'summand', 'summation_variable', NODEF, 1e-12, extra)


# ----------------------------------------------------------------------------- sampling sets

def number_opt(name, default, ins, kind='interval-endpoint', integer=False):
    outs = [O('a'), O(None, 'none'), O([1], 'wrong-container'), O(COMPLEX, 'complex')]
    if integer:
        outs.append(O(1.5, 'float-for-int'))
    return Opt(name, default, [I(x) for x in ins], outs, kind=kind)


def real_interval_spec():
    return Spec('RealInterval', m.RealInterval, {}, [
        number_opt('start', 1, [0, -2.5, 1]), number_opt('stop', 5, [7, 5.5, 5])], 'sampler')


def integer_range_spec():
    return Spec('IntegerRange', m.IntegerRange, {}, [
        number_opt('start', 1, [0, -2, 1], integer=True), number_opt('stop', 5, [7, 5], integer=True)], 'sampler')


def complex_rectangle_spec():
    return Spec('ComplexRectangle', m.ComplexRectangle, {}, [INTERVAL('re', (1, 3)), INTERVAL('im', (1, 3))], 'sampler')


def complex_sector_spec():
    return Spec('ComplexSector', m.ComplexSector, {}, [INTERVAL('modulus', (1, 3)), INTERVAL('argument', (0, np.pi / 2))],
                'sampler')


def dependent_spec():
    return Spec('DependentSampler', m.DependentSampler, {'formula': 'x+1'}, [
        Opt('formula', REQUIRED, [I('x+1'), I('2'), I('sqrt(x^2+y^2)'), I('[[x,0],[0,-x^2]]')],
            [O(5), O(None, 'none'), O(['x'], 'wrong-container'), O('1+', 'malformed'), O('(x', 'malformed')]),
        # sampling.md: "Anything passed to the depends key is now ignored" -> value never compared
        Opt('depends', NODEF, [I(['x'], FREE), I(['zzz'], FREE), I(None, FREE)], [], present=False),
    ], 'sampler')


def random_function_spec():
    return Spec('RandomFunction', m.RandomFunction, {}, [
        POSINT('input_dim', 1), POSINT('output_dim', 1), POSINT('num_terms', 3),
        Opt('center', 0, [I(0), I(1), I(-2.5)], [O('a'), O(None, 'none'), O([1], 'wrong-container')]),
        Opt('amplitude', 10, [I(1), I(0.5), I(10), I(1e-300), I(TINY)],
            [O(0, 'out-of-range'), O(-1, 'out-of-range'), O('a'), O(None, 'none'),
             O(COMPLEX, 'complex'), O(NAN, 'out-of-range', label='nan'), O(0.0, 'out-of-range'), O(-0.0, 'out-of-range'),
             O(-1e-300, 'out-of-range'), O(-INF, 'out-of-range')], kind='bounded-number'),
        BOOL('complex', False),
    ], 'sampler')


def shape_opt(default, ins, outs, default_cfg=SAME):
    return Opt('shape', default, ins, outs + [O('a'), O(None, 'none'), O(1.5, 'float-for-int'), O([1.5], 'float-for-int')],
               default_cfg=default_cfg)


def vector_spec(name, cls, cplx):
    return Spec(name, cls, {}, [
        shape_opt((3,), [I(3, (3,)), I(4, (4,)), I([2], (2,)), I((5,))],
                  [O(0, 'out-of-range'), O(-1, 'out-of-range'), O([2, 2], 'wrong-length'), O((2, 3), 'wrong-length'),
                   O([], 'wrong-length'), O([0], 'out-of-range')]),
        INTERVAL('norm', (1, 5)),
        ONLY('complex', cplx, cplx, [not cplx, 'a']),
    ], 'sampler')


def matrices_spec(name, cls, cplx):
    return Spec(name, cls, {}, [
        shape_opt((2, 2), [I([3, 2], (3, 2)), I((2, 4)), I([2, 2], (2, 2))],
                  [O(3, 'wrong-length'), O([2], 'wrong-length'), O([2, 2, 2], 'wrong-length'), O([0, 2], 'out-of-range'),
                   O([2, -1], 'out-of-range')]),
        INTERVAL('norm', (1, 5)),
        ONLY('complex', cplx, cplx, [not cplx, 'a']),
        ENUM('triangular', None, [None, 'upper', 'lower'], ['diag', 'Upper', 0, True]),
    ], 'sampler')


def tensor_spec(name, cls, cplx):
    return Spec(name, cls, {'shape': [2, 2, 2]}, [
        shape_opt(REQUIRED, [I([4, 2, 5], (4, 2, 5)), I((2, 2, 2, 2)), I([2, 2, 2], (2, 2, 2))],
                  [O([2, 2], 'wrong-length'), O(3, 'wrong-length'), O([], 'wrong-length'), O([2, 0, 2], 'out-of-range')]),
        INTERVAL('norm', (1, 5)),
        ONLY('complex', cplx, cplx, [not cplx, 'a']),
    ], 'sampler')


def dimension_opt():
    return Opt('dimension', 2, [I(2), I(3), I(4), I(5)],
               [O(1, 'out-of-range'), O(0, 'out-of-range'), O(2.5, 'float-for-int'), O('a'), O(None, 'none'),
                O([2], 'wrong-container')])


def identity_multiples_spec():
    ri = L(lambda: m.RealInterval([1, 5]), 'RealInterval([1, 5])')
    return Spec('IdentityMatrixMultiples', m.IdentityMatrixMultiples, {}, [
        dimension_opt(),
        Opt('sampler', ri,
            [I([1, 3], Check(lambda s, c: M.deep_eq(s, m.RealInterval([1, 3])), 'RealInterval([1, 3])')),
             I(L(lambda: m.RealInterval([2, 4]), 'RealInterval([2, 4])')),
             I(L(lambda: m.IntegerRange([1, 3]), 'IntegerRange([1, 3])')),
             I(L(lambda: m.ComplexSector(), 'ComplexSector()')),
             I(L(lambda: m.ComplexRectangle(), 'ComplexRectangle()'))],
            [O(L(lambda: m.DiscreteSet((1, 2)), 'DiscreteSet((1, 2))'), 'not-a-scalar-sampler'), O(5), O('a'),
             O([1], 'wrong-length'), O(L(lambda: m.RealVectors(), 'RealVectors()'), 'not-a-scalar-sampler'),
             O(L(lambda: m.DependentSampler(formula='2'), "DependentSampler('2')"), 'not-a-scalar-sampler'),
             O(None, 'none')]),
    ], 'sampler')


SYMMETRIES = [None, 'diagonal', 'symmetric', 'antisymmetric', 'hermitian', 'antihermitian']


def square_spec():
    def adjust(cfg, name, expected):
        # "If 'hermitian' or 'antihermitian' are chosen, 'complex' is set to True"
        if name == 'complex' and cfg.get('symmetry') in ('hermitian', 'antihermitian'):
            return True
        return expected
    return Spec('SquareMatrices', m.SquareMatrices, {}, [
        dimension_opt(), INTERVAL('norm', (1, 5)), BOOL('complex', False), BOOL('traceless', False),
        ENUM('symmetry', None, SYMMETRIES, ['triangular', 'Diagonal', 5, True]),
        ENUM('determinant', None, [None, 0, 1], [2, -1, 'a', 0.5]),
    ], 'sampler', rules=M.square_rules, adjust=adjust)


def unitdet_spec(name, cls):
    return Spec(name, cls, {}, [dimension_opt(), BOOL('unitdet', False)], 'sampler')


# ----------------------------------------------------------------------------- comparers, credit, decorator

def transform_opt():
    # documented default None; the stored value is a function (None is "coerced to the identity") -> equivalence only
    return Opt('transform', None, [I(None, FREE), I(f1, label='f1'), I(np.cos, label='np.cos')],
               [O(5), O('cos'), O([f1], 'wrong-container', label='[f1]')], default_cfg=FREE)


def equality_comparer_spec():
    return Spec('EqualityComparer', EqualityComparer, {}, [transform_opt()], 'comparer')


def entry_comparer_spec():
    return Spec('MatrixEntryComparer', MatrixEntryComparer, {}, [
        transform_opt(),
        Opt('entry_partial_credit', 0, [I('proportional'), I(0.5), I(0), I(1), I(BELOW_ONE), I(TINY), I(1.0), I(0.0)],
            [O('partial', 'bad-literal'), O(1.5, 'out-of-range'), O(-0.5, 'out-of-range'), O([1], 'wrong-container'),
             O(None, 'none'), O(2, 'out-of-range'), O(-1, 'out-of-range'), O(ABOVE_ONE, 'out-of-range'),
             O(-TINY, 'out-of-range'), O(NAN, 'out-of-range', label='nan')], kind='bounded-number'),
        Opt('entry_partial_msg', 'Some array entries are incorrect, marked below:\n{error_locations}',
            [I(''), I('wrong: {error_locations}')], [O(5), O(None, 'none')]),
    ], 'comparer')


def linear_comparer_spec():
    def credit(name, default):
        return Opt(name, default, [I(None), I(0), I(0.5), I(1), I(BELOW_ONE), I(TINY), I(1.0), I(0.0)],
                   [O(1.5, 'out-of-range'), O(-0.1, 'out-of-range'), O('a', 'unordered'), O([1], 'unordered'), O(COMPLEX, 'unordered'), O(NAN, 'out-of-range', label='nan'),
                    O(2, 'out-of-range'), O(-1, 'out-of-range'), O(ABOVE_ONE, 'out-of-range'), O(-TINY, 'out-of-range'),
                    O(INF, 'out-of-range')],
                   kind='LinearComparer-credit-untyped')

    def msg(name, default):
        return Opt(name, default, [I(''), I('hello')], [O(5), O(['a'], 'wrong-container')])
    return Spec('LinearComparer', LinearComparer, {}, [
        credit('equals', 1.0), credit('proportional', 0.5), credit('offset', None), credit('linear', None),
        # docstring: default ''; comparer_functions.md: default None -> not asserted
        msg('equals_msg', NODEF),
        msg('proportional_msg', 'The submitted answer differs from an expected answer by a constant factor.'),
        msg('offset_msg', NODEF), msg('linear_msg', NODEF),
    ], 'comparer')


def unit_credit_opt(name, default):
    return Opt(name, default, [I(0), I(1), I(0.5), I(0.0), I(1.0), I(0.75), I(BELOW_ONE), I(TINY)],
               [O(1.5, 'out-of-range'), O(-0.1, 'out-of-range'), O('a'), O(None, 'none'), O([0.2], 'wrong-container'),
                O(NAN, 'out-of-range', label='nan'), O(2, 'out-of-range'), O(-1, 'out-of-range'),
                O(ABOVE_ONE, 'out-of-range'), O(-TINY, 'out-of-range'), O(INF, 'out-of-range'), O(COMPLEX, 'complex')],
               kind='bounded-number')


def linear_credit_spec():
    return Spec('LinearCredit', m.LinearCredit, {}, [
        POSINT('decrease_credit_after', 1), POSINT('decrease_credit_steps', 4), unit_credit_opt('minimum_credit', 0.2),
    ], 'credit')


def geometric_credit_spec():
    # attemptcredit docstring: default 0.75; graders.md: "defaults to 0.5" -> not asserted
    return Spec('GeometricCredit', m.GeometricCredit, {}, [unit_credit_opt('factor', NODEF)], 'credit')


def reciprocal_credit_spec():
    return Spec('ReciprocalCredit', m.ReciprocalCredit, {}, [], 'credit')


def specify_domain_spec():
    return Spec('specify_domain', specify_domain, {'input_shapes': [1]}, [
        Opt('input_shapes', REQUIRED,
            [I([1], FREE), I([3, 3], FREE), I([1, [3, 2], 2, 'square'], FREE), I([(2, 2)], FREE), I([[4]], FREE)],
            [O([0], 'out-of-range'), O(['a'], 'bad-literal'), O(3, 'wrong-container'), O('square', 'wrong-container'),
             O([[0, 2]], 'out-of-range'), O([1.5], 'float-for-int'), O(None, 'none'), O([[]], 'wrong-length')]),
        Opt('display_name', None, [I(None), I('myfunc')], [O(5), O(['a'], 'wrong-container')]),
        Opt('min_length', None, [I(None), I(1), I(2)], [O(0, 'out-of-range'), O(-1, 'out-of-range'),
                                                        O(1.5, 'float-for-int'), O('a')]),
    ], 'decorator', rules=M.specify_domain_rules)


def all_specs():
    specs = [
        string_spec(),
        formula_spec('FormulaGrader', m.FormulaGrader, '0.01%'),
        formula_spec('NumericalGrader', m.NumericalGrader, '5%', numerical=True),
        matrix_spec(), singlelist_spec(), list_spec(), interval_spec(), integral_spec(), sum_spec(),
        real_interval_spec(), integer_range_spec(), complex_rectangle_spec(), complex_sector_spec(),
        dependent_spec(), random_function_spec(),
        vector_spec('RealVectors', m.RealVectors, False), vector_spec('ComplexVectors', m.ComplexVectors, True),
        matrices_spec('RealMatrices', m.RealMatrices, False), matrices_spec('ComplexMatrices', m.ComplexMatrices, True),
        tensor_spec('RealTensors', m.RealTensors, False), tensor_spec('ComplexTensors', m.ComplexTensors, True),
        identity_multiples_spec(), square_spec(),
        unitdet_spec('OrthogonalMatrices', m.OrthogonalMatrices), unitdet_spec('UnitaryMatrices', m.UnitaryMatrices),
        equality_comparer_spec(), entry_comparer_spec(), linear_comparer_spec(),
        linear_credit_spec(), geometric_credit_spec(), reciprocal_credit_spec(),
        specify_domain_spec(),
    ]
    return specs


SPEC_NAMES = ['StringGrader', 'FormulaGrader', 'NumericalGrader', 'MatrixGrader', 'SingleListGrader', 'ListGrader',
              'IntervalGrader', 'IntegralGrader', 'SumGrader', 'RealInterval', 'IntegerRange', 'ComplexRectangle',
              'ComplexSector', 'DependentSampler', 'RandomFunction', 'RealVectors', 'ComplexVectors', 'RealMatrices',
              'ComplexMatrices', 'RealTensors', 'ComplexTensors', 'IdentityMatrixMultiples', 'SquareMatrices',
              'OrthogonalMatrices', 'UnitaryMatrices', 'EqualityComparer', 'MatrixEntryComparer', 'LinearComparer',
              'LinearCredit', 'GeometricCredit', 'ReciprocalCredit', 'specify_domain']

_CACHE = {}


def specs():
    if 'specs' not in _CACHE:
        lst = all_specs()
        assert [s.name for s in lst] == SPEC_NAMES, [s.name for s in lst]
        _CACHE['specs'] = {s.name: s for s in lst}
    return _CACHE['specs']
