"""
Reference model for C20 (configuration validation and defaults).

Everything here is transcribed from the class docstrings and /repo/docs, never by calling the
validation code under test:

  * deep_eq / match     structural comparison (lists and tuples are different, True is not 1)
  * answers normaliser  the documented canonical form of the `answers` option of every ItemGrader /
                        ListGrader ("tuple of dictionaries with tuple-valued expect")
  * cross-option rules  whitelist+blacklist, unknown function names, overriding defaults, collisions,
                        ListGrader subgraders/answers/grouping, nested delimiters, IntervalGrader brackets,
                        input_positions, SquareMatrices combinations, specify_domain min_length

The model inspects *library objects only as data* (isinstance on public classes, reading the validated
.config of an already constructed subgrader); it never calls schema/validation methods.
"""
import numpy as np

OPEN = 'OPEN'      # the documentation does not decide whether this combination is acceptable


class ModelReject(Exception):
    """The documented format does not admit this value (rule name in args[0])."""


class OneOf(object):
    """Model value: any of the listed alternatives is acceptable (documentation leaves it open)."""
    def __init__(self, *alts):
        self.alts = alts

    def __repr__(self):
        return 'OneOf%r' % (self.alts,)


# ----------------------------------------------------------------------------- comparison

def _is_ows(x):
    from mitxgraders.baseclasses import ObjectWithSchema
    return isinstance(x, ObjectWithSchema)


def deep_eq(a, b):
    """Strict structural equality; objects with a schema compare by class and configuration."""
    if a is b:
        return True
    if isinstance(b, OneOf):
        return any(deep_eq(a, alt) for alt in b.alts)
    if _is_ows(a) or _is_ows(b):
        return type(a) is type(b) and deep_eq(a.config, b.config)
    if isinstance(a, np.ndarray) or isinstance(b, np.ndarray):
        return (isinstance(a, np.ndarray) and isinstance(b, np.ndarray) and type(a) is type(b)
                and a.shape == b.shape and bool(np.all(np.asarray(a) == np.asarray(b))))
    if isinstance(a, dict) or isinstance(b, dict):
        return (isinstance(a, dict) and isinstance(b, dict) and set(a) == set(b)
                and all(deep_eq(a[k], b[k]) for k in a))
    if isinstance(a, (list, tuple)) or isinstance(b, (list, tuple)):
        return (type(a) is type(b) and len(a) == len(b)
                and all(deep_eq(x, y) for x, y in zip(a, b)))
    if isinstance(a, bool) or isinstance(b, bool):
        return isinstance(a, bool) and isinstance(b, bool) and a == b
    if isinstance(a, str) or isinstance(b, str):
        return isinstance(a, str) and isinstance(b, str) and a == b
    if a is None or b is None:
        return False
    try:
        return bool(a == b)
    except Exception:       # noqa
        return False


def first_diff(a, b, path='config'):
    """Human-readable location of the first difference (for violation messages)."""
    if deep_eq(a, b):
        return None
    if isinstance(b, OneOf):
        return '%s: %r not among %r' % (path, a, b.alts)
    if _is_ows(a) and _is_ows(b) and type(a) is type(b):
        return first_diff(a.config, b.config, path + '.config')
    if isinstance(a, dict) and isinstance(b, dict):
        for k in sorted(set(a) | set(b), key=repr):
            if k not in a:
                return '%s: key %r missing' % (path, k)
            if k not in b:
                return '%s: unexpected key %r' % (path, k)
            d = first_diff(a[k], b[k], '%s[%r]' % (path, k))
            if d:
                return d
    if isinstance(a, (list, tuple)) and type(a) is type(b):
        if len(a) != len(b):
            return '%s: length %d != %d' % (path, len(a), len(b))
        for i, (x, y) in enumerate(zip(a, b)):
            d = first_diff(x, y, '%s[%d]' % (path, i))
            if d:
                return d
    return '%s: %s != %s' % (path, short(a), short(b))


def stable(x, depth=0):
    """repr with sorted dictionary keys and without memory addresses (independent of PYTHONHASHSEED)"""
    if depth > 12:
        return '...'
    if isinstance(x, OneOf):
        return 'OneOf(%s)' % ', '.join(stable(a, depth + 1) for a in x.alts)
    if _is_ows(x):
        return '%s(%s)' % (type(x).__name__, stable(x.config, depth + 1))
    if isinstance(x, dict):
        items = sorted(((stable(k, depth + 1), stable(v, depth + 1)) for k, v in x.items()))
        return '{%s}' % ', '.join('%s: %s' % kv for kv in items)
    if isinstance(x, list):
        return '[%s]' % ', '.join(stable(v, depth + 1) for v in x)
    if isinstance(x, tuple):
        return '(%s%s)' % (', '.join(stable(v, depth + 1) for v in x), ',' if len(x) == 1 else '')
    if isinstance(x, (set, frozenset)):
        return '{%s}' % ', '.join(sorted(stable(v, depth + 1) for v in x))
    if isinstance(x, np.ndarray):
        return '%s(%s)' % (type(x).__name__, x.tolist())
    if isinstance(x, BaseException):
        return '%s(%s)' % (type(x).__name__, stable(str(x), depth + 1))
    if callable(x) and not isinstance(x, type):
        return '<function %s>' % getattr(x, '__name__', type(x).__name__)
    r = repr(x)
    return __import__('re').sub(r' at 0x[0-9a-f]+', '', r)


def short(x, n=120):
    r = stable(x)
    return r if len(r) <= n else r[:n - 3] + '...'


# ----------------------------------------------------------------------------- answers: canonical form

def grade_to_ok(g):
    return False if g == 0 else True if g == 1 else 'partial'


def ok_allowed(gd, ok):
    """
    ItemGrader docstring: ok may be True/False/'partial'/'computed' (default); it is ignored when
    grade_decimal is not 1; grade_decimal "if set, overrides 'ok'".  With grade_decimal == 1 and an
    explicit ok the two sentences pull in different directions, so both readings are allowed.
    """
    computed = grade_to_ok(gd)
    if ok == 'computed' or gd != 1:
        return OneOf(computed)
    if ok is True:
        return OneOf(True)
    return OneOf(ok, True)


ANSWER_KEYS = ('expect', 'grade_decimal', 'msg', 'ok')


class ItemModel(object):
    """Documented normal form of ItemGrader.answers: a tuple of dicts with tuple-valued 'expect'."""

    def norm_answers(self, answers):
        tup = answers if isinstance(answers, tuple) else (answers,)
        return tuple(self.norm_single(a) for a in tup)

    def norm_single(self, a):
        if isinstance(a, dict) and 'expect' in a:
            for k in a:
                if k not in ANSWER_KEYS:
                    raise ModelReject('answer-dict-unknown-key')
            d = dict(a)
            d.setdefault('ok', 'computed')
        else:
            d = {'expect': a, 'ok': True}        # "an answer string will be converted into a dictionary with 'ok'=True"
        gd = d.get('grade_decimal', 1)
        msg = d.get('msg', '')
        ok = d['ok']
        if isinstance(gd, bool) or not isinstance(gd, (int, float)) or not (0 <= gd <= 1):
            raise ModelReject('grade_decimal-domain')
        if not isinstance(msg, str):
            raise ModelReject('msg-domain')
        if not (ok is True or ok is False or ok in ('partial', 'computed')):
            raise ModelReject('ok-domain')
        expect = d['expect']
        et = expect if isinstance(expect, tuple) else (expect,)
        if not et:
            raise ModelReject('empty-expect-tuple')
        et = tuple(self.norm_expect(e) for e in et)
        return {'expect': et, 'grade_decimal': gd, 'msg': msg, 'ok': ok_allowed(gd, ok)}

    def norm_expect(self, e):
        raise NotImplementedError

    def finish(self, canon):
        """post-processing over the complete tuple (cross-answer rules); returns canon"""
        return canon

    def canonical(self, answers):
        return self.finish(self.norm_answers(answers))


class StringModel(ItemModel):
    def norm_expect(self, e):
        if not isinstance(e, str):
            raise ModelReject('expect-not-a-string')
        return e


class FormulaModel(ItemModel):
    """expect: a string (paired with the default comparer) or {'comparer': f(3 args), 'comparer_params': [str]}"""
    def __init__(self, default_comparer):
        self.default_comparer = default_comparer

    def norm_expect(self, e):
        if isinstance(e, str):
            return {'comparer': self.default_comparer, 'comparer_params': [e]}
        if isinstance(e, dict) and set(e) == {'comparer', 'comparer_params'}:
            params = e['comparer_params']
            if not (isinstance(params, list) and all(isinstance(p, str) for p in params)):
                raise ModelReject('comparer_params-domain')
            if not callable(e['comparer']):
                raise ModelReject('comparer-not-callable')
            return {'comparer': e['comparer'], 'comparer_params': list(params)}
        raise ModelReject('formula-expect-domain')


def has_blank(x):
    """an empty / whitespace-only string anywhere inside a (nested) answer specification"""
    if isinstance(x, str):
        return x.strip() == ''
    if isinstance(x, (list, tuple)):
        return any(has_blank(i) for i in x)
    if isinstance(x, dict) and 'expect' in x:
        return has_blank(x['expect'])
    return False


class SingleListModel(ItemModel):
    """
    expect: a list of subgrader answers, or a string that is split at the delimiter
    (single_list_grader.md: "spaces included after delimiters will be included in the following entry").
    """
    def __init__(self, sub, delimiter=',', missing_error=True, length_error=False):
        self.sub = sub
        self.delimiter = delimiter
        self.missing_error = missing_error
        self.length_error = length_error
        self.open_lengths = False

    def split(self, s):
        parts = s.split(self.delimiter)
        if isinstance(self.sub, SingleListModel):
            parts = [self.sub.split(p) for p in parts]
        return parts

    def norm_expect(self, e):
        if isinstance(e, str):
            e = self.split(e)
        if not isinstance(e, list):
            raise ModelReject('expect-not-a-list')
        if not e:
            raise ModelReject('empty-answer-list')
        if self.missing_error and has_blank(e):
            raise ModelReject('empty-entry-with-missing_error')
        return [self.sub.canonical(item) for item in e]

    def finish(self, canon):
        lens = set(len(x) for a in canon for x in a['expect'])
        if len(lens) > 1:
            if self.length_error:
                raise ModelReject('answer-lists-of-different-length-with-length_error')
            self.open_lengths = True      # documented only for length_error=True; code is stricter
        return canon


class IntervalModel(ItemModel):
    """expect: '[a, b)' or [opening, lower, upper, closing] with ItemGrader answers in every slot"""
    def __init__(self, sub, opening='[(', closing='])', delimiter=','):
        self.sub = sub
        self.opening = opening
        self.closing = closing
        self.delimiter = delimiter
        self.brackets = StringModel()

    def norm_expect(self, e):
        if isinstance(e, str):
            s = e.strip()
            if len(s) < 5:
                raise ModelReject('interval-string-too-short')
            e = [s[0]] + s[1:-1].split(self.delimiter) + [s[-1]]
        if not isinstance(e, list):
            raise ModelReject('expect-not-a-list')
        if len(e) != 4:
            raise ModelReject('interval-needs-4-entries')
        if has_blank(e):
            raise ModelReject('empty-entry')
        out = [self.brackets.canonical(e[0]), self.sub.canonical(e[1]),
               self.sub.canonical(e[2]), self.brackets.canonical(e[3])]
        for slot, allowed, name in ((out[0], self.opening, 'opening'), (out[3], self.closing, 'closing')):
            for ans in slot:
                for ch in ans['expect']:
                    if len(ch) != 1 or ch not in allowed:
                        raise ModelReject('%s-bracket-not-allowed' % name)
        return out


class ListModel(object):
    """
    ListGrader.answers: a list of subgrader answers or a tuple of such lists (all of one length);
    canonical form: tuple of lists of the subgraders' canonical answers.
    """
    def __init__(self, subs, ordered=False, grouping=()):
        self.subs = subs              # a model or a list of models
        self.ordered = ordered
        self.grouping = list(grouping)
        self.open = False
        self.n_answers = 0

    def canonical(self, answers):
        if isinstance(answers, list):
            if not answers:
                return ()
            if len(answers) == 1:
                self.open = True       # "does not work with a single answer" is not documented
            tup = (answers,)
        elif isinstance(answers, tuple):
            tup = answers
            if not all(isinstance(x, list) for x in tup):
                raise ModelReject('answers-not-a-tuple-of-lists')
        else:
            raise ModelReject('answers-not-a-list')
        if not tup:
            return ()
        if len(set(len(x) for x in tup)) > 1:
            raise ModelReject('answer-lists-of-different-length')
        n = len(tup[0])
        self.n_answers = n
        if isinstance(self.subs, list):
            if len(self.subs) != n:
                raise ModelReject('number-of-subgraders-differs-from-number-of-answers')
            if not self.ordered:
                raise ModelReject('unordered-with-several-subgraders')
            return tuple([self.subs[i].canonical(a) for i, a in enumerate(lst)] for lst in tup)
        return tuple([self.subs.canonical(a) for a in lst] for lst in tup)


def model_of(grader):
    """Model descriptor of a constructed (already validated) library grader used as a subgrader."""
    import mitxgraders as m
    from mitxgraders.formulagrader.formulagrader import FormulaGrader
    if isinstance(grader, m.IntervalGrader):
        c = grader.config
        return IntervalModel(model_of(c['subgrader']), c['opening_brackets'], c['closing_brackets'], c['delimiter'])
    if isinstance(grader, m.SingleListGrader):
        c = grader.config
        return SingleListModel(model_of(c['subgrader']), c['delimiter'], c['missing_error'], c['length_error'])
    if isinstance(grader, m.StringGrader):
        return StringModel()
    if isinstance(grader, FormulaGrader):
        return FormulaModel(grader.default_comparer)
    if isinstance(grader, m.ListGrader):
        c = grader.config
        subs = c['subgraders']
        subs = [model_of(s) for s in subs] if isinstance(subs, list) else model_of(subs)
        return ListModel(subs, c['ordered'], c['grouping'])
    raise ModelReject('no-model-for-%s' % type(grader).__name__)


# ----------------------------------------------------------------------------- cross-option rules

# docs/grading_math/functions_and_constants.md
FORMULA_FUNCS = set('''sin cos tan sec csc cot sqrt log10 log2 ln exp arccos arcsin arctan arctan2 arcsec arccsc
arccot abs factorial fact sinh cosh tanh sech csch coth arcsinh arccosh arctanh arcsech arccsch arccoth floor ceil
min max re im conj kronecker'''.split())
MATRIX_FUNCS = FORMULA_FUNCS | set('abs adj cross ctrans det norm trans trace'.split())
DEFAULT_CONSTS = {'i', 'j', 'e', 'pi'}


def math_rules(cfg, has_infty=False, matrix=False):
    funcs = MATRIX_FUNCS if matrix else FORMULA_FUNCS
    wl = cfg.get('whitelist', [])
    bl = cfg.get('blacklist', [])
    if wl and bl:
        return 'whitelist+blacklist'
    for f in bl:
        if f not in funcs:
            return 'unknown-function-in-blacklist'
    if wl != [None]:
        for f in wl:
            if f not in funcs:
                return 'unknown-function-in-whitelist'
    consts = set(DEFAULT_CONSTS)
    if has_infty or cfg.get('allow_inf', False):
        consts.add('infty')
    uc = cfg.get('user_constants', {})
    removed = set(k for k, v in uc.items() if v is None)     # "remove a default constant by setting it to None"
    consts -= removed
    uc_names = set(uc) - removed
    variables = cfg.get('variables', [])
    numbered = cfg.get('numbered_vars', [])
    if not cfg.get('suppress_warnings', False):
        for key, names in (('variables', variables), ('numbered_vars', numbered), ('user_constants', uc_names)):
            if consts & set(names):
                return 'override-default-constant-via-%s' % key
        if funcs & set(cfg.get('user_functions', {})):
            return 'override-default-function'
    if set(variables) & uc_names:
        return 'variable-constant-collision'
    if len(set(variables)) != len(variables) or len(set(numbered)) != len(numbered):
        return OPEN           # duplicates: rejected by the code, not documented
    extra = set(cfg.get('sample_from', {})) - set(variables) - set(numbered)
    if extra:
        return OPEN           # sampling set for an undeclared variable: not documented either way
    return None


def input_positions_rule(cfg):
    pos = cfg.get('input_positions')
    if pos is None:
        return None
    used = [v for v in pos.values() if v is not None]
    if len(set(used)) != len(used):
        return 'input_positions-repeated'
    if set(used) != set(range(1, len(used) + 1)):
        return 'input_positions-not-consecutive-from-1'
    return None


def summation_rules(cfg):
    return input_positions_rule(cfg) or math_rules(cfg, has_infty=True)


def singlelist_rules(cfg):
    import mitxgraders as m
    sub = cfg['subgrader']
    seen = [cfg.get('delimiter', ',')]
    s = sub
    while isinstance(s, m.SingleListGrader):
        d = s.config['delimiter']
        if d in seen:
            return 'nested-delimiters-equal'
        seen.append(d)
        s = s.config['subgrader']
    if 'answers' in cfg:
        model = SingleListModel(model_of(sub), cfg.get('delimiter', ','), cfg.get('missing_error', True),
                                cfg.get('length_error', False))
        try:
            model.canonical(cfg['answers'])
        except ModelReject as e:
            return e.args[0]
        if model.open_lengths:
            return OPEN
    return None


def interval_rules(cfg, default_sub):
    sub = cfg.get('subgrader') or default_sub
    if 'answers' in cfg:
        model = IntervalModel(model_of(sub), cfg.get('opening_brackets', '[('), cfg.get('closing_brackets', '])'),
                              cfg.get('delimiter', ','))
        try:
            model.canonical(cfg['answers'])
        except ModelReject as e:
            return e.args[0]
    return None


def listgrader_rules(cfg):
    import mitxgraders as m
    subs = cfg['subgraders']
    is_list = isinstance(subs, list)
    ordered = cfg.get('ordered', False)
    grouping = cfg.get('grouping', [])
    try:
        models = [model_of(s) for s in subs] if is_list else model_of(subs)
    except ModelReject:
        return OPEN
    lm = ListModel(models, ordered, grouping)
    try:
        lm.canonical(cfg.get('answers', []))
    except ModelReject as e:
        return e.args[0]
    if grouping:
        n = max(grouping)
        if set(grouping) != set(range(1, n + 1)):
            return 'grouping-not-contiguous'
        sizes = [grouping.count(g) for g in range(1, n + 1)]
        if not is_list and not isinstance(subs, m.ListGrader):
            return 'grouping-needs-ListGrader-subgrader'
        if not ordered and len(set(sizes)) > 1:
            return 'unordered-groups-of-different-size'
        if is_list:
            if len(subs) != n:
                return 'number-of-groups-differs-from-number-of-subgraders'
            for size, s in zip(sizes, subs):
                if size > 1 and not isinstance(s, m.ListGrader):
                    return 'multi-entry-group-needs-ListGrader'
        n_answers = lm.n_answers
        if n_answers and n_answers != n:
            return OPEN        # number of groups vs number of answers: only checked when grading
    if lm.open:
        return OPEN
    return None


def model_of_listcfg(cfg):
    subs = cfg['subgraders']
    models = [model_of(s) for s in subs] if isinstance(subs, list) else model_of(subs)
    return ListModel(models, cfg.get('ordered', False), cfg.get('grouping', []))


def square_rules(cfg):
    """matrixsampling.SquareMatrices docstring: combinations that cannot be generated / do not exist"""
    sym = cfg.get('symmetry')
    cplx = bool(cfg.get('complex', False)) or sym in ('hermitian', 'antihermitian')
    tr = cfg.get('traceless', False)
    det = cfg.get('determinant')
    dim = cfg.get('dimension', 2)
    if det == 0:
        if tr:
            return 'zero-determinant-traceless'
        if sym == 'antisymmetric' and (cplx or dim % 2 == 0):
            return 'zero-determinant-antisymmetric'
    if det == 1:
        if dim == 2 and tr:
            if sym in ('diagonal', 'symmetric') and not cplx:
                return 'no-real-traceless-unit-det-2x2'
            if sym == 'hermitian':
                return 'no-hermitian-traceless-unit-det-2x2'
        if dim % 2 == 1 and sym in ('antisymmetric', 'antihermitian'):
            return 'no-odd-dim-unit-det-anti'
    return None


def specify_domain_rules(cfg):
    if cfg.get('min_length') is not None and len(cfg['input_shapes']) != 1:
        return 'min_length-with-several-shapes'
    return None


def interval_of(v):
    """(start, stop) of a documented interval specification: [a, b] or {'start': a, 'stop': b}"""
    if isinstance(v, list) and len(v) == 2:
        return (v[0], v[1])
    if isinstance(v, dict) and set(v) <= {'start', 'stop'}:
        return (v.get('start', 1), v.get('stop', 5))
    if _is_ows(v):
        return interval_of(v.config)
    return None
