"""
Operator TREES for C03 (family E7): enumeration of all binary tree shapes, their direct
evaluation on Python numbers (no parser involved: the tree IS the grouping), and two
renderings as text:

  render_min   -- parentheses only where the documented precedence table needs them
                  (power > unary minus > parallel > product > sum; '^' right-associative with an
                  optional sign on the exponent; the other binary operators left-associative)
  render_full  -- every operator node and every negation in its own pair of parentheses

Nodes:  ('leaf', k) | ('neg', node) | ('op', symbol, left, right)
"""

# precedence levels of the documented grammar, loosest first
L_SUM, L_PROD, L_PAR, L_NEG, L_POW, L_ATOM = 0, 1, 2, 3, 4, 5
LEVEL = {'+': L_SUM, '-': L_SUM, '*': L_PROD, '/': L_PROD, '||': L_PAR, '^': L_POW}


def shapes(n):
    """all binary tree shapes with n internal nodes, fixed order; None = leaf, (L, R) = internal"""
    if n == 0:
        return [None]
    out = []
    for i in range(n):
        for left in shapes(i):
            for right in shapes(n - 1 - i):
                out.append((left, right))
    return out


_SHAPES = {}


def shape(n, idx):
    if n not in _SHAPES:
        _SHAPES[n] = shapes(n)
    return _SHAPES[n][idx]


def n_shapes(n):
    if n not in _SHAPES:
        _SHAPES[n] = shapes(n)
    return len(_SHAPES[n])


def build(shp, ops, negmask):
    """
    Pre-order numbering: every node (internal and leaf) owns one bit of negmask, internal nodes take
    ops[] in pre-order, leaves are numbered left to right.
    """
    counters = {'node': 0, 'op': 0, 'leaf': 0}

    def rec(s):
        k = counters['node']
        counters['node'] += 1
        if s is None:
            node = ('leaf', counters['leaf'])
            counters['leaf'] += 1
        else:
            sym = ops[counters['op']]
            counters['op'] += 1
            left = rec(s[0])
            right = rec(s[1])
            node = ('op', sym, left, right)
        if negmask >> k & 1:
            node = ('neg', node)
        return node

    return rec(shp)


def apply_op(sym, a, b):
    if sym == '+':
        return a + b
    if sym == '-':
        return a - b
    if sym == '*':
        return a * b
    if sym == '/':
        return a / b
    if sym == '^':
        return a ** b
    if sym == '||':
        if a == 0 or b == 0:
            return 0.0
        return 1.0 / (1.0 / a + 1.0 / b)
    raise ValueError(sym)


def ev(node, leafvals):
    """value of the tree; ZeroDivisionError / OverflowError propagate"""
    t = node[0]
    if t == 'leaf':
        return leafvals[node[1]]
    if t == 'neg':
        return -ev(node[1], leafvals)
    return apply_op(node[1], ev(node[2], leafvals), ev(node[3], leafvals))


def has_nested_parallel(node):
    """a '||' node with a '||' node as its LEFT operand renders flat (a||b||c): the n-ary reciprocal sum"""
    t = node[0]
    if t == 'leaf':
        return False
    if t == 'neg':
        return has_nested_parallel(node[1])
    if node[1] == '||' and node[2][0] == 'op' and node[2][1] == '||':
        return True
    return has_nested_parallel(node[2]) or has_nested_parallel(node[3])


def _wrap(s, level, need):
    return s if level >= need else '(' + s + ')'


def render_min(node, leaftxt):
    """returns (text, level, number of parenthesis pairs used)"""
    t = node[0]
    if t == 'leaf':
        return leaftxt[node[1]], L_ATOM, 0
    if t == 'neg':
        s, l, p = render_min(node[1], leaftxt)
        return '-' + _wrap(s, l, L_POW), L_NEG, p + (l < L_POW)
    sym = node[1]
    if sym == '^':
        bs, bl, bp = render_min(node[2], leaftxt)
        e = node[3]
        sign = ''
        if e[0] == 'neg':
            sign = '-'
            e = e[1]
        es, el, ep = render_min(e, leaftxt)
        return (_wrap(bs, bl, L_ATOM) + '^' + sign + _wrap(es, el, L_POW), L_POW,
                bp + ep + (bl < L_ATOM) + (el < L_POW))
    lv = LEVEL[sym]
    ls, ll, lp = render_min(node[2], leaftxt)
    rs, rl, rp = render_min(node[3], leaftxt)
    return (_wrap(ls, ll, lv) + sym + _wrap(rs, rl, lv + 1), lv,
            lp + rp + (ll < lv) + (rl < lv + 1))


def render_full(node, leaftxt):
    t = node[0]
    if t == 'leaf':
        return leaftxt[node[1]]
    if t == 'neg':
        return '(-' + render_full(node[1], leaftxt) + ')'
    return '(' + render_full(node[2], leaftxt) + node[1] + render_full(node[3], leaftxt) + ')'
