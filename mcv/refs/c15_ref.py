"""
Reference model for C15 -- textbook definitions of the student-facing functions.

Pure python (cmath / math / itertools); numpy is NOT used, nothing from mitxgraders is imported.

Scalar functions come in two kinds:

  DIRECT   name -> python function composed from cmath exactly as the textbook definition reads
           (sec = 1/cos, coth = 1/tanh ...).  It may raise ZeroDivisionError (pole) or OverflowError.
  INVERSE  name -> Inverse(forward, derivative, region, real_domain, poles, ...).  No branch convention is
           imposed: a returned w is accepted when forward(w) = z and w lies in the CLOSED principal region
           (the set all usual conventions agree on; they differ only in which boundary points belong to it).
           On real arguments inside the real domain w must in addition be real.

`expect_scalar(name, z)` turns that into an Expectation that the property module compares with what the
library did.
"""
import cmath
import math
import itertools

PI = math.pi
HALF_PI = math.pi / 2
LN10 = math.log(10.0)
LN2 = math.log(2.0)
REGION_TOL = 1e-9
TINY = 1e-300


def is_real_typed(v):
    return isinstance(v, (int, float)) and not isinstance(v, bool)


def as_complex(v):
    return complex(v)


# ----------------------------------------------------------------------------- direct functions

def _recip(f):
    def g(z):
        return 1 / f(z)          # ZeroDivisionError at a pole; OverflowError when f overflows
    return g


DIRECT = {
    'sin': cmath.sin, 'cos': cmath.cos, 'tan': cmath.tan,
    'sec': _recip(cmath.cos), 'csc': _recip(cmath.sin), 'cot': _recip(cmath.tan),
    'sinh': cmath.sinh, 'cosh': cmath.cosh, 'tanh': cmath.tanh,
    'sech': _recip(cmath.cosh), 'csch': _recip(cmath.sinh), 'coth': _recip(cmath.tanh),
    'exp': cmath.exp,
    'abs': lambda z: complex(abs(z)),
    're': lambda z: complex(z.real),
    'im': lambda z: complex(z.imag),
    'conj': lambda z: z.conjugate(),
}
# functions whose textbook composition is 1/g: when g overflows the true value underflows to 0
RECIPROCAL_OF_OVERFLOWING = {'sech': cmath.cosh, 'csch': cmath.sinh, 'sec': cmath.cos, 'csc': cmath.sin}
REAL_ONLY = ('floor', 'ceil')


# ----------------------------------------------------------------------------- inverse functions

class Inverse(object):
    def __init__(self, forward, deriv, region, real_domain, poles=(), continuation_required=False,
                 singular_open=(), recip_arg=False):
        self.recip_arg = recip_arg              # textbook definition goes through 1/z (overflows for subnormal z)
        self.forward = forward                  # f with f(w) = z
        self.deriv = deriv                      # f'(w) (conditioning of the identity check)
        self.region = region                    # closed principal region predicate on w
        self.real_domain = real_domain          # predicate on real x: x is in the real domain
        self.poles = poles                      # exact arguments where the function has no finite value
        self.continuation_required = continuation_required
        self.singular_open = singular_open      # arguments where the composite definition is singular but a
        #                                         limit exists: error or the value are both accepted


def _re_between(lo, hi):
    return lambda w: lo - REGION_TOL <= w.real <= hi + REGION_TOL


def _im_between(lo, hi):
    return lambda w: lo - REGION_TOL <= w.imag <= hi + REGION_TOL


def _both(p, q):
    return lambda w: p(w) and q(w)


def _sq(w):
    return w * w


def _tan_d(w):
    t = cmath.tan(w)
    return 1 + t * t


def _cot(w):
    return 1 / cmath.tan(w)


def _cot_d(w):
    c = _cot(w)
    return -(1 + c * c)


def _sec(w):
    return 1 / cmath.cos(w)


def _sec_d(w):
    return cmath.tan(w) / cmath.cos(w)


def _csc(w):
    return 1 / cmath.sin(w)


def _csc_d(w):
    return -1 / (cmath.sin(w) * cmath.tan(w))


def _tanh_d(w):
    t = cmath.tanh(w)
    return 1 - t * t


def _sech(w):
    return 1 / cmath.cosh(w)


def _sech_d(w):
    return -cmath.tanh(w) / cmath.cosh(w)


def _csch(w):
    return 1 / cmath.sinh(w)


def _csch_d(w):
    return -1 / (cmath.sinh(w) * cmath.tanh(w))


def _coth(w):
    return 1 / cmath.tanh(w)


def _coth_d(w):
    c = _coth(w)
    return 1 - c * c


def _expk(k):
    return (lambda w: cmath.exp(k * w)), (lambda w: k * cmath.exp(k * w))


_exp10, _exp10_d = _expk(LN10)
_exp2, _exp2_d = _expk(LN2)
_always = lambda x: True

INVERSE = {
    'sqrt': Inverse(_sq, lambda w: 2 * w, _re_between(0, math.inf), lambda x: x >= 0,
                    continuation_required=True),
    'ln': Inverse(cmath.exp, cmath.exp, _im_between(-PI, PI), lambda x: x > 0, poles=(0,),
                  continuation_required=True),
    'log10': Inverse(_exp10, _exp10_d, _im_between(-PI / LN10, PI / LN10), lambda x: x > 0, poles=(0,),
                     continuation_required=True),
    'log2': Inverse(_exp2, _exp2_d, _im_between(-PI / LN2, PI / LN2), lambda x: x > 0, poles=(0,),
                    continuation_required=True),
    'arcsin': Inverse(cmath.sin, cmath.cos, _re_between(-HALF_PI, HALF_PI), lambda x: -1 <= x <= 1),
    'arccos': Inverse(cmath.cos, lambda w: -cmath.sin(w), _re_between(0, PI), lambda x: -1 <= x <= 1),
    'arctan': Inverse(cmath.tan, _tan_d, _re_between(-HALF_PI, HALF_PI), _always, poles=(1j, -1j)),
    'arcsec': Inverse(_sec, _sec_d, _re_between(0, PI), lambda x: abs(x) >= 1, poles=(0,), recip_arg=True),
    'arccsc': Inverse(_csc, _csc_d, _re_between(-HALF_PI, HALF_PI), lambda x: abs(x) >= 1, poles=(0,),
                      recip_arg=True),
    # arccot: both common conventions ((0, pi) and (-pi/2, pi/2]) are accepted
    'arccot': Inverse(_cot, _cot_d, _re_between(-HALF_PI, PI), _always, poles=(1j, -1j)),
    'arcsinh': Inverse(cmath.sinh, cmath.cosh, _im_between(-HALF_PI, HALF_PI), _always),
    'arccosh': Inverse(cmath.cosh, cmath.sinh, _both(_re_between(0, math.inf), _im_between(-PI, PI)),
                       lambda x: x >= 1),
    'arctanh': Inverse(cmath.tanh, _tanh_d, _im_between(-HALF_PI, HALF_PI), lambda x: -1 < x < 1,
                       poles=(1, -1)),
    'arcsech': Inverse(_sech, _sech_d, _both(_re_between(0, math.inf), _im_between(-PI, PI)),
                       lambda x: 0 < x <= 1, poles=(0,), recip_arg=True),
    'arccsch': Inverse(_csch, _csch_d, _im_between(-HALF_PI, HALF_PI), lambda x: x != 0, poles=(0,),
                       recip_arg=True),
    'arccoth': Inverse(_coth, _coth_d, _im_between(-HALF_PI, HALF_PI), lambda x: abs(x) > 1,
                       poles=(1, -1), singular_open=(0,), recip_arg=True),
}

UNARY_SCALAR = sorted(set(DIRECT) | set(INVERSE) | set(REAL_ONLY))


# ----------------------------------------------------------------------------- expectations

class Expectation(object):
    """
    kind:
      'value'     the library must return a number accepted by `accept(result) -> None | reason`
      'error'     the library must raise a student-facing error (pole, arccot(i), ln(0) ...)
      'either'    an error or a number accepted by `accept` (real argument outside the real domain of a
                  function whose complex continuation the statement does not demand; overflow of an
                  intermediate of the textbook composition; real-only functions on complex-typed input)
    """
    def __init__(self, kind, accept=None, why=''):
        self.kind = kind
        self.accept = accept
        self.why = why


def close(res, ref, z, rtol=1e-9):
    res = complex(res)
    ref = complex(ref)
    tol = rtol * abs(ref) + 1e-13 * min(1.0, abs(z))
    return abs(res - ref) <= tol


def _accept_direct(name, ref, z):
    def accept(res):
        if not close(res, ref, z):
            return 'value %r differs from the textbook value %r' % (res, ref)
        return None
    return accept


def _accept_tiny():
    def accept(res):
        if abs(complex(res)) > TINY:
            return 'value %r where the textbook value underflows to 0' % (res,)
        return None
    return accept


def _inv(f):
    return lambda z: f(1 / z)


# principal values from cmath -- used ONLY as a fallback where the identity f(w) = z cannot be verified in
# floating point because the inverse saturates (arctan(1e200) = pi/2 to the last bit, tan(pi/2) = 1.6e16)
CMATH_INVERSE = {
    'sqrt': cmath.sqrt, 'ln': cmath.log, 'log10': cmath.log10, 'log2': lambda z: cmath.log(z) / LN2,
    'arcsin': cmath.asin, 'arccos': cmath.acos, 'arctan': cmath.atan,
    'arcsec': _inv(cmath.acos), 'arccsc': _inv(cmath.asin), 'arccot': _inv(cmath.atan),
    'arcsinh': cmath.asinh, 'arccosh': cmath.acosh, 'arctanh': cmath.atanh,
    'arcsech': _inv(cmath.acosh), 'arccsch': _inv(cmath.asinh), 'arccoth': _inv(cmath.atanh),
}


def _zero_sign_variants(zc):
    """z with either sign on each zero component: the two sides of a branch cut"""
    res = [zc.real] if zc.real != 0 else [0.0, -0.0]
    ims = [zc.imag] if zc.imag != 0 else [0.0, -0.0]
    return [complex(a, b) for a in res for b in ims]


def saturated_fallback(name, zc, w):
    """True when w agrees with cmath's principal value of the inverse at z (either side of a cut)"""
    f = CMATH_INVERSE[name]
    for zv in _zero_sign_variants(zc):
        try:
            r = f(zv)
        except (OverflowError, ZeroDivisionError, ValueError):
            continue
        cands = [r]
        if name == 'arccot' and r.real < 0:
            cands.append(r + PI)            # the (0, pi) convention
        for c in cands:
            if abs(w - c) <= 1e-12 + 1e-9 * abs(c):
                return True
    return False


def _accept_inverse(name, inv, z, must_be_real):
    zc = complex(z)

    def accept(res):
        w = complex(res)
        if must_be_real and abs(w.imag) > 1e-12 * max(1.0, abs(w)):
            return 'real argument inside the real domain gave the non-real value %r' % (res,)
        if not inv.region(w):
            return 'value %r lies outside the closed principal region' % (res,)
        try:
            back = inv.forward(w)
            d = abs(inv.deriv(w))
            # conditioning allowance |f'(w)| * rounding of w -- but capped: next to a pole of the forward function
            # f' is so large that the allowance would accept ANY w there (arcsec(2) = pi/2: sec'(pi/2) ~ 1e32).
            # A genuinely ill-conditioned case beyond the cap is decided by the saturated fallback below.
            tol = 1e-9 * abs(zc) + min(d * 1e-15 * max(1.0, abs(w)), 1e-3 * abs(zc) + 1e-12) + TINY
            if abs(back - zc) <= tol:
                return None
            why = 'forward function applied to the returned %r gives %r, not the argument %r' % (res, back, z)
        except (OverflowError, ZeroDivisionError, ValueError):
            why = 'forward function cannot be evaluated at the returned value %r' % (res,)
        if saturated_fallback(name, zc, w):
            return None
        return why
    return accept


def _is_zero(z):
    return complex(z) == 0


def expect_scalar(name, z):
    """Expectation for the unary scalar function `name` at the python number z (float or complex)."""
    real_typed = is_real_typed(z)
    zc = complex(z)
    if name in REAL_ONLY:
        f = math.floor if name == 'floor' else math.ceil
        if real_typed:
            ref = float(f(z))
            return Expectation('value', lambda res: None if complex(res) == ref else
                               'value %r is not %s(%r) = %r' % (res, name, z, ref))
        if zc.imag == 0:
            ref = float(f(zc.real))
            return Expectation('either', lambda res: None if complex(res) == ref else
                               'value %r is not %r' % (res, ref), 'real-only function, complex-typed input')
        return Expectation('error', why='real-only function on a non-real argument')

    if name in DIRECT:
        try:
            ref = DIRECT[name](zc)
        except ZeroDivisionError:
            return Expectation('error', why='pole')
        except OverflowError:
            if name in RECIPROCAL_OF_OVERFLOWING:
                return Expectation('either', _accept_tiny(), 'reciprocal of an overflowing quantity')
            return Expectation('error', why='overflow')
        if abs(ref) > 1e300 or ref != ref:
            return Expectation('either', _accept_direct(name, ref, zc), 'at the edge of the float range')
        return Expectation('value', _accept_direct(name, ref, zc))

    inv = INVERSE[name]
    if any(zc == complex(p) for p in inv.poles):
        return Expectation('error', why='pole')
    if any(zc == complex(p) for p in inv.singular_open):
        return Expectation('either', _accept_inverse(name, inv, z, False), 'singular point of the composition')
    if inv.recip_arg and abs(zc) < 1e-307:
        return Expectation('either', _accept_inverse(name, inv, z, False), '1/z overflows')
    if real_typed:
        if inv.real_domain(z):
            return Expectation('value', _accept_inverse(name, inv, z, True))
        if inv.continuation_required:
            return Expectation('value', _accept_inverse(name, inv, z, False))
        return Expectation('either', _accept_inverse(name, inv, z, False), 'real argument outside the real domain')
    return Expectation('value', _accept_inverse(name, inv, z, False))


def arccot_real_candidates(x):
    """the values of arccot on a real x under the two common conventions"""
    if x == 0:
        return [HALF_PI]
    a = math.atan(1.0 / x)
    return [a] if x > 0 else [a, a + PI]


# ----------------------------------------------------------------------------- multi-argument scalar functions

def ref_arctan2(x, y):
    """documented order arctan2(x, y): the angle of the point (x, y); None when undefined"""
    if x == 0 and y == 0:
        return None
    return math.atan2(y + 0.0, x + 0.0)


def ref_kronecker(x, y):
    return 1 if complex(x) == complex(y) else 0


def ref_min(args):
    m = args[0]
    for a in args[1:]:
        if a < m:
            m = a
    return m


def ref_max(args):
    m = args[0]
    for a in args[1:]:
        if a > m:
            m = a
    return m


# ----------------------------------------------------------------------------- arrays (nested python lists)

def shape_of(a):
    if isinstance(a, list):
        inner = shape_of(a[0])
        return (len(a),) + inner
    return ()


def flat(a):
    if isinstance(a, list):
        out = []
        for x in a:
            out.extend(flat(x))
        return out
    return [a]


def map_nested(f, a):
    if isinstance(a, list):
        return [map_nested(f, x) for x in a]
    return f(a)


def frobenius(a):
    mags = [abs(complex(x)) for x in flat(a)]       # abs(complex) is hypot: no overflow/underflow
    m = max(mags)
    if m == 0:
        return 0.0
    return m * math.sqrt(sum((x / m) ** 2 for x in mags))


def transpose(m):
    return [[m[i][j] for i in range(len(m))] for j in range(len(m[0]))]


def ctranspose(m):
    return [[complex(m[i][j]).conjugate() for i in range(len(m))] for j in range(len(m[0]))]


def _perm_sign(p):
    s = 1
    p = list(p)
    for i in range(len(p)):
        while p[i] != i:
            j = p[i]
            p[i], p[j] = p[j], p[i]
            s = -s
    return s


def det(m):
    """Leibniz formula (no elimination: independent of LU-based implementations)"""
    n = len(m)
    total = 0
    for p in itertools.permutations(range(n)):
        term = _perm_sign(p)
        for i in range(n):
            term = term * m[i][p[i]]
        total = total + term
    return total


def trace(m):
    return sum(m[i][i] for i in range(len(m)))


def cross(a, b):
    """(a x b)_i = sum_jk eps_ijk a_j b_k, written with the Levi-Civita symbol"""
    out = [0, 0, 0]
    for i, j, k in ((0, 1, 2), (1, 2, 0), (2, 0, 1)):
        out[i] = a[j] * b[k] - a[k] * b[j]
    return out


def arrays_close(res_nested, ref_nested, rtol=1e-9, atol=1e-12):
    if shape_of(res_nested) != shape_of(ref_nested):
        return False
    scale = max([abs(complex(x)) for x in flat(ref_nested)] + [1.0])
    return all(abs(complex(a) - complex(b)) <= atol + rtol * scale
               for a, b in zip(flat(res_nested), flat(ref_nested)))


# documented tables (docs/grading_math/functions_and_constants.md)
DOCUMENTED_FORMULA = ['sin', 'cos', 'tan', 'sec', 'csc', 'cot', 'sqrt', 'log10', 'log2', 'ln', 'exp', 'arccos',
                      'arcsin', 'arctan', 'arctan2', 'arcsec', 'arccsc', 'arccot', 'abs', 'factorial', 'fact',
                      'sinh', 'cosh', 'tanh', 'sech', 'csch', 'coth', 'arcsinh', 'arccosh', 'arctanh', 'arcsech',
                      'arccsch', 'arccoth', 'floor', 'ceil', 'min', 'max', 're', 'im', 'conj', 'kronecker']
DOCUMENTED_MATRIX_EXTRA = ['abs', 'adj', 'cross', 'ctrans', 'det', 'norm', 'trans', 'trace']
DOCUMENTED_CONSTANTS = {'i': 1j, 'j': 1j, 'e': math.e, 'pi': math.pi}
EXCLUDED = ('fact', 'factorial')     # need scipy, which is not available here
