"""
Reference for the C13 family `formula_features` (no library import).

One fixed configuration whose dependent formulas use what the documentation allows in a DependentSampler formula
(docs/grading_math/sampling.md: "any base or user-defined functions", suffixes, vector literals, constants) and whose
names / constants are the falsy or unusual ones:

    roots      x in {2,3}      X (case-distinct from x)      x' (primed name) = 11
    constants  z0 = 0 (int), zf = 0.0, k = 7, defaults e, pi, i, j
    dependents lit = 7                  no dependency at all (empty depends list)
               p   = twice(x)+z0        author-defined function, zero constant
               q   = sqrt(p*p)+X        default function
               r   = 50%*q+x'           suffix, primed name
               s   = lit*r+zf           depends on the literal-only dependent and on 0.0
               c   = x*i+1              complex value (default constant i)
               m   = c*c+s              complex arithmetic on a dependent
               v   = [x,2*X]            vector literal built from scalars
               w   = v*v+k              dot product of a dependent vector

Each dependent is given as (formula text for the library, parents, Python function of the sample).
"""
import math
from collections import OrderedDict

from . import c13_model as M

ROOTS = ['x', 'X', "x'"]
USER_CONSTS = OrderedDict([('z0', 0), ('zf', 0.0), ('k', 7)])
DEFAULT_CONSTS = {'e': math.e, 'pi': math.pi, 'i': 1j, 'j': 1j}

DEPS = OrderedDict([
    ('lit', ('7', [], lambda s: 7)),
    ('p', ('twice(x)+z0', ['x', 'z0'], lambda s: 2 * s['x'] + s['z0'])),
    ('q', ('sqrt(p*p)+X', ['p', 'X'], lambda s: abs(s['p']) + s['X'])),
    ('r', ("50%*q+x'", ['q', "x'"], lambda s: 0.5 * s['q'] + s["x'"])),
    ('s', ('lit*r+zf', ['lit', 'r', 'zf'], lambda s: s['lit'] * s['r'] + s['zf'])),
    ('c', ('x*i+1', ['x', 'i'], lambda s: s['x'] * s['i'] + 1)),
    ('m', ('c*c+s', ['c', 's'], lambda s: s['c'] * s['c'] + s['s'])),
    ('v', ('[x,2*X]', ['x', 'X'], lambda s: [s['x'], 2 * s['X']])),
    ('w', ('v*v+k', ['v', 'k'], lambda s: sum(a * a for a in s['v']) + s['k'])),
])

TOPO = ROOTS + list(DEPS)          # a topological order of all twelve variables
NVARS = len(TOPO)


def twice(x):
    return 2 * x


def orders():
    """topological order, its reverse, every rotation of it, and one interleaving"""
    t = list(range(NVARS))
    out = [t, t[::-1]]
    for r in range(1, NVARS):
        out.append(t[r:] + t[:r])
    out.append(t[1::2] + t[0::2])
    return out


ORDERS = orders()


def constants():
    c = dict(DEFAULT_CONSTS)
    c.update(USER_CONSTS)
    return c


def in_root(v, root):
    """root: ['set', values] or ['interval', lo, hi]"""
    if root[0] == 'set':
        return M.member(v, root[1])
    try:
        return root[1] - 1e-12 <= v <= root[2] + 1e-12
    except TypeError:
        return False


def judge_sample(sample, roots, need_consts=True):
    """
    sample: plain-Python dictionary; roots: {name: root description}.
    need_consts: the full dictionary is judged (constants must be present and unchanged); otherwise only the names
    that are present are compared (view of a recording function) -- but every variable must be present.
    """
    need = set(TOPO) | (set(constants()) if need_consts else set())
    missing = sorted(need - set(sample))
    if missing:
        return ('missing-key', 'sample has no value for %s' % ', '.join(missing), sorted(need), sorted(sample))
    for n in ROOTS:
        if not in_root(sample[n], roots[n]):
            return ('independent-not-in-set', '%s = %r is not in its sampling set %r' % (n, sample[n], roots[n]),
                    roots[n], sample[n])
    for n, val in sorted(constants().items()):
        if n in sample and not M.close(sample[n], val):
            return ('constant-changed', 'constant %s = %r, configured %r' % (n, sample[n], val), val, sample[n])
    env = dict(constants())
    env.update(sample)
    for n, (text, par, fn) in DEPS.items():
        want = fn(env)
        if not M.close(sample[n], want):
            return ('dependent-inconsistent',
                    '%s = %r but its formula %s on the same sample gives %r' % (n, sample[n], text, want),
                    want, sample[n])
    return None
