"""
Reference model for C05: a brute-force semantics of (nested) ListGraders over table-driven leaves.

A grader is described by a spec tree:
    Leaf(tag, table)                       an author-defined ItemGrader (TagGrader) with credit table
                                           {(expect, input): credit}; missing pairs earn 0
    Lst(subs, ordered, pc, grouping, cls)  a ListGrader; subs is one spec or a list of specs

Answers in the model:
    for a Leaf : a tuple of (expect, grade_decimal) alternatives
    for a Lst  : a tuple of alternative answer lists, each a list with one entry per group (entry = answers of the sub)

`acceptable(spec, answers, inputs)` enumerates, by exhaustive search over every assignment and every alternative,
the SET of results the property statement allows (ties are left open: every maximal assignment / list is allowed).
A result is a tuple with one (tag, expect, grade, siblings) per input box.  Nothing here calls ListGrader code; the
only library code involved is ItemGrader (the leaf's base class), which is the "i-th subgrader" of the statement.

Every leaf message is "tag|expect|input|siblings" so that the real result can be decoded box by box.
"""
import itertools

from mitxgraders import ListGrader
from mitxgraders.baseclasses import ItemGrader
from voluptuous import Required, Any

EPS = 1e-9


# ---------------------------------------------------------------------------------------- fixtures (author level)

def _fmt_input(x):
    return '+'.join(x) if isinstance(x, list) else x


def _tag_of(grader):
    if isinstance(grader, TagGrader):
        return grader.config['tag']
    if isinstance(grader, ListGrader):
        return 'L'
    return '?'


class TagGrader(ItemGrader):
    """table-driven ItemGrader whose message names its own tag, the expect entry, the input and the siblings it was given"""
    @property
    def schema_config(self):
        schema = super(TagGrader, self).schema_config
        return schema.extend({
            Required('table', default={}): dict,
            Required('tag', default='T'): str,
            Required('raise_on', default=()): Any(tuple, list),
        })

    def check_response(self, answer, student_input, **kwargs):
        if student_input in self.config['raise_on']:
            raise ValueError('tag grader asked to fail on %r' % (student_input,))
        credit = self.config['table'].get((answer['expect'], student_input), 0)
        sibs = kwargs.get('siblings')
        if sibs is None:
            s = '-'
        else:
            s = ';'.join('%s=%s' % (_tag_of(x['grader']), _fmt_input(x['input'])) for x in sibs)
        grade = credit * answer['grade_decimal']
        return {'ok': ItemGrader.grade_decimal_to_ok(grade), 'grade_decimal': grade,
                'msg': '%s|%s|%s|%s' % (self.config['tag'], answer['expect'], student_input, s)}


class SubclassedListGrader(ListGrader):
    """an author's subclass of ListGrader (must be accepted wherever a ListGrader is)"""


# ---------------------------------------------------------------------------------------- specs

class Leaf(object):
    def __init__(self, tag, table, raise_on=()):
        self.tag = tag
        self.table = table
        self.raise_on = tuple(raise_on)


class Lst(object):
    def __init__(self, subs, ordered, pc=True, grouping=None, cls=None):
        self.subs = subs
        self.ordered = ordered
        self.pc = pc
        self.grouping = tuple(grouping) if grouping else None
        self.cls = cls

    def sub(self, k):
        return self.subs[k] if isinstance(self.subs, list) else self.subs

    def groups(self, n):
        if self.grouping is None:
            return [[i] for i in range(n)]
        return [[i for i in range(len(self.grouping)) if self.grouping[i] == g]
                for g in range(1, max(self.grouping) + 1)]


def alts(*items):
    """leaf answers: alts('A0') or alts(('A0', 1), ('A1', 0.5))"""
    return tuple((x, 1) if not isinstance(x, tuple) else x for x in items)


def lib_answers(spec, ans):
    """model answers -> the form an author would write"""
    if isinstance(spec, Leaf):
        if len(ans) == 1 and ans[0][1] == 1:
            return ans[0][0]
        return tuple(e if gd == 1 else {'expect': e, 'grade_decimal': gd} for e, gd in ans)
    lists = [[lib_answers(spec.sub(k), a) for k, a in enumerate(L)] for L in ans]
    return lists[0] if len(lists) == 1 else tuple(lists)


def build(spec, answers=None, memo=None):
    """real graders for a spec tree; one spec OBJECT gives one grader OBJECT (sharing is preserved)"""
    memo = {} if memo is None else memo
    if id(spec) in memo:
        return memo[id(spec)]
    if isinstance(spec, Leaf):
        g = TagGrader(table=spec.table, tag=spec.tag, raise_on=spec.raise_on)
    else:
        if isinstance(spec.subs, list):
            subs = [build(s, None, memo) for s in spec.subs]
        else:
            subs = build(spec.subs, None, memo)
        kw = dict(subgraders=subs, ordered=spec.ordered, partial_credit=spec.pc)
        if spec.grouping:
            kw['grouping'] = list(spec.grouping)
        if answers is not None:
            kw['answers'] = lib_answers(spec, answers)
        g = (spec.cls or ListGrader)(**kw)
    memo[id(spec)] = g
    return g


# ---------------------------------------------------------------------------------------- brute-force semantics

def total(r):
    return sum(b[2] for b in r)


def _leaf_results(leaf, ans, inp, sibs):
    cands = [(leaf.tag, e, leaf.table.get((e, inp), 0) * gd, sibs) for e, gd in ans]
    m = max(c[2] for c in cands)
    return set((c,) for c in cands if c[2] >= m - EPS)


def _sub_results(sub, ans, ginp, sibs):
    if isinstance(sub, Leaf):
        return _leaf_results(sub, ans, ginp, sibs)
    return acceptable(sub, ans, ginp)


def _one_list(spec, L, inputs):
    n = len(inputs)
    groups = spec.groups(n)
    G = len(groups)
    ginp = [inputs[g[0]] if len(g) == 1 else [inputs[i] for i in g] for g in groups]

    def assemble(parts):
        flat = [None] * n
        for g, part in zip(groups, parts):
            for idx, b in zip(g, part):
                flat[idx] = b
        return tuple(flat)

    out = set()
    if spec.ordered:
        sibs = ';'.join('%s=%s' % ('L' if isinstance(spec.sub(k), Lst) else spec.sub(k).tag, _fmt_input(ginp[k]))
                        for k in range(G))
        per = [_sub_results(spec.sub(k), L[k], ginp[k], sibs) for k in range(G)]
        for parts in itertools.product(*per):
            out.add(assemble(parts))
        return out
    sub = spec.sub(0)
    M = [[_sub_results(sub, L[k], ginp[j], '-') for k in range(G)] for j in range(G)]
    # every acceptable result of one (answer, input-group) pair has the same total, so the pair has one value
    val = [[total(next(iter(M[j][k]))) / float(len(groups[j])) for k in range(G)] for j in range(G)]
    perms = list(itertools.permutations(range(G)))
    tots = [sum(val[j][p[j]] for j in range(G)) for p in perms]
    best = max(tots)
    for p, t in zip(perms, tots):
        if t >= best - EPS:
            for parts in itertools.product(*[M[j][p[j]] for j in range(G)]):
                out.add(assemble(parts))
    return out


def acceptable(spec, answers, inputs):
    """set of results (tuple per box of (tag, expect, grade, siblings)) the statement allows"""
    res = set()
    for L in answers:
        res |= _one_list(spec, L, inputs)
    best = max(total(r) for r in res)
    keep = set(r for r in res if total(r) >= best - EPS)
    if not spec.pc:
        keep = set(r if all(abs(b[2] - 1) <= EPS for b in r) else tuple((b[0], b[1], 0, b[3]) for b in r)
                   for r in keep)
    return keep


def ok_of(g):
    return {0: False, 1: True}.get(g, 'partial')


def judge(spec, answers, inputs, result, tag, viol):
    """compare a real ListGrader result with the model; returns (outcome, violation-or-None)"""
    n = len(inputs)
    if (not isinstance(result, dict) or sorted(result.keys()) != ['input_list', 'overall_message']
            or not isinstance(result['input_list'], list) or len(result['input_list']) != n):
        return 'shape', viol(tag + ':result-shape', 'wrong result structure', None, result)
    entries = result['input_list']
    boxes = []
    for b, e in enumerate(entries):
        parts = (e.get('msg') or '').split('|')
        if len(parts) != 4:
            return 'msg', viol(tag + ':entry-message-not-from-subgrader', 'entry %d has message %r' % (b, e.get('msg')), None, e)
        t, a, i, s = parts
        if i != inputs[b]:
            return 'position', viol(tag + ':entry-at-wrong-position',
                                    'entry %d grades input %r but box %d holds %r' % (b, i, b, inputs[b]), inputs[b], i)
        boxes.append((t, a, e['grade_decimal'], s))
    acc = acceptable(spec, answers, inputs)
    match_assign = None
    for r in acc:
        if all(r[b][0] == boxes[b][0] and r[b][1] == boxes[b][1] for b in range(n)):
            match_assign = r
            if all(abs(r[b][2] - boxes[b][2]) <= EPS for b in range(n)):
                if any(r[b][3] != boxes[b][3] for b in range(n)):
                    b = [b for b in range(n) if r[b][3] != boxes[b][3]][0]
                    return 'siblings', viol(tag + ':siblings-wrong', 'entry %d was given siblings %r, expected %r'
                                            % (b, boxes[b][3], r[b][3]), r[b][3], boxes[b][3])
                for b in range(n):
                    if entries[b]['ok'] != ok_of(r[b][2]):
                        return 'ok', viol(tag + ':entry-ok-wrong', 'entry %d has ok %r with grade %r'
                                          % (b, entries[b]['ok'], boxes[b][2]), ok_of(r[b][2]), entries[b])
                t = total(r)
                if all(abs(x[2] - 1) <= EPS for x in r):
                    return 'perfect', None
                if not spec.pc:
                    return 'zeroed', None
                return 'tot=%.3g' % t, None
    best = max(total(r) for r in acc)
    example = sorted(acc)[0]
    if match_assign is not None:
        return 'grade', viol(tag + ':entry-grade-wrong', 'inputs %r: grades %r, expected %r for the reported assignment %r'
                             % (inputs, [x[2] for x in boxes], [x[2] for x in match_assign], [(x[0], x[1]) for x in boxes]),
                             [x[2] for x in match_assign], [x[2] for x in boxes])
    return 'unacceptable', viol(tag + ':not-a-maximal-consistent-assignment',
                                'inputs %r: reported %r (total %r); the exhaustive search allows %d result(s) of total %r, e.g. %r'
                                % (inputs, [(x[0], x[1], x[2]) for x in boxes], sum(x[2] for x in boxes), len(acc), best,
                                   [(x[0], x[1], x[2]) for x in example]),
                                best, sum(x[2] for x in boxes))
