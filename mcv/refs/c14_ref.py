"""
Reference model for C14: strict linear algebra on plain Python numbers and nested lists.

Written from the property statement and docs/grading_math/matrix_grader/matrix_grader.md
("Allowed operations").  No numpy, no library code.

Values:   a Python int/float/complex (scalar)   or   a rectangular nested list (array).
Verdicts: a value, or RefError (the statement demands an error), or RefOpen (the statement does
          not decide: division by the number zero, 0 ** negative, complex-typed integer exponent).
"""
import itertools
from numbers import Number


class RefError(Exception):
    """the statement requires the operation to be refused"""


class RefOpen(Exception):
    """the statement leaves the outcome open"""


def is_num(x):
    return isinstance(x, Number) and not isinstance(x, bool)


def shape(x):
    if is_num(x):
        return ()
    return (len(x),) + shape(x[0])


def size(x):
    n = 1
    for d in shape(x):
        n *= d
    return n


def flat(x):
    if is_num(x):
        return [x]
    out = []
    for y in x:
        out.extend(flat(y))
    return out


def emap(f, x):
    if is_num(x):
        return f(x)
    return [emap(f, y) for y in x]


def emap2(f, x, y):
    if is_num(x):
        return f(x, y)
    return [emap2(f, a, b) for a, b in zip(x, y)]


def kind_name(x):
    return {0: 'number', 1: 'vector', 2: 'matrix'}.get(len(shape(x)), 'tensor')


# ----------------------------------------------------------------------------- operators

def neg(a):
    return emap(lambda t: -t, a)


def add(a, b):
    na, nb = is_num(a), is_num(b)
    if na and nb:
        return a + b
    if na or nb:
        num, arr = (a, b) if na else (b, a)
        if num == 0:
            return emap(lambda t: t + num, arr)       # value unchanged (type may widen)
        raise RefError('nonzero scalar added to / subtracted from an array')
    if shape(a) != shape(b):
        raise RefError('arrays of different shapes added / subtracted')
    return emap2(lambda s, t: s + t, a, b)


def sub(a, b):
    return add(a, neg(b))


def matmul(a, b):
    sa, sb = shape(a), shape(b)
    if len(sa) > 2 or len(sb) > 2:
        raise RefError('product involving a tensor')
    if len(sa) == 1 and len(sb) == 1:
        if sa != sb:
            raise RefError('dot product of vectors of different length')
        return sum(s * t for s, t in zip(a, b))
    if len(sa) == 2 and len(sb) == 1:
        if sa[1] != sb[0]:
            raise RefError('matrix * vector with mismatched inner dimension')
        return [sum(row[k] * b[k] for k in range(sb[0])) for row in a]
    if len(sa) == 1 and len(sb) == 2:
        if sa[0] != sb[0]:
            raise RefError('vector * matrix with mismatched inner dimension')
        return [sum(a[k] * b[k][j] for k in range(sa[0])) for j in range(sb[1])]
    if sa[1] != sb[0]:
        raise RefError('matrix * matrix with mismatched inner dimension')
    return [[sum(a[i][k] * b[k][j] for k in range(sa[1])) for j in range(sb[1])] for i in range(sa[0])]


def mul(a, b):
    na, nb = is_num(a), is_num(b)
    if na and nb:
        return a * b
    if na:
        return emap(lambda t: a * t, b)
    if nb:
        return emap(lambda t: t * b, a)
    return matmul(a, b)


def div(a, b):
    if not is_num(b):
        raise RefError('division by an array')
    if b == 0:
        raise RefOpen('division by the number zero')
    if is_num(a):
        return a / b
    return emap(lambda t: t / b, a)


def det(m):
    n = len(m)
    if n == 1:
        return m[0][0]
    total = 0
    for perm in itertools.permutations(range(n)):
        sign = 1
        for i in range(n):
            for j in range(i + 1, n):
                if perm[i] > perm[j]:
                    sign = -sign
        term = sign
        for i in range(n):
            term = term * m[i][perm[i]]
        total = total + term
    return total


def minor(m, i, j):
    return [[m[r][c] for c in range(len(m)) if c != j] for r in range(len(m)) if r != i]


def is_singular(m):
    d = det(m)
    scale = max(abs(t) for t in flat(m)) or 1
    return abs(d) <= 1e-9 * scale ** len(m)


def inverse(m):
    n = len(m)
    d = det(m)
    if n == 1:
        return [[1 / d]]
    return [[((-1) ** (i + j)) * det(minor(m, j, i)) / d for j in range(n)] for i in range(n)]


def identity(n):
    return [[1 if i == j else 0 for j in range(n)] for i in range(n)]


def integer_like(k):
    """True / False / raises RefOpen for complex-typed exponents with zero imaginary part."""
    if isinstance(k, int):
        return True
    if isinstance(k, float):
        return k == k and k not in (float('inf'), float('-inf')) and k == int(k)
    if isinstance(k, complex):
        if k.imag != 0:
            return False
        if k.real == int(k.real):
            raise RefOpen('complex-typed exponent with integer value')
        return False
    return False


def power(a, b, negpow=True):
    if is_num(a) and is_num(b):
        try:
            return a ** b
        except (ZeroDivisionError, OverflowError):
            raise RefOpen('numeric power undefined')
    if is_num(a):
        raise RefError('scalar raised to an array power')
    sa = shape(a)
    if len(sa) != 2:
        raise RefError('power of a %s' % kind_name(a))
    if sa[0] != sa[1]:
        raise RefError('power of a non-square matrix')
    if not is_num(b):
        raise RefError('array exponent')
    if not integer_like(b):
        raise RefError('non-integer power of a matrix')
    k = int(b.real) if isinstance(b, complex) else int(b)
    if k < 0 and not negpow:
        raise RefError('negative matrix powers are disabled')
    if k < 0 and is_singular(a):
        raise RefError('negative power of a singular matrix')
    result = identity(sa[0])
    for _ in range(abs(k)):
        result = matmul(result, a)
    if k < 0:
        result = inverse(result)
    return result


OPS = {'+': add, '-': sub, '*': mul, '/': div, '^': power}


def binop(op, a, b, negpow=True):
    if op == '^':
        return power(a, b, negpow)
    return OPS[op](a, b)


def chain(factors, ops):
    """
    Flat product  f0 op1 f1 op2 f2 ...  (ops in '*', '/'), evaluated left to right, with the
    statement's extra rule: three or more vectors in one chained product are refused.
    """
    nvec = sum(1 for f in factors if len(shape(f)) == 1)
    if nvec >= 3:
        raise RefError('three or more vectors in one chained product')
    result = factors[0]
    for op, f in zip(ops, factors[1:]):
        result = binop(op, result, f)
    return result


# ----------------------------------------------------------------------------- entrywise / structural functions

def get(x, idx):
    for i in idx:
        x = x[i]
    return x


def build(shp, f, prefix=()):
    """nested list of the given shape with entry f(index tuple)"""
    if not shp:
        return f(prefix)
    return [build(shp[1:], f, prefix + (i,)) for i in range(shp[0])]


def transpose(x):
    """all axes reversed (a vector or number is its own transpose)"""
    s = shape(x)
    if len(s) <= 1:
        return emap(lambda t: t, x)
    return build(tuple(reversed(s)), lambda idx: get(x, tuple(reversed(idx))))


def conj(x):
    return emap(lambda t: t.conjugate() if isinstance(t, complex) else t, x)


def re(x):
    return emap(lambda t: t.real if isinstance(t, complex) else t, x)


def im(x):
    return emap(lambda t: t.imag if isinstance(t, complex) else 0, x)


def cross(a, b):
    if shape(a) != (3,) or shape(b) != (3,):
        raise RefOpen('cross product outside 3-vectors')
    return [a[1] * b[2] - b[1] * a[2], a[2] * b[0] - b[2] * a[0], a[0] * b[1] - b[0] * a[1]]


# ----------------------------------------------------------------------------- comparison

def close(e, o, tol=1e-9):
    try:
        return abs(e - o) <= tol * (1 + abs(e))
    except TypeError:
        return False


def same_value(expected, observed_list, tol=1e-9):
    """expected and observed_list are numbers or nested lists of identical shape"""
    if is_num(expected):
        return is_num(observed_list) and close(expected, observed_list, tol)
    if is_num(observed_list) or len(expected) != len(observed_list):
        return False
    return all(same_value(e, o, tol) for e, o in zip(expected, observed_list))
