"""
Reference model for C12 ("every random draw satisfies all constraints its sampling set declares").

Everything here is written from the property statement and the user documentation
(docs/grading_math/sampling.md and the class docstrings), not from the sampling code:

  * membership tests for the declared scalar sets (interval, integer range, rectangle, annular sector);
  * the table of SquareMatrices option combinations that the documentation says are refused;
  * a pure-Python determinant (Gaussian elimination with partial pivoting on Python complex numbers),
    so that the determinant contract is not judged by the same LAPACK call the library uses;
  * array judgements (type, shape, realness, Frobenius norm, triangularity, symmetry, trace, determinant),
    all computed on plain-ndarray copies / Python numbers.

Guard bands: REL = 1e-9 relative for norms/moduli/intervals, 1e-9 * scale for trace/determinant
("to numerical precision"), 1e-12 relative for symmetry.
"""
import math
import cmath
import numbers

import numpy as np

REL = 1e-9
TWO_PI = 2 * math.pi


# --------------------------------------------------------------------------- scalar sets

def ordered(pair):
    a, b = pair
    return (a, b) if a <= b else (b, a)


def is_real_number(x):
    """a real scalar: Python/NumPy int or float, not bool, not complex, not an array"""
    if isinstance(x, (bool, np.bool_)):
        return False
    if isinstance(x, np.ndarray):
        return False
    return isinstance(x, numbers.Real)


def is_integer_number(x):
    if isinstance(x, (bool, np.bool_)):
        return False
    return isinstance(x, (int, np.integer))


def is_complex_scalar(x):
    if isinstance(x, (bool, np.bool_, np.ndarray)):
        return False
    return isinstance(x, numbers.Complex)


def interval_problem(x, pair, what='value'):
    """None when real x lies in the closed interval spanned by pair (either order), else a reason."""
    lo, hi = ordered(pair)
    if not is_real_number(x):
        return '%s %r is not a real scalar' % (what, x)
    x = float(x)
    if math.isnan(x) or math.isinf(x):
        return '%s is %r' % (what, x)
    tol = REL * max(1.0, abs(lo), abs(hi))
    if x < lo - tol or x > hi + tol:
        return '%s %r outside [%r, %r]' % (what, x, lo, hi)
    return None


def integer_problem(x, pair):
    lo, hi = ordered(pair)
    if not is_integer_number(x):
        return 'sample %r (%s) is not an integer' % (x, type(x).__name__)
    if not (lo <= int(x) <= hi):
        return 'integer %r outside [%r, %r]' % (x, lo, hi)
    return None


def rectangle_problem(z, re, im):
    if not is_complex_scalar(z):
        return 'sample %r is not a complex scalar' % (z,)
    z = complex(z)
    return (interval_problem(z.real, re, 'real part') or interval_problem(z.imag, im, 'imaginary part'))


def sector_problem(z, modulus, argument):
    """
    Declared set: { m * exp(i t) : m in modulus interval, t in argument interval } (either order of the
    bounds).  A negative m is the point of modulus |m| at angle t + pi, so both signs are tried.
    """
    if not is_complex_scalar(z):
        return 'sample %r is not a complex scalar' % (z,)
    z = complex(z)
    if cmath.isnan(z) or cmath.isinf(z):
        return 'sample is %r' % (z,)
    m1, m2 = ordered(modulus)
    a1, a2 = ordered(argument)
    r = abs(z)
    mtol = REL * max(1.0, abs(m1), abs(m2))
    width = a2 - a1
    atol = 1e-9 * max(1.0, abs(a1), abs(a2))
    for s in (1, -1):
        m = s * r
        if not (m1 - mtol <= m <= m2 + mtol):
            continue
        if r <= mtol:
            return None                     # the origin has every argument
        if width >= TWO_PI - atol:
            return None
        theta = cmath.phase(z) + (math.pi if s < 0 else 0.0)
        d = (theta - a1) % TWO_PI
        if d <= width + atol or d >= TWO_PI - atol:
            return None
    return 'sample %r (modulus %r, phase %r) not in sector modulus[%r, %r] x argument[%r, %r]' % (
        z, r, cmath.phase(z), m1, m2, a1, a2)


def scalar_problem(desc, x):
    """desc: ('real', [a,b]) | ('int', [a,b]) | ('rect', re, im) | ('sector', mod, arg)"""
    kind = desc[0]
    if kind == 'real':
        return interval_problem(x, desc[1], 'sample')
    if kind == 'int':
        return integer_problem(x, desc[1])
    if kind == 'rect':
        return rectangle_problem(x, desc[1], desc[2])
    if kind == 'sector':
        return sector_problem(x, desc[1], desc[2])
    raise ValueError(desc)


# --------------------------------------------------------------------------- SquareMatrices table

SYMMETRIES = (None, 'diagonal', 'symmetric', 'antisymmetric', 'hermitian', 'antihermitian')


def square_refusal(dim, sym, traceless, det, cplx):
    """
    The documented refusals (class docstring "we also can't handle ..." and "special cases that don't
    exist"; sampling.md: "some combinations of options do not exist ... an error message will result").
    Returns None when the combination must be accepted, else a short name of the documented reason.
    hermitian / antihermitian imply complex.
    """
    eff_complex = bool(cplx) or sym in ('hermitian', 'antihermitian')
    if det == 0:
        if traceless:
            return 'det0-traceless'
        if sym == 'antisymmetric':
            if eff_complex:
                return 'det0-antisymmetric-complex'
            if dim % 2 == 0:
                return 'det0-antisymmetric-real-even'
    if det == 1:
        if dim == 2 and traceless:
            if sym == 'diagonal' and not eff_complex:
                return 'det1-2x2-traceless-real-diagonal'
            if sym == 'symmetric' and not eff_complex:
                return 'det1-2x2-traceless-real-symmetric'
            if sym == 'hermitian':
                return 'det1-2x2-traceless-hermitian'
        if dim % 2 == 1 and sym == 'antisymmetric':
            return 'det1-odd-antisymmetric'
        if dim % 2 == 1 and sym == 'antihermitian':
            return 'det1-odd-antihermitian'
    return None


# --------------------------------------------------------------------------- linear algebra on Python numbers

def ref_det(rows):
    """determinant by Gaussian elimination with partial pivoting on Python complex numbers"""
    a = [[complex(v) for v in r] for r in rows]
    n = len(a)
    det = 1 + 0j
    for c in range(n):
        p = max(range(c, n), key=lambda r: abs(a[r][c]))
        if a[p][c] == 0:
            return 0j
        if p != c:
            a[c], a[p] = a[p], a[c]
            det = -det
        piv = a[c][c]
        det *= piv
        for r in range(c + 1, n):
            f = a[r][c] / piv
            if f != 0:
                ar, ac = a[r], a[c]
                for k in range(c + 1, n):
                    ar[k] -= f * ac[k]
    return det


def frobenius(arr):
    flat = np.asarray(arr).reshape(-1).tolist()
    return math.sqrt(sum((v.real * v.real + v.imag * v.imag) if isinstance(v, complex) else v * v
                         for v in flat))


# --------------------------------------------------------------------------- array judgements

def plain(sample):
    """a plain ndarray copy (MathArray refuses array + scalar, which numpy helpers do internally)"""
    return np.array(np.asarray(sample), copy=True).view(np.ndarray)


def basic_array_problem(sample, MathArray, shape, want_complex, forced_real=False):
    """
    type, shape, finiteness, realness / complexness.  Returns (sig_suffix, message) or None.
    A complex sampler must give a complex-typed array with some non-zero imaginary part, except where the
    other declared constraints force real entries (forced_real: the array must then only be complex-typed).
    """
    if not isinstance(sample, MathArray):
        return ('not-matharray', 'sample is %s, not MathArray' % type(sample).__name__)
    a = plain(sample)
    if tuple(a.shape) != tuple(shape):
        return ('shape', 'shape %r, declared %r' % (tuple(a.shape), tuple(shape)))
    if a.dtype.kind not in 'fc':
        return ('dtype', 'dtype %s is neither float nor complex' % a.dtype)
    if not np.all(np.isfinite(a)):
        return ('not-finite', 'sample has nan/inf entries')
    if want_complex is False:
        if a.dtype.kind == 'c' and np.any(a.imag != 0):
            return ('not-real', 'real sampler gave entries with non-zero imaginary part')
    elif want_complex is True:
        if a.dtype.kind != 'c' or not (forced_real or np.any(a.imag != 0)):
            return ('not-complex', 'complex sampler gave a purely real array (dtype %s)' % a.dtype)
    return None


def norm_problem(a, norm):
    lo, hi = ordered(norm)
    nrm = frobenius(a)
    tol = REL * max(1.0, abs(lo), abs(hi))
    if nrm < lo - tol or nrm > hi + tol:
        return ('norm', 'Frobenius norm %r outside [%r, %r]' % (nrm, lo, hi))
    return None


def triangular_problem(a, triangular):
    if triangular is None:
        return None
    m, n = a.shape
    for i in range(m):
        for j in range(n):
            zero_expected = (i > j) if triangular == 'upper' else (i < j)
            if zero_expected and a[i, j] != 0:
                return ('triangular', '%s triangular sampler: entry [%d,%d] = %r is not zero'
                        % (triangular, i, j, a[i, j]))
    return None


def symmetry_problem(a, sym):
    if sym is None:
        return None
    scale = float(np.max(np.abs(a))) if a.size else 0.0
    tol = 1e-12 * scale
    t = a.T
    if sym == 'diagonal':
        off = a - np.diag(np.diag(a))
        bad = float(np.max(np.abs(off)))
        if bad != 0:
            return ('symmetry', 'diagonal sampler: off-diagonal entry of size %r' % bad)
        return None
    target = {'symmetric': t, 'antisymmetric': -t, 'hermitian': np.conj(t), 'antihermitian': -np.conj(t)}[sym]
    bad = float(np.max(np.abs(a - target)))
    if bad > tol:
        return ('symmetry', '%s sampler: max |M - M^%s| = %r (max entry %r)' % (sym, sym, bad, scale))
    return None


def trace_problem(a):
    n = a.shape[0]
    tr = sum(complex(a[i, i]) for i in range(n))
    scale = max(1.0, frobenius(a))
    if abs(tr) > REL * scale:
        return ('trace', 'traceless sampler: |trace| = %r (Frobenius norm %r)' % (abs(tr), frobenius(a)))
    return None


def det_problem(a, det):
    """|det - 1| resp. |det| <= 1e-9 * scale, scale = max(1, (||M||_F / sqrt(n))^n) (Hadamard-type size)"""
    n = a.shape[0]
    fro = frobenius(a)
    size = (fro / math.sqrt(n)) ** n
    d = ref_det(a.tolist())
    d_np = complex(np.linalg.det(a))
    if det == 1:
        tol = REL * max(1.0, size)
        if abs(d - 1) > tol or abs(d_np - 1) > tol:
            return ('det1', 'unit-determinant sampler: det = %r (numpy %r), tolerance %.3g' % (d, d_np, tol))
    elif det == 0:
        tol = REL * size
        if abs(d) > tol or abs(d_np) > tol:
            return ('det0', 'zero-determinant sampler: |det| = %r (numpy %r), tolerance %.3g (norm %r)'
                    % (abs(d), abs(d_np), tol, fro))
    return None


# --------------------------------------------------------------------------- declared sets as descriptors

def square_problem(sample, MathArray, dim, sym, traceless, det, cplx, norm):
    """every declared constraint of one SquareMatrices configuration; (sig_suffix, message) or None"""
    eff = bool(cplx) or sym in ('hermitian', 'antihermitian')
    # a 2x2 antisymmetric matrix [[0,a],[-a,0]] with determinant a^2 = 1 is necessarily real
    forced_real = (dim == 2 and sym == 'antisymmetric' and det == 1)
    bad = basic_array_problem(sample, MathArray, (dim, dim), eff, forced_real)
    if bad:
        return bad
    a = plain(sample)
    bad = symmetry_problem(a, sym)
    if bad:
        return bad
    if traceless:
        bad = trace_problem(a)
        if bad:
            return bad
    if det is not None:
        bad = det_problem(a, det)
        if bad:
            return bad
    if det != 1:
        bad = norm_problem(a, norm)
        if bad:
            return bad
    return None


def identity_problem(sample, MathArray, d, desc):
    """sample must be (member of the scalar set desc) * identity(d), exactly"""
    if not isinstance(sample, MathArray):
        return ('not-matharray', 'sample is %s, not MathArray' % type(sample).__name__)
    a = plain(sample)
    if a.shape != (d, d):
        return ('shape', 'shape %r, declared %r' % (a.shape, (d, d)))
    for i in range(d):
        for j in range(d):
            if i != j and a[i, j] != 0:
                return ('off-diagonal', 'entry [%d,%d] = %r is not zero' % (i, j, a[i, j]))
            if i == j and not (a[i, i] == a[0, 0]):
                return ('diagonal-differs', 'diagonal entries %r and %r differ' % (a[0, 0], a[i, i]))
    v = a[0, 0].item()
    if desc[0] == 'int':
        # the matrix is scalar * eye (float): the multiple must be an integer of the range
        if v != int(v):
            return ('scalar-outside', 'multiple %r is not an integer' % (v,))
        v = int(v)
    elif desc[0] in ('rect', 'sector'):
        v = complex(v)
    why = scalar_problem(desc, v)
    if why:
        return ('scalar-outside', why)
    return None


def declared_problem(desc, sample, MathArray):
    """
    desc: ('real'|'int', [a,b]) | ('rect', re, im) | ('sector', mod, arg)
        | ('array', shape, complex, norm, triangular) | ('identity', d, scalar desc)
        | ('square', dim, sym, traceless, det, complex, norm) | ('member', [numbers])
    Returns (sig_suffix, message) or None.
    """
    kind = desc[0]
    if kind in ('real', 'int', 'rect', 'sector'):
        why = scalar_problem(desc, sample)
        return ('outside', why) if why else None
    if kind == 'member':
        if not is_complex_scalar(sample) or not any(sample == m for m in desc[1]):
            return ('not-a-listed-member', 'sample %r is not one of %r' % (sample, desc[1]))
        return None
    if kind == 'array':
        _, shape, cplx, norm, tri = desc
        bad = basic_array_problem(sample, MathArray, tuple(shape), bool(cplx))
        if bad:
            return bad
        a = plain(sample)
        return norm_problem(a, norm) or (triangular_problem(a, tri) if tri else None)
    if kind == 'identity':
        return identity_problem(sample, MathArray, desc[1], desc[2])
    if kind == 'square':
        return square_problem(sample, MathArray, *desc[1:])
    raise ValueError(desc)
