"""
Reference model of the documented expression language (independent of pyparsing and of
the implementation): a scannerless recursive-descent parser and an evaluator on Python
float/complex (arrays only for the simplest operations; anything else involving arrays is
reported as ANY = "not constrained here", C14 covers array arithmetic).

Grammar (docs + property C03):
    sum      := ['+'] product (('+'|'-') product)*
    product  := parallel (('*'|'/') parallel)*
    parallel := negation ('||' negation)*
    negation := ['-'] power
    power    := atom ('^' ['-'] atom)*                      right-associative
    atom     := number | name '(' sum (',' sum)* ')' | name | '(' sum ')' | '[' sum (',' sum)* ']'
    number   := (digits ['.' [digits]] | '.' digits) [('e'|'E') ['+'|'-'] digits] [suffix]
    suffix   := (letter | '%')+
    name     := letter alnum* ( (alnum|'_')+ not followed by '{'
                              | ['_{' ['-'] alnum+ '}'] ['^{' ['-'] alnum+ '}'] ) "'"*
Spaces are removed everywhere before parsing; tab / CR / LF may separate tokens (not inside
numbers and names).  An em-dash is a minus sign.
"""
import re
import math
import cmath

WS = '\t\n\r '
MINUS = ('-', '—')

NUM_RE = re.compile(r'(?:[0-9]+(?:\.[0-9]*)?|\.[0-9]+)')
EXP_RE = re.compile(r'[eE][+\-—]?[0-9]+')
SUFFIX_RE = re.compile(r'[A-Za-z%]+')
NAME_RE = re.compile(
    r"[A-Za-z][A-Za-z0-9]*"
    r"(?:(?:[A-Za-z0-9_]++(?!\{))|(?:(?:_\{-?[A-Za-z0-9]+\})?(?:\^\{-?[A-Za-z0-9]+\})?))"
    r"'*")


class RefParseError(Exception):
    pass


class Parser(object):
    def __init__(self, text):
        self.s = text.replace(' ', '')
        self.i = 0
        self.variables = set()
        self.functions = set()
        self.suffixes = set()

    # -- helpers
    def skip(self):
        s, i = self.s, self.i
        while i < len(s) and s[i] in WS:
            i += 1
        self.i = i

    def peek(self, lit):
        self.skip()
        return self.s.startswith(lit, self.i)

    def accept(self, lit):
        self.skip()
        if self.s.startswith(lit, self.i):
            self.i += len(lit)
            return True
        return False

    def accept_minus(self):
        self.skip()
        if self.i < len(self.s) and self.s[self.i] in MINUS:
            self.i += 1
            return True
        return False

    def accept_pipes(self):
        # '|' '|' : two literals, whitespace allowed between them
        save = self.i
        if self.accept('|') and self.accept('|'):
            return True
        self.i = save
        return False

    def fail(self, why):
        raise RefParseError('%s at %d in %r' % (why, self.i, self.s))

    # -- grammar
    def parse(self):
        check_brackets(self.s)
        if self.s.strip(WS) == '':
            self.fail('empty')
        node = self.sum()
        self.skip()
        if self.i != len(self.s):
            self.fail('trailing input')
        return node

    def sum(self):
        lead = self.accept('+')
        node = self.product()
        if lead:
            node = ('pos', node)
        while True:
            if self.accept('+'):
                node = ('add', node, self.product())
            elif self.accept_minus():
                node = ('sub', node, self.product())
            else:
                return node

    def product(self):
        node = self.parallel()
        items = [node]
        ops = []
        while True:
            if self.accept('*'):
                ops.append('*')
                items.append(self.parallel())
            elif self.accept('/'):
                ops.append('/')
                items.append(self.parallel())
            else:
                break
        if not ops:
            return node
        return ('prod', items, ops)

    def parallel(self):
        items = [self.negation()]
        while self.accept_pipes():
            items.append(self.negation())
        if len(items) == 1:
            return items[0]
        return ('par', items)

    def negation(self):
        if self.accept_minus():
            return ('neg', self.power())
        return self.power()

    def power(self):
        atoms = [self.atom()]
        signs = []
        while self.accept('^'):
            signs.append(self.accept_minus())
            atoms.append(self.atom())
        # right to left: a ^ [-] b ^ [-] c  =  a ^ (+-(b ^ (+-c)))
        node = atoms[-1]
        for k in range(len(atoms) - 2, -1, -1):
            if signs[k]:
                node = ('neg', node)
            node = ('pow', atoms[k], node)
        return node

    def atom(self):
        self.skip()
        s, i = self.s, self.i
        if i >= len(s):
            self.fail('unexpected end')
        m = NUM_RE.match(s, i)
        if m:
            j = m.end()
            e = EXP_RE.match(s, j)
            if e:
                j = e.end()
            text = s[i:j].replace('—', '-')
            self.i = j
            self.skip()
            sm = SUFFIX_RE.match(s, self.i)
            suffix = None
            if sm:
                suffix = sm.group(0)
                self.i = sm.end()
                self.suffixes.add(suffix)
            else:
                self.i = j
            return ('num', float(text), suffix)
        m = NAME_RE.match(s, i)
        if m:
            name = m.group(0)
            self.i = m.end()
            if self.accept('('):
                args = [self.sum()]
                while self.accept(','):
                    args.append(self.sum())
                if not self.accept(')'):
                    self.fail('expected )')
                self.functions.add(name)
                return ('func', name, args)
            self.i = m.end()
            self.variables.add(name)
            return ('var', name)
        if self.accept('('):
            node = self.sum()
            if not self.accept(')'):
                self.fail('expected )')
            return ('paren', node)
        if self.accept('['):
            elems = [self.sum()]
            while self.accept(','):
                elems.append(self.sum())
            if not self.accept(']'):
                self.fail('expected ]')
            return ('arr', elems)
        self.fail('unexpected character')


def check_brackets(s):
    pairs = {')': '(', ']': '[', '}': '{'}
    stack = []
    for ch in s:
        if ch in '([{':
            stack.append(ch)
        elif ch in pairs:
            if not stack or stack.pop() != pairs[ch]:
                raise RefParseError('unbalanced brackets in %r' % s)
    if stack:
        raise RefParseError('unbalanced brackets in %r' % s)


def parse(text):
    """Returns (ast, variables, functions, suffixes) or raises RefParseError."""
    p = Parser(text)
    ast = p.parse()
    return ast, p.variables, p.functions, p.suffixes


# ------------------------------------------------------------------------ evaluation

class RefEvalError(Exception):
    def __init__(self, kind, detail=''):
        Exception.__init__(self, kind + ': ' + detail)
        self.kind = kind


class AnyOutcome(Exception):
    """The reference does not constrain this expression (array arithmetic beyond + - scalar* /scalar)."""


def is_arr(v):
    return isinstance(v, list)


def shape_of(v):
    if not is_arr(v):
        return ()
    return (len(v),) + shape_of(v[0])


def size_of(v):
    n = 1
    for d in shape_of(v):
        n *= d
    return n if is_arr(v) else 0


def arr_map(f, v):
    if is_arr(v):
        return [arr_map(f, e) for e in v]
    return f(v)


def arr_zip(f, a, b):
    if is_arr(a):
        return [arr_zip(f, x, y) for x, y in zip(a, b)]
    return f(a, b)


def finite_check(v):
    if is_arr(v):
        for e in v:
            finite_check(e)
        return
    if isinstance(v, complex):
        if cmath.isinf(v):
            raise RefEvalError('overflow')
    elif math.isinf(v):
        raise RefEvalError('overflow')


def isnan(v):
    if is_arr(v):
        return any(isnan(e) for e in v)
    return cmath.isnan(v) if isinstance(v, complex) else math.isnan(v)


def evaluate(ast, variables, functions, suffixes, scope_checked=False):
    """
    variables: name -> float/complex/nested list; functions: name -> (arity, python callable on scalars);
    suffixes: name -> multiplier.  Returns a float/complex/nested list, or raises RefEvalError(kind)
    with kind in {undefvar, undeffunc, zerodiv, overflow, shape, domain}, or AnyOutcome.
    """
    try:
        v = _ev(ast, variables, functions, suffixes)
    except ZeroDivisionError:
        raise RefEvalError('zerodiv')
    except OverflowError:
        raise RefEvalError('overflow')
    return v


def scope_errors(vars_used, funcs_used, sufs_used, variables, functions, suffixes):
    kinds = set()
    if any(v not in variables for v in vars_used):
        kinds.add('undefvar')
    if any(f not in functions for f in funcs_used):
        kinds.add('undeffunc')
    if any(s not in suffixes for s in sufs_used):
        kinds.add('undeffunc')       # the library reports an unknown suffix as an undefined function
    return kinds


def _num(v):
    """python scalar normalisation: ints become floats"""
    if isinstance(v, bool):
        return float(v)
    if isinstance(v, int):
        return float(v)
    return v


def _ev(n, V, F, S):
    v = _ev1(n, V, F, S)
    if isnan(v):
        return float('nan')
    finite_check(v)
    return v


def _ev1(n, V, F, S):
    t = n[0]
    if t == 'num':
        v = n[1]
        if n[2] is not None:
            v = v * S[n[2]]
        return v
    if t == 'var':
        v = V[n[1]]
        return arr_map(_num, v) if is_arr(v) else _num(v)
    if t == 'paren':
        return _ev(n[1], V, F, S)
    if t == 'pos':
        return _ev(n[1], V, F, S)
    if t == 'neg':
        v = _ev(n[1], V, F, S)
        return arr_map(lambda e: -e, v) if is_arr(v) else -v
    if t == 'arr':
        elems = [_ev(e, V, F, S) for e in n[1]]
        if any(isnan(e) for e in elems):
            return float('nan')
        shapes = set(shape_of(e) for e in elems)
        if len(shapes) != 1:
            raise RefEvalError('shape', 'ragged array')
        return elems
    if t == 'func':
        args = [_ev(a, V, F, S) for a in n[2]]
        if any(isnan(a) for a in args):
            return float('nan')
        arity, fn = F[n[1]]
        if arity is not None and arity != len(args):
            raise RefEvalError('domain', 'wrong number of arguments')
        if any(is_arr(a) for a in args):
            raise AnyOutcome()
        return fn(*args)
    if t == 'pow':
        b = _ev(n[1], V, F, S)
        e = _ev(n[2], V, F, S)
        if isnan(b) or isnan(e):
            return float('nan')
        if is_arr(b) or is_arr(e):
            raise AnyOutcome()
        return b ** e
    if t == 'par':
        vals = [_ev(e, V, F, S) for e in n[1]]
        if any(isnan(x) for x in vals):
            return float('nan')
        if any(is_arr(x) for x in vals):
            raise AnyOutcome()
        if any(x == 0 for x in vals):
            return 0.0
        return 1.0 / sum(1.0 / x for x in vals)
    if t == 'prod':
        vals = [_ev(e, V, F, S) for e in n[1]]
        if any(isnan(x) for x in vals):
            return float('nan')
        r = vals[0]
        for op, x in zip(n[2], vals[1:]):
            if op == '*':
                if is_arr(r) and is_arr(x):
                    raise AnyOutcome()
                if is_arr(r):
                    r = arr_map(lambda e, x=x: e * x, r)
                elif is_arr(x):
                    r = arr_map(lambda e, r=r: r * e, x)
                else:
                    r = r * x
            else:
                if is_arr(x):
                    raise RefEvalError('shape', 'division by an array')
                if is_arr(r):
                    if x == 0:
                        raise AnyOutcome()      # array / 0: error kind not constrained here
                    r = arr_map(lambda e, x=x: e / x, r)
                else:
                    r = r / x
            if isnan(r):
                return float('nan')
            finite_check(r)
        return r
    if t in ('add', 'sub'):
        a = _ev(n[1], V, F, S)
        b = _ev(n[2], V, F, S)
        if isnan(a) or isnan(b):
            return float('nan')
        f = (lambda x, y: x + y) if t == 'add' else (lambda x, y: x - y)
        if is_arr(a) or is_arr(b):
            if size_of(a) == 1 or size_of(b) == 1:
                raise AnyOutcome()      # single-entry arrays: the library treats them like numbers (outside C14's shape set)
            if is_arr(a) and is_arr(b):
                if shape_of(a) != shape_of(b):
                    raise RefEvalError('shape', 'adding arrays of different shapes')
                return arr_zip(f, a, b)
            # array +- scalar: only a zero scalar is legal (C14); leave the zero case to C14
            sc = b if is_arr(a) else a
            if sc == 0:
                raise AnyOutcome()
            raise RefEvalError('shape', 'adding a scalar to an array')
        return f(a, b)
    raise ValueError('unknown node %r' % (t,))


def close(a, b, rel=1e-9):
    """numeric agreement of two reference/implementation values (scalars or nested lists)"""
    if is_arr(a) or is_arr(b):
        if not (is_arr(a) and is_arr(b)) or len(a) != len(b):
            return False
        return all(close(x, y, rel) for x, y in zip(a, b))
    try:
        if isnan(a) or isnan(b):
            return isnan(a) and isnan(b)
        return abs(a - b) <= rel * max(1.0, abs(a), abs(b))
    except TypeError:
        return False


# ------------------------------------------------------------------------ dialects for chains

STANDARD = {'levels': [['+', '-'], ['*', '/'], ['||'], ['NEG'], ['^']],
            'right': {'^'}}


def eval_chain(leaves, ops, negs, dialect=STANDARD):
    """
    Evaluates  [-]l0 o1 [-]l1 o2 ... on floats under a *parametrised* precedence table, used only to
    measure whether a chain can distinguish the documented grammar from plausible wrong ones.
    `levels` lists operator classes from loosest to tightest; 'NEG' places the unary minus;
    `right` is the set of right-associative operators.  Returns a number or None on arithmetic failure.
    """
    levels = dialect['levels']
    right = dialect['right']
    prec = {}
    for k, ops_at in enumerate(levels):
        for o in ops_at:
            prec[o] = k
    toks = []
    for k, leaf in enumerate(leaves):
        if negs[k]:
            toks.append('NEG')
        toks.append(leaf)
        if k < len(ops):
            toks.append(ops[k])
    pos = [0]

    def apply(o, a, b):
        if o == '+':
            return a + b
        if o == '-':
            return a - b
        if o == '*':
            return a * b
        if o == '/':
            return a / b
        if o == '^':
            return a ** b
        if o == '||':
            if a == 0 or b == 0:
                return 0.0
            return 1.0 / (1.0 / a + 1.0 / b)
        raise ValueError(o)

    def parse_expr(minp):
        t = toks[pos[0]]
        if t == 'NEG':
            pos[0] += 1
            lhs = -parse_expr(prec['NEG'])
        else:
            pos[0] += 1
            lhs = t
        while pos[0] < len(toks):
            o = toks[pos[0]]
            if o == 'NEG' or prec[o] < minp:
                break
            pos[0] += 1
            nxt = prec[o] if o in right else prec[o] + 1
            rhs = parse_expr(nxt)
            lhs = apply(o, lhs, rhs)
        return lhs

    try:
        v = parse_expr(0)
        if isinstance(v, complex):
            if cmath.isnan(v) or cmath.isinf(v):
                return None
        elif math.isnan(v) or math.isinf(v):
            return None
        return v
    except (ZeroDivisionError, OverflowError):
        return None


WRONG_DIALECTS = {
    'parallel_below_product': {'levels': [['+', '-'], ['||'], ['*', '/'], ['NEG'], ['^']], 'right': {'^'}},
    'neg_above_power': {'levels': [['+', '-'], ['*', '/'], ['||'], ['^'], ['NEG']], 'right': {'^'}},
    'neg_below_parallel': {'levels': [['+', '-'], ['*', '/'], ['NEG'], ['||'], ['^']], 'right': {'^'}},
    'power_left_assoc': {'levels': [['+', '-'], ['*', '/'], ['||'], ['NEG'], ['^']], 'right': set()},
    'product_right_assoc': {'levels': [['+', '-'], ['*', '/'], ['||'], ['NEG'], ['^']], 'right': {'^', '*', '/'}},
    'sum_right_assoc': {'levels': [['+', '-'], ['*', '/'], ['||'], ['NEG'], ['^']], 'right': {'^', '+', '-'}},
    'sum_product_same_level': {'levels': [['+', '-', '*', '/'], ['||'], ['NEG'], ['^']], 'right': {'^'}},
    'parallel_below_sum': {'levels': [['||'], ['+', '-'], ['*', '/'], ['NEG'], ['^']], 'right': {'^'}},
    'div_below_mul': {'levels': [['+', '-'], ['/'], ['*'], ['||'], ['NEG'], ['^']], 'right': {'^'}},
}
