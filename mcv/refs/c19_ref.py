"""
Reference model for C19 (SumGrader): exact sums over explicit index sets.

Written from the property statement and docs/grading_math/sum_grader.md:
  * the sum runs over all integers between the two limits inclusive, whatever their order;
  * even_odd = 1 keeps only the odd integers, 2 only the even ones;
  * an infinite limit is replaced by the configured cut-off (infty -> +C, -infty -> -C);
  * the value of the sum is compared with the author's "within tolerance" (absolute number, or a
    percentage of the author's value; arrays by the norm of the difference).

Values are exact: a value is a tuple of components, each component a pair (re, im) of Fractions
(a scalar is a 1-tuple, a vector an n-tuple).  `None` stands for the empty sum.
Nothing here imports the library.
"""
import math
from fractions import Fraction as F

INF = 'inf'
NINF = '-inf'


# ---------------------------------------------------------------- exact values

def R(v):
    return ((F(v), F(0)),)


def C(re, im):
    return ((F(re), F(im)),)


def V(*comps):
    return tuple((F(c), F(0)) for c in comps)


_IPOW = ((1, 0), (0, 1), (-1, 0), (0, -1))


def ipow(n):
    re, im = _IPOW[n % 4]
    return C(re, im)


def vadd(u, w):
    if len(u) != len(w):
        raise ValueError('shape mismatch in reference')
    return tuple((a[0] + b[0], a[1] + b[1]) for a, b in zip(u, w))


def vscale(u, s):
    s = F(s)
    return tuple((a[0] * s, a[1] * s) for a in u)


def vshift(u, e):
    """add the real number e to every component"""
    e = F(e)
    return tuple((a[0] + e, a[1]) for a in u)


def norm2(u):
    return sum((a[0] * a[0] + a[1] * a[1] for a in u), F(0))


def fnorm(u):
    n2 = norm2(u)
    if n2 == 0:
        return 0.0
    # exact-ish square root of a Fraction without overflowing floats
    num, den = n2.numerator, n2.denominator
    return math.exp(0.5 * (_ln(num) - _ln(den)))


def _ln(k):
    # natural log of a (possibly huge) positive integer
    bl = k.bit_length()
    if bl <= 1000:
        return math.log(k)
    sh = bl - 900
    return math.log(k >> sh) + sh * math.log(2.0)


# ---------------------------------------------------------------- index sets

def index_set(lo, hi, parity, cutoff):
    """
    lo, hi: int, INF or NINF (in either order).  parity 0 all / 1 odd / 2 even.
    Returns the list of integers summed over, or the string 'degenerate' when both limits are the
    same infinity (nothing is stated for that).
    """
    if lo in (INF, NINF) and lo == hi:
        return 'degenerate'
    conv = []
    for t in (lo, hi):
        if t == INF:
            conv.append(int(cutoff))
        elif t == NINF:
            conv.append(-int(cutoff))
        else:
            conv.append(int(t))
    a, b = min(conv), max(conv)
    if parity == 0:
        return list(range(a, b + 1))
    want = 1 if parity == 1 else 0
    return [n for n in range(a, b + 1) if n % 2 == want]


def ref_sum(f, idx, x=None):
    """exact sum of f(n, x) over idx; None for the empty sum"""
    tot = None
    for n in idx:
        v = f(n, x)
        tot = v if tot is None else vadd(tot, v)
    return tot


# ---------------------------------------------------------------- verdict at one sample

def tol_threshold(tol, author):
    """tolerance as an absolute number: a number as is, 'p%' as p/100 of the norm of the author's value"""
    if isinstance(tol, str):
        pct = float(tol.strip().rstrip('%')) / 100.0
        return pct * (fnorm(author) if author is not None else 0.0)
    return float(tol)


def compare(author, student, tol, exact_floats=True):
    """
    'correct' / 'incorrect' / 'open' / 'shape' for one sample.
      shape : exactly one side is an empty sum and the other is an array (comparison of the number 0
              with an array: nothing stated) -- caller decides; 'shape-zero' when that array is all zeros.
      open  : the difference is inside the guard band around the tolerance, or the tolerance is
              effectively zero and the floating-point evaluation is not exact (then only differences
              beyond 1e-7 are judged; with exact terms the band is the rounding noise of the summation).
    """
    if author is None and student is None:
        return 'correct'
    if (author is None) != (student is None):
        other = student if author is None else author
        if len(other) > 1:
            return 'shape' if norm2(other) != 0 else 'shape-zero'
        zero = R(0)
        author = zero if author is None else author
        student = zero if student is None else student
    if len(author) != len(student):
        return 'shape'
    d = fnorm(vadd(author, vscale(student, -1)))
    thr = tol_threshold(tol, author)
    if thr < 1e-10:
        if d == 0.0:
            return 'correct' if exact_floats else 'open'
        if exact_floats:
            # every term is exact in binary floating point (small integers, powers of two), so the evaluated sums
            # carry only the rounding of a few dozen operations: a true difference a thousand times larger than
            # that is decisive even against a zero tolerance
            noise = 1e-13 * (1.0 + fnorm(author) + fnorm(student))
            if d >= thr * 1.01 + noise:
                return 'incorrect'
            if d <= thr * 0.99 - noise:
                return 'correct'
            return 'open'
        return 'incorrect' if d > 1e-7 else 'open'
    if d <= thr * 0.99 - 1e-11:
        return 'correct'
    if d >= thr * 1.01 + 1e-11:
        return 'incorrect'
    return 'open'


def combine(per_sample):
    """grade over all samples: correct iff correct at every sample (failable_evals = 0)"""
    if any(v == 'shape-zero' for v in per_sample):
        return 'shape-zero'
    if any(v == 'shape' for v in per_sample):
        return 'shape'
    if any(v == 'incorrect' for v in per_sample):
        return 'incorrect'
    if any(v == 'open' for v in per_sample):
        return 'open'
    return 'correct'
