"""
C07 reference helpers that do not fit the brute-force `formula` of mcv/props/c07.py.

`assignment_dp` is an independent optimal-assignment oracle for sizes where enumerating all permutations is too slow
(6x6, 7x7): a dynamic programme over subsets of columns (rows taken in order).  It has nothing in common with the
Hungarian method used by the library, and `selftest()` compares it with plain enumeration of permutations on small
matrices.
"""
import itertools

NEG = float('-inf')


def assignment_dp(M, eps=1e-9):
    """
    M: square matrix (list of rows) of non-negative credits.
    returns (best, must, may):
        best = maximal total of a one-to-one assignment of rows to columns
        must = every assignment whose total is within eps of best uses only positive entries
        may  = some assignment whose total is within eps of best uses only positive entries
    """
    n = len(M)
    full = (1 << n) - 1
    # dp[mask] = (best total using only positive entries, best total using at least one zero entry) for the first
    # popcount(mask) rows assigned to the columns in mask
    dp = {0: (0.0, NEG)}
    for row in range(n):
        nxt = {}
        for mask, (pos, zer) in dp.items():
            for col in range(n):
                bit = 1 << col
                if mask & bit:
                    continue
                v = M[row][col]
                if v > 0:
                    npos = pos + v if pos != NEG else NEG
                    nzer = zer + v if zer != NEG else NEG
                else:
                    npos = NEG
                    nzer = max(pos, zer)        # v == 0: adds nothing, and the assignment now has a zero entry
                key = mask | bit
                old = nxt.get(key)
                if old is None:
                    nxt[key] = (npos, nzer)
                else:
                    nxt[key] = (max(old[0], npos), max(old[1], nzer))
        dp = nxt
    pos, zer = dp[full]
    best = max(pos, zer)
    pos_opt = pos != NEG and pos >= best - eps
    zer_opt = zer != NEG and zer >= best - eps
    return best, (pos_opt and not zer_opt), pos_opt


def assignment_brute(M, eps=1e-9):
    n = len(M)
    perms = list(itertools.permutations(range(n)))
    totals = [sum(M[j][p[j]] for j in range(n)) for p in perms]
    best = max(totals)
    awarded = [all(M[j][p[j]] > 0 for j in range(n)) for p, t in zip(perms, totals) if abs(t - best) <= eps]
    return best, all(awarded), any(awarded)


def selftest():
    """dp == enumeration on every 2x2 matrix over 4 values, every 3x3 0/1 matrix and a few structured 4x4 / 5x5"""
    vals = (0, 0.25, 0.5, 1)
    mats = [[list(t[:2]), list(t[2:])] for t in itertools.product(vals, repeat=4)]
    mats += [[list(t[0:3]), list(t[3:6]), list(t[6:9])] for t in itertools.product((0, 1), repeat=9)]
    mats += [[list(t[0:3]), list(t[3:6]), list(t[6:9])] for t in itertools.product((0, 0.5, 1), repeat=9)][::37]
    for n in (4, 5):
        for k in range(60):
            mats.append([[vals[(i * 7 + j * 3 + k * (i + 2) * (j + 1) + (k >> 2)) % 4] for j in range(n)] for i in range(n)])
    for M in mats:
        a, b = assignment_dp(M), assignment_brute(M)
        if abs(a[0] - b[0]) > 1e-12 or a[1:] != b[1:]:
            raise AssertionError('c07_ref.assignment_dp disagrees with enumeration on %r: %r vs %r' % (M, a, b))
    return len(mats)
