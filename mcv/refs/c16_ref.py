"""
Reference model for C16 (comparers accept exactly their documented equivalence class).

Pure Python (math / cmath / fractions only).  Written from the property statement and
docs/grading_math/comparer_functions.md + matrix_grader.md, not from the implementation:

  * formula-string rendering of numbers / vectors / matrices whose value the oracle knows exactly
    (`repr` round-trips floats; complex numbers are written a+b*i / a-b*i);
  * tolerance bands: a claim is only made when the distance to the accepted class is
    <= INSIDE x tolerance (must accept) or >= OUTSIDE x tolerance (must reject); in between is open;
    for a percentage tolerance the statement does not say what the percentage is taken of, so the
    band uses the smallest / largest plausible reference magnitude;
  * distance to a complex span (Gram-Schmidt), to a phase orbit, circular distance modulo m,
    eigen-residual, closed-form least-squares fit errors for the four linear relations;
  * the documented shape vocabulary (scalar / vector / matrix, "of length n", "rows: r, cols: c").
"""
import math
import cmath
from fractions import Fraction

INSIDE = 0.1     # <= INSIDE * tolerance  -> must be accepted
OUTSIDE = 10.0   # >= OUTSIDE * tolerance -> must be rejected
PCT = 0.01       # the '1%' tolerance used throughout
ABS = 0.01       # the absolute tolerance used throughout
TOLS = (ABS, '1%')


# ----------------------------------------------------------------------------- rendering

def num_str(z):
    """Formula text whose value is exactly z (int, float or complex)."""
    if isinstance(z, complex):
        if z.imag == 0:
            return num_str(z.real)
        re_s = num_str(z.real)
        im = z.imag
        if z.real == 0:
            return '(%s*i)' % num_str(im)
        if im < 0:
            return '(%s-%s*i)' % (re_s, _pos(-im))
        return '(%s+%s*i)' % (re_s, _pos(im))
    if isinstance(z, int):
        return '%d' % z if z >= 0 else '(%d)' % z
    if z == int(z) and abs(z) < 1e15:
        return num_str(int(z))
    s = repr(float(z))
    return s if z >= 0 else '(%s)' % s


def _pos(x):
    if x == int(x) and abs(x) < 1e15:
        return '%d' % int(x)
    return repr(float(x))


def vec_str(v):
    return '[' + ', '.join(num_str(x) for x in v) + ']'


def mat_str(m):
    return '[' + ', '.join(vec_str(r) for r in m) + ']'


def value_str(shape_kind, v):
    if shape_kind == 'scalar':
        return num_str(v)
    if shape_kind == 'vector':
        return vec_str(v)
    return mat_str(v)


# ----------------------------------------------------------------------------- small linear algebra

def norm(v):
    return math.sqrt(sum(abs(x) ** 2 for x in v))


def inner(u, v):
    """<u, v> = sum conj(u_k) v_k"""
    return sum(complex(a).conjugate() * b for a, b in zip(u, v))


def matvec(m, v):
    return [sum(a * b for a, b in zip(row, v)) for row in m]


def axpy(a, x, y):
    return [a * xi + yi for xi, yi in zip(x, y)]


def orthonormal_basis(vectors, eps=1e-9):
    """Gram-Schmidt (twice, for stability) over C; vectors with small-integer-like entries."""
    basis = []
    for v in vectors:
        w = [complex(x) for x in v]
        n0 = norm(w)
        if n0 <= eps:
            continue
        for _ in range(2):
            for b in basis:
                c = inner(b, w)
                w = [wi - c * bi for wi, bi in zip(w, b)]
        n = norm(w)
        if n > eps * max(1.0, n0):
            basis.append([x / n for x in w])
    return basis


def rank(vectors):
    return len(orthonormal_basis(vectors))


def dist_to_span(s, basis):
    w = [complex(x) for x in s]
    for _ in range(2):
        for b in basis:
            c = inner(b, w)
            w = [wi - c * bi for wi, bi in zip(w, b)]
    return norm(w)


def phase_dist(t, s):
    """min over unit phases p of |s - p t|"""
    d2 = norm(s) ** 2 + norm(t) ** 2 - 2 * abs(inner(t, s))
    return math.sqrt(max(d2, 0.0))


def circ_dist(s, t, m):
    """distance from s to the set t + mZ (floats)"""
    r = math.fmod(s - t, m)
    r = abs(r)
    return min(r, m - r)


def circ_dist_exact(s, t, m):
    """same with Fractions (exact); arguments are Fractions"""
    r = (s - t) % m
    return min(r, m - r)


def eigen_residual(M, lam, s):
    Ms = matvec(M, s)
    ls = [lam * x for x in s]
    return norm([a - b for a, b in zip(Ms, ls)]), norm(Ms), norm(ls)


# ----------------------------------------------------------------------------- tolerance bands

def band(dist, tol, refs):
    """
    'in'   : dist <= INSIDE * tolerance for every plausible reading  (must accept)
    'out'  : dist >= OUTSIDE * tolerance for every plausible reading (must reject)
    'open' : otherwise.
    tol is a number or '1%'; refs = plausible reference magnitudes for a percentage.
    dist == 0 exactly is always 'in'.
    """
    if dist == 0:
        return 'in'
    if isinstance(tol, str):
        lo = PCT * min(refs)
        hi = PCT * max(refs)
    else:
        lo = hi = tol
    if dist <= INSIDE * lo:
        return 'in'
    if dist >= OUTSIDE * hi and dist > 0:
        return 'out'
    return 'open'


# ----------------------------------------------------------------------------- linear relations

def fit_errors(s, e):
    """
    Total (root-sum-square) error of the best fit of  e = a*s + b  over the samples, for the four
    documented sub-types: equals (a,b)=(1,0); proportional b=0; offset a=1; linear free.
    s = student samples, e = expected samples (real numbers).
    """
    n = len(s)
    eq = math.sqrt(sum((ei - si) ** 2 for si, ei in zip(s, e)))
    ss = sum(si * si for si in s)
    if ss == 0:
        prop = math.sqrt(sum(ei * ei for ei in e))
    else:
        a = sum(si * ei for si, ei in zip(s, e)) / ss
        prop = math.sqrt(sum((ei - a * si) ** 2 for si, ei in zip(s, e)))
    b = sum(ei - si for si, ei in zip(s, e)) / n
    off = math.sqrt(sum((si + b - ei) ** 2 for si, ei in zip(s, e)))
    sm = sum(s) / n
    em = sum(e) / n
    sxx = sum((si - sm) ** 2 for si in s)
    if sxx <= 1e-18 * max(1.0, ss):
        # constant student samples: only a constant expected value is a*s+b
        lin = math.sqrt(sum((ei - em) ** 2 for ei in e))
    else:
        a = sum((si - sm) * (ei - em) for si, ei in zip(s, e)) / sxx
        lin = math.sqrt(sum((ei - em - a * (si - sm)) ** 2 for si, ei in zip(s, e)))
    return {'equals': eq, 'proportional': prop, 'offset': off, 'linear': lin}


MODES = ('equals', 'proportional', 'offset', 'linear')
ZERO_OK = ('equals', 'offset')


def linear_expected_credit(cfg, s, e, tol):
    """
    cfg: dict mode -> None | credit.  Returns (credit, detail) or (None, why) when the oracle leaves the
    case open (a relation or a zero test falls between the guard bands).
    """
    ns, ne = norm(s), norm(e)
    # "no proportional or linear credit when either side is zero"
    exp_zero = all(ei == 0 for ei in e)
    if isinstance(tol, str):
        stu_flags = [band(abs(si), tol, [abs(ei)]) if si != 0 else 'in' for si, ei in zip(s, e)]
    else:
        stu_flags = [band(abs(si), tol, [1]) for si in s]
    if all(f == 'in' for f in stu_flags):
        stu_zero = True
    elif any(f == 'out' for f in stu_flags):
        stu_zero = False
    else:
        return None, 'student-zero test inside guard band'
    zero = exp_zero or stu_zero
    errs = fit_errors(s, e)
    holds = {}
    for m in MODES:
        holds[m] = band(errs[m], tol, [x for x in (ns, ne) if x > 0] or [0.0])
    best = 0.0
    uncertain = 0.0
    for m in MODES:
        c = cfg.get(m)
        if c is None:
            continue
        if zero and m not in ZERO_OK:
            continue
        if holds[m] == 'in':
            best = max(best, c)
        elif holds[m] == 'open':
            uncertain = max(uncertain, c)
    if uncertain > best:
        return None, 'relation inside guard band'
    return best, {'zero': zero, 'holds': holds}


# ----------------------------------------------------------------------------- shapes

def shape_word(shape):
    return {0: 'scalar', 1: 'vector', 2: 'matrix'}.get(len(shape), 'tensor')


def shape_numbers(shape):
    return [str(n) for n in shape]
