"""
Reference model for C13 (sampled variable sets are complete, dependent values consistent).

Written from the property statement and docs/grading_math/{sampling,formula_grader}.md; it does not
import the library.  Only `math` and `itertools` are used.

A *spec* is a JSON-able recipe of one sampling configuration:

    {'vars':   [names in declaration order],
     'sets':   {name: [value, ...]}              independent variables (DiscreteSet members);
                                                 a value is an int or a list of ints (a vector)
     'forms':  {name: [c0, [[coef, [n1, ...]], ...]]}
                                                 dependent variables: c0 + sum coef*n1*n2...   (c0 may be None)
     'consts': {name: number}}                   constants offered to the sampler

Products of two vectors are dot products and scalar*vector scales (docs: matrix_grader "vector * vector").
"""
import math
import itertools

E = math.e
PI = math.pi


class RefError(Exception):
    """the reference model was asked something outside its domain: a harness bug"""


# ----------------------------------------------------------------------------- formulas

def formula_str(form):
    c0, terms = form
    out = '' if c0 is None else str(c0)
    for coef, names in terms:
        body = '*'.join([str(abs(coef))] + list(names))
        if coef < 0:
            out += '-' + body
        else:
            out += ('+' if out else '') + body
    if not out:
        raise RefError('empty formula')
    return out


def parents(form):
    seen = []
    for _, names in form[1]:
        for n in names:
            if n not in seen:
                seen.append(n)
    return seen


def is_vec(x):
    return isinstance(x, list)


def mul(x, y):
    if is_vec(x) and is_vec(y):
        if len(x) != len(y):
            raise RefError('dot of unequal lengths')
        return sum(a * b for a, b in zip(x, y))
    if is_vec(x):
        return [a * y for a in x]
    if is_vec(y):
        return [x * b for b in y]
    return x * y


def add(x, y):
    if is_vec(x) != is_vec(y):
        raise RefError('scalar + vector')
    if is_vec(x):
        if len(x) != len(y):
            raise RefError('vector lengths')
        return [a + b for a, b in zip(x, y)]
    return x + y


def eval_form(form, env):
    """value of the formula on the dictionary env (name -> number or list)"""
    c0, terms = form
    acc = c0
    for coef, names in terms:
        t = coef
        for n in names:
            t = mul(t, env[n])
        acc = t if acc is None else add(acc, t)
    return acc


# ----------------------------------------------------------------------------- classification

def classify(spec, extra_names=()):
    """
    'ok' | 'cyclic' | 'dangling' | 'cyclic+dangling' for the dependency structure of spec.
    Names a formula may use: declared variables, constants, and extra_names (numbered instances /
    sibling variables present in the graded expressions).
    """
    forms = spec['forms']
    known = set(spec['vars']) | set(spec.get('consts', {})) | set(extra_names)
    dangling = sorted(p for f in forms.values() for p in parents(f) if p not in known)
    # cycle among dependents: depth-first search with colours
    colour = {}
    cyclic = [False]

    def visit(n):
        colour[n] = 1
        for p in parents(forms[n]):
            if p in forms:
                c = colour.get(p, 0)
                if c == 1:
                    cyclic[0] = True
                elif c == 0:
                    visit(p)
        colour[n] = 2

    for n in sorted(forms):
        if colour.get(n, 0) == 0:
            visit(n)
    if cyclic[0] and dangling:
        return 'cyclic+dangling'
    if cyclic[0]:
        return 'cyclic'
    if dangling:
        return 'dangling'
    return 'ok'


def topo_values(spec, indep_values, extra=None):
    """full expected dictionary from the independent values (only for acyclic, non-dangling specs)"""
    env = dict(spec.get('consts', {}))
    for n in list(env):
        if n in spec['vars']:
            del env[n]
    env.update(extra or {})
    env.update(indep_values)
    todo = dict(spec['forms'])
    for _ in range(len(todo) + 1):
        for n in sorted(todo):
            if all(p in env for p in parents(todo[n])):
                env[n] = eval_form(todo[n], env)
                del todo[n]
    if todo:
        raise RefError('topo_values on a cyclic/dangling spec')
    return env


# ----------------------------------------------------------------------------- comparisons

BIG = 1e10


def close(a, b):
    """numbers / vectors equal up to rounding of the few float operations involved"""
    if is_vec(a) or is_vec(b):
        return is_vec(a) and is_vec(b) and len(a) == len(b) and all(close(x, y) for x, y in zip(a, b))
    try:
        if abs(b) > BIG:
            raise RefError('reference value %r too large for the guard band' % (b,))
        return abs(a - b) <= 1e-12 * max(1.0, abs(a), abs(b))
    except TypeError:
        return False


def member(v, values):
    return any(close(v, w) for w in values)


def expected_keys(spec, extra_names=()):
    """declared variables + instances/siblings in the expressions + constants not shadowed by a variable"""
    return set(spec['vars']) | set(extra_names) | set(spec.get('consts', {}))


def judge_sample(spec, sample, extra_sets=None, open_names=()):
    """
    Check ONE sample dictionary (already converted to plain Python values) against the statement.
      extra_sets: {name: [values]} for numbered instances / other independently drawn names expected present
      open_names: names that may legitimately be absent (their presence is not required)
    Returns None or (kind, message, expected, observed).
    """
    extra_sets = extra_sets or {}
    consts = spec.get('consts', {})
    need = expected_keys(spec, extra_sets) - set(open_names)
    missing = sorted(need - set(sample))
    if missing:
        return ('missing-key', 'sample has no value for %s' % ', '.join(missing), sorted(need), sorted(sample))
    for n, vals in sorted(list(spec['sets'].items()) + list(extra_sets.items())):
        if n in sample and not member(sample[n], vals):
            return ('independent-not-in-set', '%s = %r is not a member of its sampling set %r' % (n, sample[n], vals),
                    vals, sample[n])
    for n in sorted(consts):
        if n not in spec['vars'] and n not in extra_sets and not close(sample[n], consts[n]):
            return ('constant-changed', 'constant %s = %r, configured %r' % (n, sample[n], consts[n]),
                    consts[n], sample[n])
    for n in sorted(spec['forms']):
        f = spec['forms'][n]
        if any(p not in sample for p in parents(f)):
            continue        # only possible for open names; nothing to compare with
        want = eval_form(f, sample)
        if not close(sample[n], want):
            return ('dependent-inconsistent',
                    '%s = %r but its formula %s on the same sample gives %r' % (n, sample[n], formula_str(f), want),
                    want, sample[n])
    return None


# ----------------------------------------------------------------------------- enumeration helpers

def perm_of(n, index):
    """index -> permutation of range(n) in lexicographic order (index 0 = identity)"""
    items = list(range(n))
    out = []
    for k in range(n, 0, -1):
        f = math.factorial(k - 1)
        q, index = divmod(index, f)
        out.append(items.pop(q))
    return out


def edge_positions(n, loops):
    return [(i, j) for i in range(n) for j in range(n) if loops or i != j]


def graph_edges(n, loops, gidx):
    """bit k of gidx set <=> k-th position (i, j): node i depends on node j"""
    pos = edge_positions(n, loops)
    return [pos[k] for k in range(len(pos)) if (gidx >> k) & 1]


def is_acyclic(n, edges):
    par = {i: [] for i in range(n)}
    for i, j in edges:
        par[i].append(j)
    colour = [0] * n

    def visit(u):
        colour[u] = 1
        for p in par[u]:
            if colour[p] == 1:
                return False
            if colour[p] == 0 and not visit(p):
                return False
        colour[u] = 2
        return True

    return all(colour[u] or visit(u) for u in range(n))


_POS = {}


def is_acyclic_index(n, loops, gidx):
    """same as is_acyclic(n, graph_edges(n, loops, gidx)), on bit masks (used to filter 2^20 graphs)"""
    key = (n, loops)
    if key not in _POS:
        _POS[key] = edge_positions(n, loops)
    pm = [0] * n
    k = 0
    for (i, j) in _POS[key]:
        if (gidx >> k) & 1:
            pm[i] |= 1 << j
        k += 1
    done = 0
    full = (1 << n) - 1
    while done != full:
        new = 0
        for i in range(n):
            if not (done >> i) & 1 and pm[i] & ~done == 0:
                new |= 1 << i
        if not new:
            return False
        done |= new
    return True


NAMES = ['a', 'b', 'c', 'd', 'f', 'g', 'h', 'm']          # 'e' is a default constant: not used as a variable
VALUES = [(2, 3), (5, 7), (11, 13), (17, 19), (23, 29), (31, 37), (41, 43), (47, 53)]
C0 = [1, 2, 3, 4, 5, 6, 7, 8]


def coef(i, j):
    """distinct small non-zero integer for the edge j -> i (alternating sign keeps magnitudes small)"""
    c = 2 + ((3 * i + 5 * j) % 7)
    return -c if (i + j) % 3 == 0 else c


def graph_spec(n, edges, order=None, consts=None, single_after=None):
    """
    spec of the digraph: node i is independent (two-valued set) when it has no in-edge,
    otherwise dependent with formula C0[i] + sum coef(i,j)*name_j over its parents j.
    single_after: independent nodes with index >= single_after get a one-element set.
    """
    names = NAMES[:n]
    par = {i: [] for i in range(n)}
    for i, j in edges:
        par[i].append(j)
    spec = {'vars': [names[k] for k in (order or range(n))], 'sets': {}, 'forms': {}, 'consts': dict(consts or {})}
    nind = 0
    for i in range(n):
        if par[i]:
            spec['forms'][names[i]] = [C0[i], [[coef(i, j), [names[j]]] for j in sorted(par[i])]]
        else:
            vals = list(VALUES[i])
            if single_after is not None and nind >= single_after:
                vals = vals[:1]
            nind += 1
            spec['sets'][names[i]] = vals
    return spec
