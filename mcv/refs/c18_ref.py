"""
Reference model for C18 (StringGrader): the configured cleaning of a string, word
counting, and the full-match languages of the validation patterns used by the check.

Written from the property statement and /repo/docs/string_grader.md.  It never
imports the library.  Where the statement leaves something open the normaliser
returns SEVERAL candidate normal forms and the oracle only demands a verdict when
all candidates agree:

  * a maximal run of CR/LF characters that is neither a repetition of one character
    (n line breaks) nor exactly one pair CRLF / LFCR (one line break) can be counted
    in several ways; every count between the minimum tokenisation and one-per-character
    is a candidate;
  * "whitespace" at the two ends certainly includes the space (and tab / line breaks,
    which have become spaces); whether strip also removes other Unicode white space
    (NBSP, VT, FF, EM SPACE ...) is left open: both forms are candidates.
"""
import itertools

NBSP = u'\xa0'
# characters that "whitespace at the ends" may or may not include (open): Unicode white space other than
# space/tab/CR/LF, the C0 separators, NEL, and the zero-width "spaces" a reader may well count as white space
EXOTIC_WS = (NBSP, u'\x0b', u'\x0c', u'\u2003', u'\u3000',
             u'\x1c', u'\x1d', u'\x1e', u'\x1f', u'\x85', u'\u1680', u'\u2000', u'\u2009', u'\u200a',
             u'\u2028', u'\u2029', u'\u202f', u'\u205f', u'\u200b', u'\ufeff')

# explicit case table for every cased character the check's alphabets use
_UPPER = u'ABCDEFGHIJKLMNOPQRSTUVWXYZ' + u'\xc9\xd1\u0414' + u'\xdc\u039b\uff21'   # E-acute, N-tilde, Cyrillic De,
_LOWER = u'abcdefghijklmnopqrstuvwxyz' + u'\xe9\xf1\u0434' + u'\xfc\u03bb\uff41'   # U-umlaut, Lambda, fullwidth A
FOLD = dict(zip(_UPPER, _LOWER))
CASED = set(_UPPER) | set(_LOWER)
# caseless characters beyond ASCII used by the wide-alphabet family: controls, invisible format characters,
# typographic look-alikes of ASCII punctuation, superscript / fraction / non-ASCII digits, a combining accent,
# an astral-plane symbol
EXOTIC_CASELESS = (u'\x00', u'\x7f', u'\u200c', u'\u200d', u'\u2060', u'\xad', u'\u2019', u'\u2018', u'\u201c',
                   u'\u2013', u'\u2014', u'\u2212', u'\xd7', u'\xb2', u'\xbd', u'\u0301', u'\u0660',
                   u'\U0001F600')
CASELESS_KNOWN = (set(u' \t\r\n0123456789.,;:!?-_+*/()[]{}|^$#\'"\\<>=&%@~`') | set(EXOTIC_WS)
                  | set(EXOTIC_CASELESS))


class RefError(Exception):
    """the reference was asked about a character it has no explicit rule for"""


def flag_tuple(bits):
    """bits -> (case_sensitive, strip, clean_spaces, strip_all)"""
    return (bool(bits & 1), bool(bits & 2), bool(bits & 4), bool(bits & 8))


def flag_kwargs(bits):
    cs, st, cl, sa = flag_tuple(bits)
    return {'case_sensitive': cs, 'strip': st, 'clean_spaces': cl, 'strip_all': sa}


def flag_name(bits):
    cs, st, cl, sa = flag_tuple(bits)
    return 'case_sensitive=%d strip=%d clean_spaces=%d strip_all=%d' % (cs, st, cl, sa)


def fold_char(c):
    if c in FOLD:
        return FOLD[c]
    if c in CASED or c in CASELESS_KNOWN:
        return c
    raise RefError('no case rule for %r' % c)


def _min_units(run):
    """fewest line-break units (CRLF, LFCR, CR, LF) a CR/LF run can be cut into"""
    n = len(run)
    best = [0] * (n + 1)
    for i in range(1, n + 1):
        best[i] = best[i - 1] + 1
        if i >= 2 and run[i - 1] != run[i - 2]:
            best[i] = min(best[i], best[i - 2] + 1)
    return best[n]


def break_counts(run):
    """possible numbers of line breaks in a maximal run of CR/LF characters"""
    if len(set(run)) == 1:
        return [len(run)]
    if len(run) == 2:
        return [1]
    return list(range(_min_units(run), len(run) + 1))


def has_ambiguous_breaks(s):
    for seg, isrun in _segments(s):
        if isrun and len(break_counts(seg)) > 1:
            return True
    return False


def _segments(s):
    out = []
    i = 0
    n = len(s)
    while i < n:
        j = i
        if s[i] in '\r\n':
            while j < n and s[j] in '\r\n':
                j += 1
            out.append((s[i:j], True))
        else:
            while j < n and s[j] not in '\r\n':
                j += 1
            out.append((s[i:j], False))
        i = j
    return out


def _collapse(s):
    out = []
    prev = None
    for c in s:
        if c == ' ' and prev == ' ':
            continue
        out.append(c)
        prev = c
    return ''.join(out)


def _strip_chars(s, chars):
    i, j = 0, len(s)
    while i < j and s[i] in chars:
        i += 1
    while j > i and s[j - 1] in chars:
        j -= 1
    return s[i:j]


_MEMO = {}


def normal_forms(s, bits):
    """set of candidate normal forms of s under the flag set `bits` (usually one element)"""
    key = (s, bits)
    got = _MEMO.get(key)
    if got is None:
        if len(_MEMO) > 200000:
            _MEMO.clear()
        got = _MEMO[key] = frozenset(_normal_forms(s, bits))
    return got


def _normal_forms(s, bits):
    cs, st, cl, sa = flag_tuple(bits)
    pieces = []
    for seg, isrun in _segments(s):
        if isrun:
            pieces.append([' ' * k for k in break_counts(seg)])
        else:
            pieces.append([seg.replace('\t', ' ')])
    forms = set()
    for combo in itertools.product(*pieces):
        t = ''.join(combo)
        if not cs:
            t = ''.join(fold_char(c) for c in t)
        else:
            for c in t:
                fold_char(c)        # only to insist that the character is known
        alts = [t]
        if st:
            a = _strip_chars(t, ' ')
            b = _strip_chars(t, ' ' + ''.join(EXOTIC_WS))
            alts = [a] if a == b else [a, b]
        for u in alts:
            if sa:
                u = u.replace(' ', '')
            if cl:
                u = _collapse(u)
            forms.add(u)
    return forms


def normal_form(s, bits):
    f = normal_forms(s, bits)
    if len(f) != 1:
        raise RefError('normal form of %r is not unique' % s)
    return next(iter(f))


def match_verdict(expected, submission, bits):
    """True / False when the statement determines the verdict, None when it is open"""
    if expected == submission:
        return True
    E = normal_forms(expected, bits)
    S = normal_forms(submission, bits)
    if len(E) == 1 and len(S) == 1:
        return E == S
    if not (E & S):
        return False
    return None


def count_words(cleaned):
    """words = maximal runs of non-space characters (punctuation does not break a word)"""
    n = 0
    inword = False
    for c in cleaned:
        if c == ' ':
            inword = False
        elif not inword:
            inword = True
            n += 1
    return n


# ---------------------------------------------------------------- validation patterns
# (pattern, class, members used as expected answers, full-match language as a predicate)

def _digits(s):
    return len(s) > 0 and all(c in '0123456789' for c in s)


def _abc(s):
    return len(s) > 0 and all(c in 'abc' for c in s)


def _cdot(s):
    return len(s) == 3 and s[0] == 'c' and s[2] == 't' and s[1] != '\n'


def _chem(s):
    # ([CNOH](_[0-9])?)+
    i, n = 0, len(s)
    if n == 0:
        return False
    while i < n:
        if s[i] not in 'CNOH':
            return False
        i += 1
        if i + 1 < n and s[i] == '_' and s[i + 1] in '0123456789':
            i += 2
    return True


PATTERNS = [
    # name, regex, class, answer used in compare mode, language
    ('alt', r'cat|dog', 'alternation', 'cat', lambda s: s in ('cat', 'dog')),
    ('dot', r'c.t', 'plain', 'cat', _cdot),
    ('class+', r'[a-c]+', 'plain', 'abc', _abc),
    ('lit', r'cat', 'plain', 'cat', lambda s: s == 'cat'),
    ('anchored', r'^cat$', 'plain', 'cat', lambda s: s == 'cat'),
    ('group-alt', r'ca(t|r)', 'plain', 'cat', lambda s: s in ('cat', 'car')),
    ('optional', r'(cat)?', 'plain', 'cat', lambda s: s in ('', 'cat')),
    ('digits', r'\d+', 'plain', '12', _digits),
    ('alt-anchored', r'^cat|dog$', 'alternation', 'cat', lambda s: s in ('cat', 'dog')),
    ('alt3', r'a|ab|abc', 'alternation', 'abc', lambda s: s in ('a', 'ab', 'abc')),
    ('caret-end', r'x\^', 'trailing-caret', 'x^', lambda s: s == 'x^'),
    ('verbose', r'(?x)cat#animal', 'verbose-comment', 'cat', lambda s: s == 'cat'),
    ('chem', r'([CNOH](_[0-9])?)+', 'plain', 'NH_3', _chem),
]
PATTERN_BY_NAME = {p[0]: p for p in PATTERNS}


# ---------------------------------------------------------------- second pattern pool
# used by the family validation_all_flags (every cleaning-flag set, not only strip / case): patterns whose
# language depends on the white space left by the cleaning, the empty pattern, lazy quantifiers, nested
# alternation that needs backtracking, a back-reference, an escaped dollar, an inline flag

def _all_a(s):
    return len(s) > 0 and all(c == 'a' for c in s)


def _c_anything_t(s):
    return len(s) >= 2 and s[0] == 'c' and s[-1] == 't' and '\n' not in s


def _dollars(s):
    return len(s) >= 2 and s[0] == '$' and all(c in '0123456789' for c in s[1:])


def _upper_ascii(s):
    return len(s) > 0 and all(c in 'ABCDEFGHIJKLMNOPQRSTUVWXYZ' for c in s)


def _single_spaced_words(s):
    # \S+( \S+)* on strings whose only white space is the space
    return len(s) > 0 and all(len(w) > 0 for w in s.split(' '))


PATTERNS2 = [
    # name, regex, white-space sensitive?, answer used in compare mode, language
    ('lit2', r'cat', True, 'cat', lambda s: s == 'cat'),
    ('chem2', r'([CNOH](_[0-9])?)+', True, 'NH_3', _chem),
    ('spaced', r'cat dog', True, 'cat dog', lambda s: s == 'cat dog'),
    ('dspace', r'a  b', True, 'a  b', lambda s: s == 'a  b'),
    ('edge-space', r' cat ', True, ' cat ', lambda s: s == ' cat '),
    ('words', r'\S+( \S+)*', True, 'cat dog', _single_spaced_words),
    ('upper', r'[A-Z]+', True, 'CAT', _upper_ascii),
    ('empty', r'', False, '', lambda s: s == ''),
    ('lazy', r'a+?', False, 'aa', _all_a),
    ('lazy-dot', r'c.*?t', False, 'cat', _c_anything_t),
    ('backref', r'(a|b)\1', False, 'aa', lambda s: s in ('aa', 'bb')),
    ('dollar', r'\$\d+', False, '$12', _dollars),
    ('inline-i', r'(?i)cat', False, 'Cat', lambda s: len(s) == 3 and s in (
        'cat', 'caT', 'cAt', 'cAT', 'Cat', 'CaT', 'CAt', 'CAT')),
    ('nested-alt', r'(a|ab)(c|bcd)?', False, 'abc', lambda s: s in ('a', 'ab', 'ac', 'abc', 'abcd', 'abbcd')),
]
PATTERN2_BY_NAME = {p[0]: p for p in PATTERNS2}
