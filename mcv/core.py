"""
mcv.core -- runner, parallel partitioning, evidence, replay, known findings.

A property module (mcv/props/cNN.py) exposes

    PROPERTY = 'C06'
    def families(tier): -> list of Family objects

A Family is one bounded exhaustive exploration.  Two kinds:

  * EnumFamily: `cases(tier)` yields JSON-able cases in a fixed canonical order
    (simplest first); `check(case)` executes the real code for this one case and
    returns a Result.  The runner splits the enumeration index-mod-W over the
    worker processes.
  * custom families override `run_slice(tier, seed, w, W)` and return a Stats
    (BFS / CHOICE explorations that manage their own frontier).

Nothing here samples: every family enumerates its stated finite space.  The
seed only rotates which worker gets which index and the default RNG answers.
"""
import os
import sys
import json
import time
import hashlib
import signal
import itertools
import collections
import traceback
import subprocess
import multiprocessing as mp
from collections import Counter

VERIF_DIR = os.path.dirname(os.path.dirname(os.path.abspath(__file__)))
REPO = os.environ.get('MCV_REPO', '/repo')
NWORKERS = int(os.environ.get('MCV_WORKERS', '16'))
MAX_VIOL_KEPT = 40


def bind_repo():
    """Put the tree under test first on sys.path and make sure it is what gets imported."""
    repo = os.path.abspath(REPO)
    if sys.path[0] != repo:
        sys.path.insert(0, repo)
    import mitxgraders
    import voluptuous
    here = os.path.abspath(mitxgraders.__file__)
    if not here.startswith(repo + os.sep):
        raise HarnessError("mitxgraders imported from %s, not from %s" % (here, repo))
    if not os.path.abspath(voluptuous.__file__).startswith(repo + os.sep):
        raise HarnessError("voluptuous not imported from the tree under test")
    return repo


class HarnessError(Exception):
    """The machinery itself is broken (never a VIOLATION)."""


class Watchdog(BaseException):
    """Raised by the interval timer; BaseException so that library `except Exception` cannot eat it."""


def _alarm(signum, frame):
    raise Watchdog()


class watchdog(object):
    """with watchdog(5.0): ...   (main thread of a worker process only)"""
    def __init__(self, seconds):
        self.seconds = seconds

    # The budget is CPU time of this process (ITIMER_PROF): a computation that does not terminate burns CPU and is
    # caught after `seconds`, while a busy machine (many checks side by side) cannot turn a slow case into a false
    # "non-termination".  A wall-clock backstop 30 times larger catches a case that blocks without using CPU.
    def __enter__(self):
        self.old = signal.signal(signal.SIGALRM, _alarm)
        self.oldprof = signal.signal(signal.SIGPROF, _alarm)
        signal.setitimer(signal.ITIMER_REAL, self.seconds * 30)
        signal.setitimer(signal.ITIMER_PROF, self.seconds)

    def __exit__(self, *exc):
        signal.setitimer(signal.ITIMER_PROF, 0)
        signal.setitimer(signal.ITIMER_REAL, 0)
        signal.signal(signal.SIGPROF, self.oldprof)
        signal.signal(signal.SIGALRM, self.old)
        return False


class Result(object):
    """Outcome of one explored case."""
    __slots__ = ('outcome', 'nontrivial', 'violation', 'calls', 'case', 'window')

    def __init__(self, outcome, nontrivial=True, violation=None, calls=1):
        self.case = None                # set when the replayable case differs from the enumerated one
        self.window = None              # cases run before this one in the same worker (for state-leak replays)
        self.outcome = outcome          # short string: bucket of what was observed
        self.nontrivial = nontrivial    # by the family's stated rule
        self.violation = violation      # None or dict(sig=..., msg=..., expected=..., observed=...)
        self.calls = calls              # executions of the implementation


def viol(sig, msg, expected=None, observed=None):
    return {'sig': sig, 'msg': msg, 'expected': jsonable(expected), 'observed': jsonable(observed)}


class Stats(object):
    def __init__(self, family):
        self.family = family
        self.evaluations = 0
        self.nontrivial = 0
        self.calls = 0
        self.states = 0
        self.transitions = 0
        self.outcomes = Counter()
        self.sigcount = Counter()
        self.violations = []
        self.nviolations = 0
        self.samples = []
        self.extra = {}
        self.exhaustive = True
        self.cap_note = None

    def add(self, case, res):
        self.evaluations += 1
        self.calls += res.calls
        if res.nontrivial:
            self.nontrivial += 1
        self.outcomes[res.outcome] += 1
        if res.violation is not None:
            self.nviolations += 1
            sig = res.violation.get('sig')
            self.sigcount[sig] += 1
            # keep a few examples of EVERY distinct signature (a flood of one kind must not hide another)
            if self.sigcount[sig] <= 3 and len(self.violations) < 400:
                v = dict(res.violation)
                v['family'] = self.family
                v['case'] = jsonable(res.case if res.case is not None else case)
                if res.window:
                    v['window'] = jsonable(res.window)
                self.violations.append(v)

    def merge(self, other):
        self.evaluations += other.evaluations
        self.nontrivial += other.nontrivial
        self.calls += other.calls
        self.states += other.states
        self.transitions += other.transitions
        self.outcomes.update(other.outcomes)
        self.nviolations += other.nviolations
        self.violations.extend(other.violations)
        self.sigcount.update(other.sigcount)
        for s in other.samples:
            if len(self.samples) < 6:
                self.samples.append(s)
        for k, v in other.extra.items():
            if isinstance(v, (int, float)) and isinstance(self.extra.get(k), (int, float)):
                self.extra[k] += v
            elif isinstance(v, list) and isinstance(self.extra.get(k), list):
                self.extra[k] = sorted(set(self.extra[k]) | set(v))
            else:
                self.extra.setdefault(k, v)
        self.exhaustive = self.exhaustive and other.exhaustive
        self.cap_note = self.cap_note or other.cap_note


# the last cases executed by this worker process (across families), for families that cannot reset shared state
_PROCESS_WINDOW = collections.deque(maxlen=64)


class Family(object):
    """Base class; see module docstring."""
    name = 'family'
    rule = ''            # how cases are generated and what makes one non-trivial
    timeout = 10.0       # watchdog per case (seconds); a time-out is reported as a violation
    timeout_sig = 'timeout'
    max_timeouts = 3
    recheck_every = 97
    kind = 'ENUM'

    def cases(self, tier):
        raise NotImplementedError

    def check(self, case):
        raise NotImplementedError

    def setup(self, tier):
        """Called once in every worker process before the first case."""

    def describe(self, case):
        """Human-readable decoding of a case for samples and replay files."""
        return case

    def run_slice(self, tier, seed, w, W):
        st = Stats(self.name)
        self.setup(tier)
        self._sig_tried = {}
        self._sig_final = {}
        if self.isolate is not None:
            self.isolate()
        off = seed % W
        it = itertools.islice(self.cases(tier), (w - off) % W, None, W)
        timeouts = 0
        for case in it:
            if timeouts >= self.max_timeouts:
                # a non-terminating tree would otherwise cost `timeout` seconds per remaining case; the violations
                # already recorded are the verdict (this can only happen in a run that is failing anyway)
                st.exhaustive = False
                st.cap_note = 'stopped after %d timeouts' % timeouts
                break
            res = self.run_case(case)
            if res.outcome == 'TIMEOUT':
                timeouts += 1
            st.add(case, res)
            if self.recheck_every and st.evaluations % self.recheck_every == 0 and res.outcome != 'TIMEOUT':
                # determinism obligation: about 1% of all cases are executed twice and must be observed identically
                again = self._guarded(case)
                st.extra['rechecked'] = st.extra.get('rechecked', 0) + 1
                if (again.outcome, again.violation is None) != (res.outcome, res.violation is None):
                    raise HarnessError('family %s case %r is not deterministic: first %r, then %r'
                                       % (self.name, case, res.outcome, again.outcome))
            if res.violation is not None and st.violations and st.violations[-1].get('case') == jsonable(case):
                st.violations[-1]['decoded'] = jsonable(self.describe(case))
            if len(st.samples) < 2 and (res.nontrivial or st.evaluations > 50):
                st.samples.append({'family': self.name, 'case': jsonable(case),
                                   'decoded': jsonable(self.describe(case)), 'outcome': res.outcome})
        st.states = st.calls if self.kind == 'CHOICE' else st.evaluations
        st.transitions = st.calls
        return st

    # Families whose cases run against shared long-lived state (e.g. the process-wide parser) define
    # isolate() to reset that state.  A violation is then re-examined: alone after isolate(), and if it
    # vanishes, after isolate() + the previous case -- so that what is reported is always replayable.
    isolate = None

    def run_case(self, case):
        if isinstance(case, dict) and '_seq' in case:
            if self.isolate is not None:
                self.isolate()
            res = None
            for c in case['_seq']:
                f = self
                if isinstance(c, dict) and '_fam' in c:
                    # a predecessor from another family of the same property (pool workers run several families)
                    f = self._siblings[c['_fam']]
                    c = c['case']
                    if f is not self and not getattr(f, '_replay_ready', False):
                        f.setup(self._replay_tier)
                        f._replay_ready = True
                res = f._guarded(f.from_json(c))
            res.case = case
            return res
        if self.isolate is not None:
            # shared state is reset every ISOLATE_EVERY cases, so every observation is reproducible from
            # the cases since the last reset (kept in the window)
            if self._window is None:
                self._window = collections.deque(maxlen=self.ISOLATE_EVERY)
            if len(self._window) >= self.ISOLATE_EVERY:
                self.isolate()
                self._window.clear()
        res = self._guarded(case)
        if res.violation is not None and self.isolate is not None:
            raw_sig = res.violation['sig']
            self._sig_tried[raw_sig] = self._sig_tried.get(raw_sig, 0) + 1
            if self._sig_tried[raw_sig] > 3:
                # enough replayable examples of this signature have been worked out already: count this one, reset
                res.violation['sig'] = self._sig_final.get(raw_sig, raw_sig)
                self.isolate()
                self._window.clear()
                return res
            self.isolate()
            res2 = self._guarded(case)
            if res2.violation is not None:
                res = res2
            else:
                found = None
                window = list(self._window or [])
                for L in (1, 2, 4, 8, 16, 32, 64, 128, 256, 512):
                    if L > len(window) and L // 2 >= len(window):
                        break
                    pre = window[-L:]
                    r = self._run_seq(pre + [case])
                    if r.violation is not None:
                        found = (pre, r)
                        break
                if found is not None:
                    pre, r = found
                    k = 0
                    while k < len(pre):            # greedy one-at-a-time shrinking of the prefix
                        trial = pre[:k] + pre[k + 1:]
                        r2 = self._run_seq(trial + [case])
                        if r2.violation is not None:
                            pre, r = trial, r2
                        else:
                            k += 1
                    r.violation['sig'] = 'history-dependent:' + r.violation['sig']
                    r.violation['msg'] = ('only after first running %r: ' % ([self.describe(c) for c in pre],)
                                          + r.violation['msg'])
                    r.case = {'_seq': [jsonable(c) for c in pre + [case]]}
                    res = r
                else:
                    res.violation['sig'] = 'history-dependent-unreproduced:' + res.violation['sig']
                self._sig_final[raw_sig] = res.violation['sig']
                self.isolate()
                self._window.clear()
                return res
        if self.isolate is not None:
            self._window.append(case)
        else:
            # no way to reset shared state from here: remember what ran before, so that a violation that does not
            # reproduce on its own can be replayed (in a fresh process) together with its predecessors
            if res.violation is not None:
                res.window = list(_PROCESS_WINDOW)
            _PROCESS_WINDOW.append({'_fam': self.name, 'case': jsonable(case)})
        return res

    _window = None
    _sig_tried = {}
    _sig_final = {}
    ISOLATE_EVERY = 256
    HISTORY_WINDOW = 64

    def _run_seq(self, seq):
        self.isolate()
        r = None
        for c in seq:
            r = self._guarded(c)
        return r

    def from_json(self, case):
        """cases come back from replay files as lists; families that need tuples convert here"""
        return case

    def _guarded(self, case):
        try:
            with watchdog(self.timeout):
                return self.check(case)
        except Watchdog:
            return Result('TIMEOUT', True,
                          viol(self.timeout_sig, 'case did not finish within %.0fs' % self.timeout))
        except HarnessError:
            raise
        except Exception as e:  # a crash of the harness body is a harness error, not a violation
            raise HarnessError("family %s case %r: harness crashed: %s\n%s"
                               % (self.name, case, e, traceback.format_exc()))


def jsonable(x, depth=0):
    """Lossy but deterministic rendering for replay files / evidence."""
    import numbers
    if depth > 8:
        return repr(x)
    if x is None or isinstance(x, (bool, str)):
        return x
    if isinstance(x, int):
        return x
    if isinstance(x, float):
        if x != x or x in (float('inf'), float('-inf')):
            return repr(x)
        return x
    if isinstance(x, complex):
        return {'complex': [jsonable(x.real), jsonable(x.imag)]}
    if isinstance(x, dict):
        return {str(k): jsonable(v, depth + 1) for k, v in x.items()}
    if isinstance(x, (list, tuple)):
        return [jsonable(v, depth + 1) for v in x]
    if isinstance(x, (set, frozenset)):
        return sorted((jsonable(v, depth + 1) for v in x), key=repr)
    try:
        import numpy as np
        if isinstance(x, np.ndarray):
            return {'array': jsonable(x.tolist(), depth + 1)}
        if isinstance(x, np.generic):
            return jsonable(x.item(), depth + 1)
    except ImportError:
        pass
    if isinstance(x, numbers.Number):
        return repr(x)
    return repr(x)


# --------------------------------------------------------------------------- running

def _task(args):
    modname, fam_index, tier, seed, w, W = args
    try:
        bind_repo()
        mod = __import__(modname, fromlist=['x'])
        fam = mod.families(tier)[fam_index]
        t0 = time.time()
        st = fam.run_slice(tier, seed, w, W)
        st.extra['cpu_s'] = round(time.time() - t0, 3)
        return ('ok', fam.name, st)
    except BaseException as e:
        return ('err', '%s[%d] slice %d/%d' % (modname, fam_index, w, W),
                '%s: %s\n%s' % (type(e).__name__, e, traceback.format_exc()))


_FAM_CACHE = {}


def _bfs_task(args):
    modname, fam_index, tier, hists = args
    try:
        key = (modname, fam_index, tier)
        if key not in _FAM_CACHE:
            bind_repo()
            mod = __import__(modname, fromlist=['x'])
            fam = mod.families(tier)[fam_index]
            fam.setup(tier)
            _FAM_CACHE[key] = fam
        from .bfs import expand_histories
        return ('ok', _FAM_CACHE[key].name, expand_histories(_FAM_CACHE[key], tier, hists))
    except BaseException as e:
        return ('err', '%s[%d] level expansion' % (modname, fam_index),
                '%s: %s\n%s' % (type(e).__name__, e, traceback.format_exc()))


def run_level_bfs(pool, modname, fam_index, fam, tier):
    """Level-synchronous explicit-state search with one seen-set (parent) and pooled expansion (workers)."""
    st = Stats(fam.name)
    t0 = time.time()
    depth_cap = fam.depth_cap_for(tier) if hasattr(fam, 'depth_cap_for') else fam.depth_cap
    r = _unwrap(pool.apply(_bfs_task, ((modname, fam_index, tier, []),)))
    seen = {r[0][1]}
    frontier = [[]]
    closed = True
    depth = 0
    stopped = False
    while frontier and depth < depth_cap and not stopped:
        depth += 1
        nchunks = max(1, min(len(frontier), NWORKERS * 4))
        chunks = [frontier[i::nchunks] for i in range(nchunks)]
        nxt = []
        for res in pool.imap_unordered(_bfs_task, [(modname, fam_index, tier, c) for c in chunks]):
            for nh, h, v, label, obs in _unwrap(res):
                st.transitions += 1
                case = {'history': label} if label is not None else {'history_indexes': nh}
                st.add(case, Result('violation' if v else 'ok', True, v, calls=len(nh)))
                if obs is not None and len(st.samples) < 2:
                    st.samples.append({'family': fam.name, 'case': case, 'observations': obs})
                if h is None or h in seen:
                    continue
                seen.add(h)
                if len(nh) < depth_cap:
                    nxt.append(nh)
                else:
                    closed = False
        if st.nviolations > 0:
            # the level is complete, so every violating history of minimal length is known: that is the verdict; on a
            # broken tree hidden memory often makes every history a new state, and deeper levels would never finish
            st.exhaustive = False
            st.cap_note = 'search stopped after depth %d (%d violations found)' % (depth, st.nviolations)
            stopped = True
            closed = False
        if len(seen) > fam.max_states:
            st.exhaustive = False
            st.cap_note = 'max_states %d reached' % fam.max_states
            stopped = True
            closed = False
        frontier = sorted(nxt)
    st.states = len(seen)
    st.extra['closure_reached'] = bool(closed and not frontier)
    st.extra['max_depth_expanded'] = [depth]
    st.extra['depth_cap'] = [depth_cap]
    st.extra['cpu_s'] = round(time.time() - t0, 3)
    return st


def _unwrap(r):
    if r[0] == 'err':
        raise HarnessError('%s\n%s' % (r[1], r[2]))
    return r[2]


def load_known():
    path = os.path.join(VERIF_DIR, 'KNOWN_FINDINGS.json')
    if not os.path.exists(path):
        return []
    with open(path) as f:
        return json.load(f).get('findings', [])


def write_replay(prop, v, tier='thorough'):
    d = os.path.join(os.environ.get('MCV_REPLAY_DIR') or os.path.join(VERIF_DIR, 'replays'), prop)
    os.makedirs(d, exist_ok=True)
    body = {'property': prop, 'tier': tier, 'family': v['family'], 'case': v['case'], 'sig': v['sig'],
            'msg': v['msg'], 'expected': v.get('expected'), 'observed': v.get('observed'),
            'decoded': v.get('decoded')}
    h = hashlib.sha1(json.dumps([body['family'], body['case'], body['sig']],
                                sort_keys=True, default=repr).encode()).hexdigest()[:12]
    path = os.path.join(d, h + '.json')
    with open(path, 'w') as f:
        json.dump(body, f, indent=1, sort_keys=True, default=repr)
    return path


def replay_once(prop_mod, path):
    """Re-execute one recorded case without the explorer; returns the violation (or None)."""
    with open(path) as f:
        body = json.load(f)
    tier = body.get('tier', 'thorough')
    fams = prop_mod.families(tier)
    for fam in fams:
        fam._siblings = {f.name: f for f in fams}
        fam._replay_tier = tier
    for fam in fams:
        if fam.name == body['family']:
            fam.setup(tier)
            fam._replay_ready = True
            if hasattr(fam, 'replay'):
                res = fam.replay(body['case'])
            else:
                res = fam.run_case(fam.decode(body['case']) if hasattr(fam, 'decode') else body['case'])
            return res
    raise HarnessError('no family %r in %s' % (body['family'], prop_mod.__name__))


def _replay_subprocess(prop, path, hashseed):
    env = dict(os.environ)
    env['PYTHONHASHSEED'] = hashseed
    p = subprocess.run([sys.executable, '-m', 'mcv.core', prop, '--replay', path, '--json'],
                       cwd=VERIF_DIR, env=env, stdout=subprocess.PIPE, stderr=subprocess.PIPE,
                       universal_newlines=True, timeout=600)
    line = [l for l in p.stdout.splitlines() if l.startswith('REPLAY-RESULT ')]
    if not line:
        raise HarnessError('replay of %s produced no result (rc=%s)\n%s\n%s'
                           % (path, p.returncode, p.stdout[-2000:], p.stderr[-2000:]))
    return json.loads(line[-1][len('REPLAY-RESULT '):])


def confirm_deterministic(prop, path, must=True):
    """
    Replay in two fresh interpreters under the hash seed of this run: both must give the same verdict (anything else
    is nondeterminism the harness does not own: a hard error).  A third replay under another hash seed tells whether the
    verdict depends on the iteration order of sets / dicts of strings inside the library; such a violation is still a
    violation (the hash seed is recorded in the replay file and restored when the file is replayed).
    """
    own = os.environ.get('PYTHONHASHSEED', '0')
    if own == 'random' or not own.isdigit():
        own = '0'
    outs = [_replay_subprocess(prop, path, own) for _ in range(2)]
    if outs[0] != outs[1]:
        raise HarnessError('replay of %s is not deterministic: %r vs %r' % (path, outs[0], outs[1]))
    if not outs[0]['violation']:
        if not must:
            return None
        raise HarnessError('violation recorded in %s did not reproduce on replay' % path)
    other = _replay_subprocess(prop, path, '1' if own != '1' else '2')
    with open(path) as f:
        body = json.load(f)
    body['pythonhashseed'] = own
    body['depends_on_hash_seed'] = (other != outs[0])
    with open(path, 'w') as f:
        json.dump(body, f, indent=1, sort_keys=True, default=repr)
    res = dict(outs[0])
    res['depends_on_hash_seed'] = body['depends_on_hash_seed']
    return res


def run_property(prop, tier, seed, only=None):
    t0 = time.time()
    repo = bind_repo()
    modname = 'mcv.props.' + prop.lower()
    mod = __import__(modname, fromlist=['x'])
    fams = mod.families(tier)
    tasks = []
    level_fams = []
    for i, fam in enumerate(fams):
        if only and fam.name not in only:
            continue
        if getattr(fam, 'level_sync', False):
            level_fams.append((i, fam))
            continue
        W = getattr(fam, 'workers', NWORKERS)
        for w in range(W):
            tasks.append((modname, i, tier, seed, w, W))
    # big families first so that the pool drains evenly
    merged = {}
    errors = []
    ctx = mp.get_context('fork')
    with ctx.Pool(NWORKERS) as pool:
        for status, name, payload in pool.imap_unordered(_task, tasks, chunksize=1):
            if status == 'err':
                errors.append((name, payload))
                continue
            if name not in merged:
                merged[name] = Stats(name)
            merged[name].merge(payload)
        for i, fam in level_fams:
            try:
                merged[fam.name] = run_level_bfs(pool, modname, i, fam, tier)
            except HarnessError as e:
                errors.append((fam.name, str(e)))
    if errors:
        for name, payload in errors[:5]:
            sys.stderr.write('HARNESS ERROR in %s\n%s\n' % (name, payload))
        # A slice that stopped with a harness error explored less than it should have: without a confirmed violation from the
        # other slices there is no verdict (exit 2).  A violation that replays in fresh interpreters is a verdict whatever
        # else went wrong (on a broken tree both happen together: state leaking between cases makes outcomes irreproducible).
        if not any(st.violations for st in merged.values()):
            sys.stderr.write('%d harness error(s); no verdict.\n' % len(errors))
            return 2

    # ---- verdict
    known = [k for k in load_known() if k.get('property') == prop]
    open_known = {k['sig']: k for k in known if k.get('status') == 'open'}
    fresh = []
    known_hits = Counter()
    for name, st in merged.items():
        for sig, n in st.sigcount.items():
            if sig in open_known:
                known_hits[sig] += n
        for v in st.violations:
            if v['sig'] not in open_known:
                fresh.append(v)
    rc = 0
    for sig, n in sorted(known_hits.items()):
        print('KNOWN-FINDING: property=%s %s (%d case(s) this run; sig=%s)'
              % (prop, open_known[sig].get('what', ''), n, sig))
    reported = []
    unconfirmed = []
    if fresh:
        fresh.sort(key=lambda v: (len(json.dumps(v['case'], default=repr)), v['family']))
        seen_sigs = set()
        for v in fresh:
            if v['sig'] in seen_sigs:
                continue
            seen_sigs.add(v['sig'])
            path = write_replay(prop, v, tier)
            if confirm_deterministic(prop, path, must=not v.get('window')) is None:
                # not reproducible alone: state left behind by earlier cases of the same worker?  Replay it in a fresh
                # process after the shortest suffix of its predecessors that brings the violation back.
                os.remove(path)
                found = None
                win = v['window']
                for L in (1, 2, 4, 8, 16, 32, 64):
                    v2 = dict(v)
                    v2['case'] = {'_seq': win[-L:] + [v['case']]}
                    v2['sig'] = 'history-dependent:' + v['sig']
                    v2['msg'] = 'only after the %d preceding case(s) of the same worker: %s' % (min(L, len(win)), v['msg'])
                    path = write_replay(prop, v2, tier)
                    if confirm_deterministic(prop, path, must=False) is not None:
                        found = v2
                        break
                    os.remove(path)
                    if L >= len(win):
                        break
                if found is None:
                    unconfirmed.append('violation %s (case %r) did not reproduce on replay, alone or after its predecessors'
                                       % (v['sig'], v['case']))
                    continue
                v = found
            print('VIOLATION property=%s replay=%s' % (prop, path))
            print('  family=%s sig=%s\n  %s\n  case=%s' % (v['family'], v['sig'], v['msg'],
                                                         json.dumps(v['case'], default=repr)[:400]))
            try:
                with open(path) as f:
                    if json.load(f).get('depends_on_hash_seed'):
                        print('  note: reproduces under PYTHONHASHSEED=%s (recorded in the replay file) but not under another hash '
                              'seed: the outcome depends on set/dict iteration order inside the library'
                              % os.environ.get('PYTHONHASHSEED', '0'))
            except Exception:
                pass
            reported.append(path)
            if len(reported) >= 8:
                break
        if reported:
            rc = 1
            for u in unconfirmed[:5]:
                sys.stderr.write('note: %s\n' % u)
        else:
            # nothing that was recorded replays: nondeterminism the harness does not own -- no verdict
            raise HarnessError('; '.join(unconfirmed[:3]) or 'violations recorded but none confirmed')
    if errors and rc == 0:
        sys.stderr.write('%d harness error(s); no verdict.\n' % len(errors))
        return 2
    if errors:
        sys.stderr.write('note: %d slice(s) ended in a harness error; the violations above were confirmed by replay\n' % len(errors))

    # ---- evidence
    wall = time.time() - t0
    total = Stats('total')
    famcov = {}
    for i, fam in enumerate(fams):
        st = merged.get(fam.name)
        if st is None:
            continue
        if 'state_hashes' in st.extra:
            from .bfs import finalize_bfs_stats
            finalize_bfs_stats(st)
        total.merge(st)
        famcov[fam.name] = {
            'engine': fam.kind,
            'rule': fam.rule,
            'evaluations': st.evaluations,
            'distinct_nontrivial': st.nontrivial,
            'implementation_calls': st.calls,
            'states': st.states,
            'transitions': st.transitions,
            'distinct_outcomes': len(st.outcomes),
            'outcomes': dict(st.outcomes.most_common(12)),
            'violations': st.nviolations,
            'exhaustive': st.exhaustive,
            'cap': st.cap_note,
            'extra': {k: v for k, v in st.extra.items() if k != 'cpu_s'},
            'cpu_s': st.extra.get('cpu_s'),
        }
    samples = []
    for fam in fams:
        st = merged.get(fam.name)
        if st:
            samples.extend(st.samples[:2])
    ev = {
        'property_id': prop,
        'tier': tier,
        'seed': seed,
        'level': 'model_checking',
        'coverage': {
            'evaluations': total.evaluations,
            'distinct_nontrivial': total.nontrivial,
            'rule': getattr(mod, 'RULE', 'see families.*.rule'),
            'samples': samples[:24] or [{'note': 'no cases'}],
            'states': max(total.states, 0),
            'transitions': max(total.transitions, 0),
            'traces_validated_against_impl': total.calls,
            'exhaustive': bool(total.exhaustive),
            'distinct_outcomes': sum(len(merged[n].outcomes) for n in merged),
            'families': famcov,
            'explanation': getattr(mod, 'EXPLANATION', ''),
            'known_findings_seen': dict(known_hits),
            'repo': repo,
        },
        'assumptions': getattr(mod, 'ASSUMPTIONS', []),
        'wall_s': round(wall, 2),
        'violations': len(fresh),
    }
    # iteration order of sets / dicts keyed by strings is a source of nondeterminism inside the library which the explorer
    # does not own within one interpreter: properties that declare it are explored again under further hash seeds
    extra_hs = [] if (only or os.environ.get('MCV_SUBRUN')) else list(getattr(mod, 'EXTRA_HASH_SEEDS', {}).get(tier, ()))
    own_hs = os.environ.get('PYTHONHASHSEED', '0')
    subruns = []
    for hs in extra_hs:
        if str(hs) == own_hs:
            continue
        import tempfile
        import shutil
        tmp = tempfile.mkdtemp(prefix='mcv_hs_')
        env = dict(os.environ)
        env.update({'PYTHONHASHSEED': str(hs), 'MCV_SUBRUN': '1', 'MCV_EVIDENCE_DIR': tmp})
        p = subprocess.run([sys.executable, '-m', 'mcv.core', prop, tier], cwd=VERIF_DIR, env=env,
                           stdout=subprocess.PIPE, stderr=subprocess.PIPE, universal_newlines=True)
        sub = {'pythonhashseed': str(hs), 'rc': p.returncode}
        try:
            with open(os.path.join(tmp, prop + '.json')) as f:
                sev = json.load(f)
            sub.update({k: sev['coverage'][k] for k in ('evaluations', 'states', 'transitions', 'traces_validated_against_impl',
                                                        'exhaustive', 'distinct_outcomes')})
            sub['violations'] = sev['violations']
        except Exception as e:
            sub['evidence_error'] = repr(e)
        shutil.rmtree(tmp, ignore_errors=True)
        if p.returncode not in (0, 1):
            sys.stderr.write(p.stderr[-3000:])
            raise HarnessError('sub-run of %s %s under PYTHONHASHSEED=%s failed (rc=%s)' % (prop, tier, hs, p.returncode))
        for line in p.stdout.splitlines():
            if line.startswith('VIOLATION ') or line.startswith('  ') and 'sig=' in line:
                print(line + ('' if not line.startswith('VIOLATION ') else '   [found under PYTHONHASHSEED=%s]' % hs))
        if p.returncode == 1:
            rc = 1
            ev['violations'] += sub.get('violations', 1)
        subruns.append(sub)
    if subruns:
        ev['coverage']['hash_seed_runs'] = [{'pythonhashseed': own_hs, 'this_run': True}] + subruns
        for sub in subruns:
            for k_ev, k_sub in (('states', 'states'), ('transitions', 'transitions'),
                                ('traces_validated_against_impl', 'traces_validated_against_impl'), ('evaluations', 'evaluations')):
                ev['coverage'][k_ev] += int(sub.get(k_sub, 0) or 0)
            ev['coverage']['exhaustive'] = bool(ev['coverage']['exhaustive'] and sub.get('exhaustive', False))
    evdir = os.environ.get('MCV_EVIDENCE_DIR') or os.path.join(VERIF_DIR, 'evidence')
    os.makedirs(evdir, exist_ok=True)
    evpath = os.path.join(evdir, prop + '.json')
    if not only:
        with open(evpath + '.tmp', 'w') as f:
            json.dump(ev, f, indent=1, sort_keys=True, default=repr)
        os.replace(evpath + '.tmp', evpath)
    print('%s %s seed=%d: %d cases (%d non-trivial), %d implementation calls, states=%d transitions=%d, '
          '%d distinct outcomes, exhaustive=%s, %d violation(s), %.1fs'
          % (prop, tier, seed, total.evaluations, total.nontrivial, total.calls, total.states,
             total.transitions, ev['coverage']['distinct_outcomes'], total.exhaustive, len(fresh), wall))
    for name in famcov:
        c = famcov[name]
        print('   %-28s %9d cases %9d nontrivial %4d outcomes  %s'
              % (name, c['evaluations'], c['distinct_nontrivial'], c['distinct_outcomes'],
                 '' if c['exhaustive'] else 'CAPPED: %s' % c['cap']))
    for sub in subruns:
        print('   + the same exploration under PYTHONHASHSEED=%s: %s cases, %s violation(s)'
              % (sub['pythonhashseed'], sub.get('evaluations'), sub.get('violations')))
    return rc


def main(argv):
    import argparse
    ap = argparse.ArgumentParser()
    ap.add_argument('prop')
    ap.add_argument('tier', nargs='?', default=os.environ.get('VERIF_TIER', 'quick'))
    ap.add_argument('--replay')
    ap.add_argument('--json', action='store_true')
    ap.add_argument('--only', action='append')
    a = ap.parse_args(argv)
    prop = a.prop.upper()
    seed = int(os.environ.get('VERIF_SEED', '0') or 0)
    if a.replay:
        if not a.json:
            # a recorded violation may depend on the hash seed it was found under: restore it
            try:
                with open(a.replay) as f:
                    want = json.load(f).get('pythonhashseed')
            except Exception:
                want = None
            if want is not None and os.environ.get('PYTHONHASHSEED') != str(want):
                env = dict(os.environ)
                env['PYTHONHASHSEED'] = str(want)
                os.execve(sys.executable, [sys.executable, '-m', 'mcv.core'] + list(argv), env)
        bind_repo()
        mod = __import__('mcv.props.' + prop.lower(), fromlist=['x'])
        res = replay_once(mod, a.replay)
        out = {'violation': bool(res.violation), 'outcome': res.outcome,
               'sig': res.violation['sig'] if res.violation else None,
               'observed': res.violation.get('observed') if res.violation else None}
        if a.json:
            print('REPLAY-RESULT ' + json.dumps(out, sort_keys=True, default=repr))
        else:
            print(json.dumps({'result': out, 'detail': res.violation}, indent=1, default=repr))
            if res.violation:
                print('VIOLATION property=%s replay=%s' % (prop, a.replay))
        return 1 if res.violation and not a.json else 0
    if a.tier not in ('quick', 'thorough'):
        raise SystemExit('tier must be quick or thorough')
    return run_property(prop, a.tier, seed, a.only)


if __name__ == '__main__':
    try:
        rc = main(sys.argv[1:])
    except HarnessError as e:
        sys.stderr.write('HARNESS ERROR: %s\n' % e)
        rc = 2
    except SystemExit:
        raise
    except BaseException:
        traceback.print_exc()
        rc = 2
    sys.exit(rc)
