"""
Author-level fixtures built through the library's public extension points.
Import only after core.bind_repo() (the property modules are imported after it).
"""
from mitxgraders.baseclasses import ItemGrader
from mitxgraders.sampling import VariableSamplingSet
from voluptuous import Schema, Required, Any


class TableGrader(ItemGrader):
    """
    An ItemGrader whose check_response looks up (expect, student_input) in a table:
        table = {(expect, input): credit  or  (credit, msg)}
    Missing pairs earn 0.  `name_pairs=True` puts "<expect>|<input>" into every message so that
    an oracle can decode which answer was matched with which input.
    Credit is multiplied by the answer's grade_decimal like built-in graders do.
    """
    @property
    def schema_config(self):
        schema = super(TableGrader, self).schema_config
        return schema.extend({
            Required('table', default={}): dict,
            Required('name_pairs', default=False): bool,
            Required('raise_on', default=()): Any(tuple, list),
        })

    def check_response(self, answer, student_input, **kwargs):
        key = (answer['expect'], student_input)
        if student_input in self.config['raise_on']:
            raise ValueError('table grader asked to fail on %r' % (student_input,))
        entry = self.config['table'].get(key, 0)
        if isinstance(entry, tuple):
            credit, msg = entry
        else:
            credit, msg = entry, ''
        if self.config['name_pairs']:
            msg = '%s|%s' % key
        grade = credit * answer['grade_decimal']
        if credit > 0 and answer['msg'] and not self.config['name_pairs']:
            msg = (msg + ' ' + answer['msg']).strip()
        return {'ok': ItemGrader.grade_decimal_to_ok(grade), 'grade_decimal': grade, 'msg': msg}


class ScriptedSampler(VariableSamplingSet):
    """
    A sampling set that hands out the values of a script in order (cycling) and records them.
    ScriptedSampler(values=[...]).  `drawn` lists what was handed out.
    """
    schema_config = Schema({Required('values'): list})

    def __init__(self, config=None, **kwargs):
        super(ScriptedSampler, self).__init__(config, **kwargs)
        self.drawn = []
        self._i = 0

    def gen_sample(self):
        v = self.config['values'][self._i % len(self.config['values'])]
        self._i += 1
        self.drawn.append(v)
        return v


def call(grader, expect, student_input, **kw):
    """
    Calls a grader and renders the outcome as a comparable tuple:
        ('ok', result_dict)  or  ('err', exception_class_name, message)
    """
    try:
        return ('ok', grader(expect, student_input, **kw))
    except Exception as e:      # noqa: the harness wants to see everything that escapes
        return ('err', type(e).__name__, str(e))


def mro_names(exc_name_or_exc):
    """class names in the MRO of an exception instance"""
    return [c.__name__ for c in type(exc_name_or_exc).__mro__]
